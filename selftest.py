#!/usr/bin/env python3
"""Monitor validation (DESIGN.md section 6): applies each hand-written change of mutants/mutants.py to
a scratch worktree of /repo and requires the quick check of the targeted property to report a
VIOLATION; applies each benign variant and requires every check to stay silent.

  selftest.py [--only <substring>] [--suite] [--benign-only] [--mutants-only] [--keep]

Not part of any registered check. Scratch data lives under /tmp/vmon-mut-<pid> and is removed at the end.
"""
import json, os, subprocess, sys, time, shutil
VERIF = os.path.dirname(os.path.abspath(__file__))
sys.path.insert(0, os.path.join(VERIF, "mutants"))
from mutants import MUTANTS, BENIGN

ROOT = "/tmp/vmon-mut-%d" % os.getpid()   # one scratch root per run, so two runs never share a tree
WT = ROOT + "/wt"

def sh(cmd, cwd=None, env=None, timeout=7200):
    p = subprocess.run(cmd, shell=True, cwd=cwd, env=env, stdout=subprocess.PIPE, stderr=subprocess.STDOUT, text=True, timeout=timeout)
    return p.returncode, p.stdout

def apply(m):
    sh("git checkout -q -- .", cwd=WT)
    path = os.path.join(WT, m["file"])
    s = open(path).read()
    for old, new in m.get("edits", [(m.get("old"), m.get("new"))]):
        if s.count(old) != 1:
            return "pattern occurs %d times" % s.count(old)
        s = s.replace(old, new)
    open(path, "w").write(s)
    return None

def run_check(prop, tier="quick"):
    env = dict(os.environ, VMON_REPO=WT, VMON_NO_SANITIZERS="1", VMON_TARGET=ROOT + "/target")
    env.setdefault("VERIF_SEED", "0")
    rc, o = sh("./check %s %s 2>/dev/null" % (prop, tier), cwd=VERIF, env=env)
    sig = ""
    for l in o.splitlines():
        if l.startswith("VIOLATION"):
            try:
                r = json.load(open(l.split("replay=")[-1].strip()))
                sig = r["signature"]
            except Exception:
                pass
            break
    return rc, sig, o

def main():
    only = sys.argv[sys.argv.index("--only") + 1] if "--only" in sys.argv else None
    # --shard k/n: this process takes every n-th entry (mutants and benign variants alike), starting
    # with the k-th; n processes with k = 0..n-1 cover everything, each with its own scratch root,
    # and merge their results into mutants/RESULTS.json under a file lock
    shard = None
    if "--shard" in sys.argv:
        k, n = sys.argv[sys.argv.index("--shard") + 1].split("/")
        shard = (int(k), int(n))
    suite = "--suite" in sys.argv
    os.makedirs(ROOT, exist_ok=True)
    sh("git -C /repo worktree remove --force %s" % WT)
    rc, o = sh("git -C /repo worktree add -q --detach %s HEAD" % WT)
    if rc != 0:
        print(o); sys.exit(2)
    results = {"mutants": {}, "benign": {}}
    ok = True
    try:
        if "--benign-only" not in sys.argv:
            for mi, m in enumerate(MUTANTS):
                if only and only not in m["id"]:
                    continue
                if shard and mi % shard[1] != shard[0]:
                    continue
                err = apply(m)
                if err:
                    print("%-44s  CANNOT APPLY (%s)" % (m["id"], err)); ok = False
                    results["mutants"][m["id"]] = {"error": err}; continue
                r = {"prop": m["prop"], "needs": m["needs"]}
                if suite:
                    rc, o = sh("timeout -k 5 240 cargo nextest run --workspace --no-fail-fast --offline --test-threads 8 2>&1 | tail -3 | cut -c1-150", cwd=WT, env=dict(os.environ, CARGO_TARGET_DIR=ROOT + "/suite-target"))
                    r["baseline_suite"] = (o.strip().splitlines()[-1] if o.strip() else "?") if "Summary" in o else "suite did not finish within 240 s (hang) or failed to build: " + o.strip()[-120:]
                t0 = time.time()
                rc, sig, o = run_check(m["prop"])
                r.update({"check_exit": rc, "signature": sig, "wall_s": round(time.time() - t0, 1)})
                results["mutants"][m["id"]] = r
                good = rc == 1
                ok &= good
                print("%-44s  %s  exit=%s  %s  %s" % (m["id"], "CAUGHT" if good else "MISSED", rc, r.get("baseline_suite", ""), sig[:110]), flush=True)
        if "--mutants-only" not in sys.argv:
            props = [c["property_id"] for c in json.load(open(os.path.join(VERIF, "MANIFEST.json")))["checks"]]
            for mi, m in enumerate(BENIGN):
                if only and only not in m["id"]:
                    continue
                if shard and mi % shard[1] != shard[0]:
                    continue
                err = apply(m)
                if err:
                    print("%-44s  CANNOT APPLY (%s)" % (m["id"], err)); ok = False
                    results["benign"][m["id"]] = {"error": err}; continue
                loud = {}
                for p in props:
                    rc, sig, o = run_check(p)
                    if rc != 0:
                        loud[p] = {"exit": rc, "signature": sig, "tail": o[-300:]}
                results["benign"][m["id"]] = {"alarms": loud}
                ok &= not loud
                print("%-44s  %s  %s" % (m["id"], "SILENT" if not loud else "ALARM", json.dumps(loud)[:300]), flush=True)
    finally:
        sh("git checkout -q -- .", cwd=WT)
        if "--keep" not in sys.argv:
            sh("git -C /repo worktree remove --force %s" % WT)
            shutil.rmtree(ROOT, ignore_errors=True)
    out = os.path.join("/verif", "mutants", "RESULTS.json")  # live /verif, also when run from a vp snapshot
    import fcntl
    with open(out + ".lock", "w") as lk:
        fcntl.flock(lk, fcntl.LOCK_EX)
        if os.path.exists(out) and (only or shard):
            prev = json.load(open(out))
            for k in ("mutants", "benign"):
                prev.setdefault(k, {}).update(results[k])
            results = prev
        json.dump(results, open(out, "w"), indent=1)
    sys.exit(0 if ok else 1)

if __name__ == "__main__":
    main()
