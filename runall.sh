#!/bin/sh
# convenience: run every check of one tier, print one summary line each (not a registered check)
tier=${1:-quick}
cd "$(dirname "$0")"
rc=0
for i in 01 02 03 04 05 06 07 08 09 10 11 12 13 14 15 16 17 18 19 20; do
  ./check C$i $tier 2>/dev/null | grep -E "VIOLATION|KNOWN|INCONCL|seed=" ; [ $? -eq 0 ] || rc=1
done
exit $rc
