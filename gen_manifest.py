#!/usr/bin/env python3
"""Regenerates MANIFEST.json from the table below (single source of truth for the registered checks)."""
import json
import os

VERIF = os.path.dirname(os.path.abspath(__file__))

# id -> (design section, technique, level text, level note)
CHECKS = {
    "C01": ("4/C01", "history monitor with unique payloads over a controlled in-memory transport (all read chunkings); ASan + Miri passes",
            "Thousands of real run_on executions per run: command sequences with position-dependent unique payloads (1 B .. 2*(2^24-1)+5000 B) under adversarial read schedules (1-byte reads, reads ending after 1/2/3 header bytes, on packet boundaries, spanning several commands); the ordered callback list must equal the framed command list byte for byte. Exploration, not proof: the quantifier over chunkings is sampled by class.",
            "wire.rs framing is the reference; >=16 MiB payloads use coarse reads away from fragment boundaries"),
    "C02": ("4/C02", "model-vs-log monitor: reference routing model against the complete ordered shim callback log",
            "Random command sequences over all nine command kinds with adversarial texts (near-misses of the built-in prefixes, every USE spelling the property lists, invalid UTF-8, random 32-bit ids); the whole callback list and run_on's outcome must equal the reference model's. Exploration by seeded generation over text classes.",
            "model.rs encodes the routing rules exactly as the property states them; spellings outside the stated domain are not generated"),
    "C03": ("4/C03", "trace-specification monitor: sequential reference response decoder + sentinel PING after every command + program-denotation comparison",
            "Exhaustive small scope of writer-API programs (all programs with up to 2 (thorough: 3) chained sets, <=2 rows, 0..2 columns, every finalisation form, text and binary) plus random larger programs, built-ins, database switches incl. the default on_init, PREPARE ok/error and one shape contradiction per program; every response must decode under the EOF-terminated 4.1 grammar, equal the program's denotation and leave the sentinel PING's reply unshifted.",
            "sequence ids are not part of C03's acceptance (C05's); dropping a never-used writer is documented misuse and not generated"),
    "C05": ("4/C05", "invariant check on every outbound packet header, exchanges delimited by the client script; both arithmetic profiles",
            "Every request id 0..255 for every command kind and for the handshake, responses of up to ~750 packets (wrap-around at least twice), multi-packet requests, random conversations with random ids: each outbound id must be previous+1 mod 256 starting at last-request-id+1.",
            "cases whose output does not decode are skipped and counted (C03/C04 judge those)"),
    "C10": ("4/C10", "exhaustive short histories + random long ones against the statement-registry model; sentinel PINGs for the no-reply clauses",
            "All histories of length <=5 (thorough: <=6) over {PREPARE id1/id2/rejected, EXECUTE, LONG_DATA, CLOSE} x 2 ids (a history ends at its first illegal operation) plus random histories of length <=60 over 4 ids; callback log, run_on outcome and reply alignment are compared with the model.",
            "model.rs registry rules are the property's; parameter values are small (C08 covers decoding)"),
    "C12": ("4/C12", "assertion evaluated inside the transport at every read(): no unflushed bytes, no owed replies; deadlock events under lock-step / k-deep pipelined arrival",
            "Rich conversations under scripted arrival with every read-schedule class, lock-step and pipelined (depth 2,3,5) arrival, short writes; at every read() the flushed output must already contain a complete response for every fully received reply-expecting exchange. Logical time only.",
            "visibility model: bytes are visible to the client only after flush() on the transport"),
    "C16": ("4/C16", "history monitor against the per-statement bound-types model; client encodes values per the model",
            "Histories of executions over 3 statements with different parameter counts, each execution independently rebinding (fresh random types) or reusing; values are chosen so that a one-byte shift or a foreign type changes the decoded value; the shim's parameter list is compared with the model.",
            "first execution after (re)PREPARE always rebinds (anything else is malformed input, C20)"),
    "C17": ("4/C17", "history monitor against the long-data accumulation model, unique chunk contents",
            "Interleavings of long-data chunks (sizes 0/1/random, one multi-packet chunk) over 3 statements x 4 parameter indexes with executions, double executions and out-of-range indexes; every execution's parameter list is compared with the model (concatenation in arrival order, delivered once, never to another statement).",
            "parameters supplied by long data carry no inline bytes, as the protocol prescribes"),
}

PENDING = {
}

ALL = ["C%02d" % i for i in range(1, 21)]


def main():
    checks = []
    for pid in ALL:
        if pid not in CHECKS:
            continue
        sec, tech, text, note = CHECKS[pid]
        checks.append({
            "property_id": pid,
            "quick_cmd": "./check %s quick" % pid,
            "thorough_cmd": "./check %s thorough" % pid,
            "evidence_file": "/verif/evidence/%s.json" % pid,
            "replay_cmd_template": "./check --replay {path}",
            "engine": "vmon",
            "level_claimed": {"category": "fault_enumeration" if pid == "C19" else "exploration", "text": text, "design_ref": "DESIGN.md section " + sec},
            "level_note": note,
            "technique": tech,
        })
    na = []
    for pid in ALL:
        if pid not in CHECKS:
            na.append({"property_id": pid, "reason": PENDING.get(pid, "monitor designed (DESIGN.md section 4) but not yet implemented in the harness; no claim is made until the check exists and is calibrated")})
    m = {
        "version": 1,
        "setup_cmd": "./setup.sh",
        "hooks": {
            "guard": "msql_srv_verif",
            "enable": "none needed: every property is observed at the public boundary (transport + MysqlShim); no hook commits exist, so checks build /repo unmodified",
            "baseline_off_cmd": "cd /repo && cargo nextest run --workspace --no-fail-fast --offline --test-threads 8",
            "source_commits": [],
            "add_only": True,
        },
        "engines": [{
            "name": "vmon",
            "path": "/verif/harness",
            "serves_properties": sorted(CHECKS.keys()),
            "kind_free_text": "Rust harness linking the real msql-srv from /repo (path dependency, rebuilt on every check in two profiles: overflow/debug-assertion checked and release); in-memory fault-injecting transport, scripted recording shim, independent wire codec as oracle, sequential reference model; thorough tier adds AddressSanitizer, valgrind memcheck and Miri passes over the same workloads",
        }],
        "checks": checks,
        "not_applicable": na,
        "notes": "Runtime monitoring only. ./check <id> <tier> exits 0 (held on everything observed), 1 (VIOLATION lines) or 2 (inconclusive: build failure / harness self-check / missing observations). Known findings: /verif/known_findings.json. Seeded-change results: DESIGN.md section 11.",
    }
    json.dump(m, open(os.path.join(VERIF, "MANIFEST.json"), "w"), indent=1)
    print("MANIFEST.json: %d checks, %d not_applicable" % (len(checks), len(na)))


if __name__ == "__main__":
    main()
