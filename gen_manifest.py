#!/usr/bin/env python3
"""Regenerates MANIFEST.json from the table below (single source of truth for the registered checks)."""
import json
import os

VERIF = os.path.dirname(os.path.abspath(__file__))

# id -> (design section, technique, level text, level note)
CHECKS = {
    "C01": ("4/C01", "history monitor with unique payloads over a controlled in-memory transport (all read chunkings); ASan + Miri passes",
            "Thousands of real run_on executions per run: command sequences with position-dependent unique payloads (1 B .. 2*(2^24-1)+5000 B) under adversarial read schedules (1-byte reads, reads ending after 1/2/3 header bytes, on packet boundaries, spanning several commands); the ordered callback list must equal the framed command list byte for byte. Exploration, not proof: the quantifier over chunkings is sampled by class.",
            "wire.rs framing is the reference; >=16 MiB payloads use coarse reads away from fragment boundaries"),
    "C02": ("4/C02", "model-vs-log monitor: reference routing model against the complete ordered shim callback log",
            "Random command sequences over all nine command kinds with adversarial texts (near-misses of the built-in prefixes, every USE spelling the property lists, invalid UTF-8, random 32-bit ids); the whole callback list and run_on's outcome must equal the reference model's. Exploration by seeded generation over text classes.",
            "model.rs encodes the routing rules exactly as the property states them; spellings outside the stated domain are not generated"),
    "C03": ("4/C03", "trace-specification monitor: sequential reference response decoder + sentinel PING after every command + program-denotation comparison",
            "Exhaustive small scope of writer-API programs (all programs with up to 2 (thorough: 3) chained sets, <=2 rows, 0..2 columns, every finalisation form, text and binary) plus random larger programs, built-ins, database switches incl. the default on_init, PREPARE ok/error and one shape contradiction per program; every response must decode under the EOF-terminated 4.1 grammar, equal the program's denotation and leave the sentinel PING's reply unshifted.",
            "sequence ids are not part of C03's acceptance (C05's); dropping a never-used writer is documented misuse and not generated"),
    "C05": ("4/C05", "invariant check on every outbound packet header, exchanges delimited by the client script; both arithmetic profiles",
            "Every request id 0..255 for every command kind and for the handshake, responses of up to ~750 packets (wrap-around at least twice), multi-packet requests, random conversations with random ids: each outbound id must be previous+1 mod 256 starting at last-request-id+1.",
            "cases whose output does not decode are skipped and counted (C03/C04 judge those)"),
    "C10": ("4/C10", "exhaustive short histories + random long ones against the statement-registry model; sentinel PINGs for the no-reply clauses",
            "All histories of length <=5 (thorough: <=6) over {PREPARE id1/id2/rejected, EXECUTE, LONG_DATA, CLOSE} x 2 ids (a history ends at its first illegal operation) plus random histories of length <=60 over 4 ids; callback log, run_on outcome and reply alignment are compared with the model.",
            "model.rs registry rules are the property's; parameter values are small (C08 covers decoding)"),
    "C12": ("4/C12", "assertion evaluated inside the transport at every read(): no unflushed bytes, no owed replies; deadlock events under lock-step / k-deep pipelined arrival",
            "Rich conversations under scripted arrival with every read-schedule class, lock-step and pipelined (depth 2,3,5) arrival, short writes; at every read() the flushed output must already contain a complete response for every fully received reply-expecting exchange. Logical time only.",
            "visibility model: bytes are visible to the client only after flush() on the transport"),
    "C16": ("4/C16", "history monitor against the per-statement bound-types model; client encodes values per the model",
            "Histories of executions over 3 statements with different parameter counts, each execution independently rebinding (fresh random types) or reusing; values are chosen so that a one-byte shift or a foreign type changes the decoded value; the shim's parameter list is compared with the model.",
            "first execution after (re)PREPARE always rebinds (anything else is malformed input, C20)"),
    "C17": ("4/C17", "history monitor against the long-data accumulation model, unique chunk contents",
            "Interleavings of long-data chunks (sizes 0/1/random, one multi-packet chunk) over 3 statements x 4 parameter indexes with executions, double executions and out-of-range indexes; every execution's parameter list is compared with the model (concatenation in arrival order, delivered once, never to another statement).",
            "parameters supplied by long data carry no inline bytes, as the protocol prescribes"),
    "C06": ("4/C06", "round-trip monitor: values written through the real server in text mode, decoded by the reference text-row decoder and parsed per written type; mysql_common as second parser; direct encoder sweeps",
            "Resultsets of 1-30 mixed columns x 1-10 rows over every value type and hand-over form (by value, reference, Option, Option<&T>, &Option<T>, generic Value; write_col and write_row), compared as values (numbers, temporals) or byte for byte; every date of years 0..9999 (thorough: all 3.65 M, quick: stratified) and all 16-bit integers through the public encoder; one >16 MiB cell in thorough.",
            "numeric/temporal text formatting is free: cells are compared as values; durations within MySQL's TIME range, microsecond precision"),
    "C07": ("4/C07", "round-trip monitor over binary rows decoded with the advertised column types/flags; must-accept / must-refuse verdict table; ASan pass",
            "Binary resultsets with 1..20, 62..65, 254..256, 300 (thorough 1000) columns, NULL patterns none/all/alternating/single/all-but-one/random, natural (value type, column type) pairs through every hand-over form; every row is decoded with the reference binary-row decoder (NULL bitmap offset 2, reserved bits clear) and mysql_common's; every case of the refuse group ends with one cross-kind value or NULL into NOT NULL, which must return Err.",
            "integer width/signedness combinations are C15's; which legal temporal length form is used is free"),
    "C08": ("4/C08", "model-vs-log monitor on the parameter list + conversion oracle (T::from(value) under catch_unwind); ASan + Miri passes",
            "Executions with 0..300 parameters, all NULL-bitmap patterns, every decodable type code x unsigned flag, integer bounds, every legal DATE/DATETIME/TIME length form, strings across lenenc classes; coltype, raw value and the Rust conversion matching the bound type are compared with what the client encoded.",
            "zero-length DATE/DATETIME have no chrono value: only the raw form is compared"),
    "C09": ("4/C09", "round-trip monitor on ColumnDefinition41 / COM_STMT_PREPARE_OK decoded by the reference decoder and mysql_common's Column parser",
            "Descriptor lists of 0..300 (thorough 1000) entries, names of 0/1/250/251/252/65535/65536 bytes incl. non-ASCII, every ColumnType variant, single/all/random flag words, edge statement ids; count, table, name, type and flags are compared in resultset headers and PREPARE replies.",
            "catalog/schema/org_*/charset/length/decimals are free"),
    "C13": ("4/C13", "round-trip monitor on ERR packets for every defined kind x reporting site; kinds re-read from the tree on every run; independent name/code and code/SQLSTATE facts",
            "All ~886 error kinds x 10 reporting sites x adversarial messages through the real server, decoded by the reference and mysql_common ERR parsers; ErrorKind::from(code) round trips; 710 name=code pairs from the mysql client crate and 46 manual (code, SQLSTATE) facts as hard checks; SQLSTATE snapshot drift is only reported.",
            "SQLSTATE correctness beyond the 46 facts is wire-vs-API equality"),
    "C14": ("4/C14", "round-trip monitor on OK packets (reference + mysql_common decoders)",
            "The full cross product of lenenc boundary values for (affected rows, last insert id) plus random pairs, single and chained, text and binary; zero-column resultsets with 0..70000 rows ended by end_row and by write_row.",
            "status bits other than MORE_RESULTS and warning counts are free"),
    "C15": ("4/C15", "direct-call monitor on the public ToMysqlValue::to_mysql_bin for every (Rust integer type, column, signedness, value); outcome classes exact / Err / loud panic; Miri pass",
            "12 source types x 6 column types x 2 signedness; values exhaustive for 8/16-bit types, bounds/powers of two +-1/random for wider; accepted writes are decoded by wire width and signedness and must be exact; acceptance is mandatory when the column's range contains the fixed-width type's range (pointer-sized: the value); a sample goes through real rows.",
            "an assert-panic is a loud refusal (allowed where acceptance is not mandatory); INT24's obligation range is 24 bits, exactness is judged on the 4 bytes sent"),
    "C04": ("4/C04", "byte-level monitor: reference packet reader over the complete raw output, reassembly, byte comparison with the reference encoding of the big message; split-rule check; ASan pass",
            "Rows whose encoded size is k*(2^24-1)+d (quick k=1, d in -5..2 and +300; thorough k in {1,2}, d in -8..8) assembled as one cell, 1 MiB cells, small-then-giant (boundary inside a length prefix) and giant-then-small, text and binary, write limits inf/65536; a >16 MiB column definition (thorough); plus thousands of ordinary conversations with write limits inf/65536/7/2/1.",
            "wire.rs packet reader and lenenc encoder are the reference"),
    "C11": ("4/C11", "connection-phase monitor: greeting parsed by two independent parsers, after_authentication event compared, reply and run_on outcome judged",
            "Handshake responses in the 4.1 and 3.20 layouts, capability masks (single bit / all / random / none), user names (empty, 1 byte, every non-NUL byte, non-UTF-8, 10000 bytes), arbitrary trailing bytes, any handshake sequence id, TLS offered or not, shim accepting or rejecting, 0-5 commands pipelined behind the handshake, chopped or in one read; TLS requested but not offered is refused before after_authentication.",
            "greeting contents other than protocol 10, PROTOCOL_41, the SSL bit and parseability are free"),
    "C18": ("4/C18", "real rustls client hosted inside the transport (TLS's own transcript/record integrity is the byte-exactness oracle) + TLS record parser + canary scan + differential against the plaintext run; valgrind memcheck and ASan passes",
            "First-read cut at every offset 0..(36+|ClientHello|+10), later read sizes {1,2,3,5,16,64,random,inf}, write limits {inf,1000,1}, TLS 1.2/1.3, with/without client certificate (optional/required/none), 0-10 commands incl. PREPARE/EXECUTE with rows; user name and certificate chain at after_authentication, every post-greeting server byte a TLS record, no canary in clear, decoded responses and callbacks equal to the plaintext run; TLS requested from a shim without TLS is refused before after_authentication.",
            "replays reproduce schedules, not bytes (fresh TLS randomness); cannot run under Miri"),
    "C19": ("4/C19", "fault enumeration: every input-length cut, every transport-operation index (one-off and persistent io::Error), every callback (shim error) over a conversation corpus",
            "28 conversations (each command kind, multi-packet responses, chained sets, errors, prepare/execute/long data, 100 KiB row with short writes, lock-step client, 3.20 handshake, rejected login), each run fault-free to learn B and N, then every k in 0..=B as end-of-stream, every operation index as one-off and as persistent error, and every callback returning the shim's own error: run_on's result (Ok exactly on command boundaries / after QUIT), absence of panics and of callbacks after the fault are judged. Thorough adds random conversations with random faults and cuts between the fragments of a 16 MiB command.",
            "plaintext only; error kinds BrokenPipe/ConnectionReset/Other (never Interrupted/WouldBlock, which write_all legitimately retries)"),
    "C20": ("4/C20", "panic hook + catch_unwind + operation budgets over exhaustive short inputs, grammar-aware mutations and random bytes; ASan + Miri passes",
            "All command payloads of length <=3 over a 14-symbol alphabet (with and without a prepared statement), all raw streams of <=4 bytes over a 6-symbol alphabet instead of the handshake, ~8500 grammar-aware mutations x 2 read schedules (truncation/extension at every byte, every command byte, every type code x flag, count/bitmap/type-table/value inconsistencies, every sequence id, zero-length packets, both handshake layouts cut at every byte, SSLRequest followed by garbage/truncated ClientHello/plaintext), out-of-order fragment ids, random bytes; a panic in msql-srv, a wedge or ill-framed output is a violation.",
            "'never loops forever' is decided as bounded progress (operation budget); known panic sites would be listed in known_findings.json by exact signature (none is left: all were repaired)"),
}

MEGA = {"C01", "C02", "C03", "C04", "C05", "C08", "C09", "C10", "C12", "C13", "C14", "C16", "C17", "C18", "C19"}

PENDING = {
}

# added after the fourth round of seeded changes (DESIGN.md 11.1): one more sentence per check
EXTRA = {
    "C01": " Texts may be empty or blank; every mega conversation is also compared with its single-read twin (same callbacks however the input is cut). A fifth of the small cases meet one transient transport error (verbatim-prefix oracle).",
    "C02": " Texts may be empty or blank; a group injects one transient Interrupted/WouldBlock/TimedOut per conversation (callbacks must stay a verbatim prefix of the model's list, the whole list if run_on returns Ok); every eighth mega conversation is repeated over a real loopback TCP socket through run_on_tcp and must give the same callbacks, result class and bytes.",
    "C03": " Replies of exactly 253..259 and 509..515 (thorough: up to 4099) wire packets assembled from random chained sets, each followed by a distinguishable command and a sentinel. NULL cells; every row must split into exactly one cell per advertised column. No-reply commands between sentinels; rows begun with write_col and completed by write_row; replies of 2^16+-1 packets.",
    "C04": " Unfinished rows that already filled a 2^24-1 packet and are then abandoned (finish_error / finish / drop): either a call reports the refusal or the whole output is well-framed and conformant; mega conversations are byte-compared with their single-read, unlimited-write twin. Mid-sized messages (9 KB..300 KB) behind 0..251 small rows under write limits 100..65536.",
    "C05": " Mega conversations are byte-compared with their single-read twin (ids cannot depend on how the input was cut). Transient errors: ids are judged whenever run_on returns Ok; destructor-written endings with a transient error at every operation.",
    "C06": " A sized-cell sweep (4 KiB..64 KiB around the powers of two, 1..4 MiB) mixed with NULLs, small cells and small rows. Transports are varied per case (short writes, handshake, schedule, entry point). A quarter of the resultsets are the last member of a random chain; rows may mix write_col and write_row; an eighth of the cases run over a TLS upgrade.",
    "C07": " A sized-cell sweep (4 KiB..64 KiB around the powers of two, 1..4 MiB) mixed with NULLs, small cells and small rows. Native integers of every width into every integer column in the exact-if-accepted group; transports varied per case. Rows may mix write_col and write_row; an eighth of the cases run over a TLS upgrade.",
    "C09": " Every case starts with a random legal handshake response (4.1 or 3.20 layout, capability class). Short writes 1..65536, read schedules and entry point varied per case. An eighth of the cases run over a TLS upgrade.",
    "C11": " A shim with only the required methods (trait defaults in force) and TLS upgrades with varied SSLRequests (capabilities, max-packet, charset, reserved bytes) are judged by the same clauses. One transient transport error per connection with the handshake response in pieces: user name exact or no call, never acknowledged without it.",
    "C12": " Commands of 16 MiB and more (QUERY, LONG_DATA+EXECUTE) in lock-step under four read patterns. Nothing may be unflushed at any read of any conversation, also those that end early.",
    "C15": " Sessions of 2-6 integer resultsets of different widths on one connection, every cell a must-accept pair, decoded with the received definitions. Transports varied per case.",
    "C18": " SSLRequest and in-TLS response vary (capabilities, max-packet, charset, reserved bytes); the client may put every command into a TLS record of its own. An issued client certificate (root, intermediate, leaf): the whole presented chain is compared. One transient error on one server write with QUIT pipelined: if run_on returns Ok the decrypted bytes equal the plaintext run's.",
    "C19": " TLS connections whose stream ends inside the SSLRequest, inside a TLS-handshake record, or inside the record of the handshake response or of a command: an error is demanded, and no callback for anything the cut record carried. finish_error with a pending complete row in the enumeration corpus. The shim's own error returned in the middle of a response; WouldBlock/TimedOut among the injected kinds; a 1100-row conversation.",
    "C13": " Zero-column finish_error sites; the ERR must be the statement's reply (exactly the parts the program denotes).",
    "C14": " Transports are varied per case (short writes 1..65536, handshake layout, read schedule, entry point).",
    "C16": " Transports are varied per case (handshake layout, read schedule, entry point). Executions whose callback drops the parser unused, only counts or takes one item; edge statement ids.",
    "C17": " Transports are varied per case (handshake layout, read schedule, entry point). Edge statement ids in random preparation order.",
    "C08": " Transports are varied per case (handshake layout, read schedule, entry point).",
    "C10": " 50-600 statements open at once with ids across the 32-bit range, closed, re-prepared and executed in random order.",
    "C20": " Length-encoded EXECUTE parameters whose multi-byte length prefix is cut short, for every length-encoded type code. Well-formed requests of 2^24-1 + tail bytes for tails 0..70000 (thorough: up to 2^24+6) under five read patterns must be served. Replies of 252..260 and 508..516 packets in lock-step: a reply or an error return, never silence.",
}

# added after rounds 9-14 of seeded changes (DESIGN.md 11.1, "As built"): one more sentence per check
EXTRA2 = {
    "C01": " SQL-shaped texts, texts whose tail is not UTF-8 (refused exactly), and a large single-packet command read together with the tail of a split predecessor.",
    "C02": " Edge statement ids; the texts the library answers itself for COM_QUERY are also sent as PREPARE texts (they must reach on_prepare verbatim).",
    "C03": " Programs whose writers are dropped, left implicit or abandoned mid-row; the recover programs (the backend goes on after a writer returned Err: the reply must still be one conformant unit).",
    "C04": " Client-side reassembly of replies, typed cells and NULLs behind a blob that already filled a packet, and the recover programs' reply shapes.",
    "C05": " A 70 000-packet reply; the recover programs' ids on plaintext connections.",
    "C06": " Resultsets behind a long reply; the recover programs: every cell whose call returned Ok arrives with its value, refused cells leave nothing behind.",
    "C07": " Integers of the may-group band; the recover programs in binary mode: a refused value leaves no byte in the row (this found the defect repaired by 5d049c8).",
    "C08": " Edge statement ids, another statement prepared in between, 65535 parameters, MYSQL_TYPE_NULL as a bound type.",
    "C09": " Chains of resultsets and PREPARE replies on one connection, statement hoarders, texts containing '?', 65535 parameters/columns.",
    "C10": " PREPARE texts that look like the built-in queries.",
    "C11": " TLS connections that meet an interrupted write during the login exchange; structured handshake tails (auth data, database, plugin, connection attributes).",
    "C12": " Commands pipelined behind commands that have no reply, on connections whose buffer has grown.",
    "C13": " The same error reported repeatedly through a reused buffer; the recover programs' error fields.",
    "C14": " Four ways to end a zero-column set, and long chains.",
    "C15": " Column flags beyond UNSIGNED, definitions announced in another order than started, the recover programs in binary mode.",
    "C16": " Statements executed with a type block they never bound.",
    "C17": " Long-lived statements and high parameter indexes.",
    "C18": " The same conversations over a loopback TCP socket (run_on_tcp), a transport that buffers writes until flush, an in-TLS response with or without the SSL bit, an anonymous user.",
    "C19": " Conversations of 251/252 rows in the enumeration corpus.",
    "C20": " Execute histories, no-reply commands, the built-in replies in lock-step under varied request ids, login replies over TLS under any pair of ids, out-of-order fragment ids (this found the defect repaired by aab5bb0).",
}

# added after rounds 14-16 of seeded changes (DESIGN.md 11.1): one more sentence per check
EXTRA3 = {
    "C04": " One transient error in mid-packet under short writes (if run_on returns Ok the stream equals the undisturbed twin's); a backend that gives up in mid-row (finished rows byte for byte, the unfinished row's cells in no message).",
    "C05": " A TLS request to a server that offers none, packets that are not commands (zero-length, unknown command bytes) and a reply the backend abandons in mid-way, each under chosen request ids: whatever is sent continues the ids of the packet it answers.",
    "C06": " A third of the resultsets leave their last row to finish() or to a dropped writer; in a handful of cases the backend really pauses (650 ms quick, 1.6 s thorough) between two cells of a row.",
    "C07": " A third of the columns carry flags that do not concern the encoding (ZEROFILL without UNSIGNED, key and default flags); last rows left to the destructor.",
    "C08": " The backend's parameter declarations (type, UNSIGNED, ZEROFILL, NOT NULL, BINARY) vary and must not matter.",
    "C10": " Commands the library does not know (COM_STMT_RESET, FETCH, RESET_CONNECTION, SET_OPTION, CHANGE_USER) in the middle of a history: no EXECUTE for an id that is dead by the PREPARE/CLOSE history reaches the shim.",
    "C11": " A peer that hangs up as soon as it has the verdict (every transport operation behind the delivering flush fails), through run_on and run_on_stream: a rejected login still ends with the shim's error.",
    "C12": " A TLS request to a server that offers none, text that is not UTF-8 and zero-length packets, each in lock-step: nothing written is unflushed when the server reads again.",
    "C13": " An error reported before the backend gives up on the connection (plaintext and TLS), and an error followed by COM_QUIT without waiting (the ERR is among the flushed bytes when run_on returns Ok).",
    "C14": " A fifth of the completion cases over a transport that takes 1..7 bytes at a time and once says WouldBlock/TimedOut/Interrupted.",
    "C16": " Parameters read through nth/skip/step_by/last; 'types follow' said with any non-zero byte; a COM_STMT_RESET between bind and reuse.",
    "C17": " A quarter of the executions read their parameters through iterator adaptors (nth, skip, step_by, last).",
    "C18": " The refusal of a TLS request with scripted bytes (also decided on the build without the tls feature); a client that sends close_notify right behind its last command and ignores what follows the server's.",
    "C19": " For every conversation of the corpus and both entry points: a transport that dies right behind the flush that delivered the last byte (or behind the last operation) changes nothing.",
    "C20": " The ids of every reply, also to the raw (malformed) part of an input; conversations ended by COM_QUIT from a client that then waits: no read after the QUIT.",
}

# added after round 17 (DESIGN.md 11.1 and 2.8)
EXTRA4 = {
    "C03": " Nine spellings of USE (blanks, newlines, semicolons behind the name).",
    "C04": " In the ordinary conversations every reassembled message must decode as a message of the protocol (two messages under one header still 'frame').",
    "C05": " Real pauses of the backend between rows.",
    "C08": " One FLOAT/DOUBLE parameter in eight is an infinity or a quiet NaN.",
    "C10": " A sixth of the executions of live statements are answered with an error, among them the errors about prepared statements; the id stays usable.",
    "C12": " C02's near-miss text pool (comments terminated and not, disguised built-ins) in lock-step.",
    "C13": " Errors behind replies of exactly 253..259 and 509..514 packets.",
    "C15": " Rows [NULL, v] with columns of different width and opposite signedness: the cell behind the NULL is accepted and exact.",
    "C18": " The plaintext twin logs in with the handshake response the TLS client sent; half of the varied responses name a default schema.",
    "C20": " C02's near-miss text pool as QUERY / PREPARE / INIT_DB; 'never loops forever' is decided as bounded progress: a case without any transport operation or callback for 90 s is run again alone with a 240 s limit, and stuck again is a violation.",
}

ALL = ["C%02d" % i for i in range(1, 21)]


def main():
    checks = []
    for pid in ALL:
        if pid not in CHECKS:
            continue
        sec, tech, text, note = CHECKS[pid]
        if pid in MEGA:
            text += " In addition the shared mega workload (props/mega.rs: long model-driven histories mixing every command kind, re-prepares, rebind/reuse/long-data executions, chained responses, repeated headers, replies around 256 packets, megabyte commands, dead-id operations) is run under this property's own monitor" + (" over TLS against its plaintext twin." if pid == "C18" else ".")
            tech += "; shared mega-history workload under the same oracle"
        text += EXTRA.get(pid, "")
        text += EXTRA2.get(pid, "")
        text += EXTRA3.get(pid, "")
        text += EXTRA4.get(pid, "")
        text += " Before a sixth of the cases one to three predecessor connections run on the same thread and end badly (write error inside a reply, backend error inside a row, abandoned long data, ...): what they leave behind must not matter (one varied case in 120 runs behind the heavy one: a 16 MiB text row cut by a write error); during a sixth of the cases another connection is served on a second thread at a chosen read of the monitored one. The check runs the workload three times on three builds at three seeds: overflow/debug-assertion checked, release, and the library built without its tls cargo feature" + (" (that build decides one clause of this property only: a TLS request is refused before after_authentication)." if pid == "C18" else ".")
        checks.append({
            "property_id": pid,
            "quick_cmd": "./check %s quick" % pid,
            "thorough_cmd": "./check %s thorough" % pid,
            "evidence_file": "/verif/evidence/%s.json" % pid,
            "replay_cmd_template": "./check --replay {path}",
            "engine": "vmon",
            "level_claimed": {"category": "fault_enumeration" if pid == "C19" else "exploration", "text": text, "design_ref": "DESIGN.md section " + sec},
            "level_note": note,
            "technique": tech,
        })
    na = []
    for pid in ALL:
        if pid not in CHECKS:
            na.append({"property_id": pid, "reason": PENDING.get(pid, "monitor designed (DESIGN.md section 4) but not yet implemented in the harness; no claim is made until the check exists and is calibrated")})
    m = {
        "version": 1,
        "setup_cmd": "./setup.sh",
        "hooks": {
            "guard": "msql_srv_verif",
            "enable": "none needed: every property is observed at the public boundary (transport + MysqlShim); no hook commits exist, so checks build /repo unmodified",
            "baseline_off_cmd": "cd /repo && cargo nextest run --workspace --no-fail-fast --offline --test-threads 8",
            "source_commits": [],
            "add_only": True,
        },
        "engines": [{
            "name": "vmon",
            "path": "/verif/harness",
            "serves_properties": sorted(CHECKS.keys()),
            "kind_free_text": "Rust harness linking the real msql-srv from /repo (path dependency, rebuilt on every check in three flavours: overflow/debug-assertion checked, release, and without the library's `tls` cargo feature); in-memory fault-injecting transport, scripted recording shim, independent wire codec as oracle, sequential reference model; thorough tier adds AddressSanitizer, valgrind memcheck and Miri passes over the same workloads",
        }],
        "checks": checks,
        "not_applicable": na,
        "notes": "Runtime monitoring only. ./check <id> <tier> exits 0 (held on everything observed), 1 (VIOLATION lines) or 2 (inconclusive: build failure / harness self-check / missing observations). Known findings: /verif/known_findings.json. Seeded-change results: DESIGN.md section 11.",
    }
    json.dump(m, open(os.path.join(VERIF, "MANIFEST.json"), "w"), indent=1)
    print("MANIFEST.json: %d checks, %d not_applicable" % (len(checks), len(na)))


if __name__ == "__main__":
    main()
