#!/usr/bin/env python3
"""Regenerates MANIFEST.json from the table below (single source of truth for the registered checks)."""
import json
import os

VERIF = os.path.dirname(os.path.abspath(__file__))

# id -> (design section, technique, level text, level note)
CHECKS = {
    "C01": ("4/C01", "history monitor with unique payloads over a controlled in-memory transport (all read chunkings); ASan + Miri passes",
            "Thousands of real run_on executions per run: command sequences with position-dependent unique payloads (1 B .. 2*(2^24-1)+5000 B) under adversarial read schedules (1-byte reads, reads ending after 1/2/3 header bytes, on packet boundaries, spanning several commands); the ordered callback list must equal the framed command list byte for byte. Exploration, not proof: the quantifier over chunkings is sampled by class.",
            "wire.rs framing is the reference; >=16 MiB payloads use coarse reads away from fragment boundaries"),
}

PENDING = {
}

ALL = ["C%02d" % i for i in range(1, 21)]


def main():
    checks = []
    for pid in ALL:
        if pid not in CHECKS:
            continue
        sec, tech, text, note = CHECKS[pid]
        checks.append({
            "property_id": pid,
            "quick_cmd": "./check %s quick" % pid,
            "thorough_cmd": "./check %s thorough" % pid,
            "evidence_file": "/verif/evidence/%s.json" % pid,
            "replay_cmd_template": "./check --replay {path}",
            "engine": "vmon",
            "level_claimed": {"category": "fault_enumeration" if pid == "C19" else "exploration", "text": text, "design_ref": "DESIGN.md section " + sec},
            "level_note": note,
            "technique": tech,
        })
    na = []
    for pid in ALL:
        if pid not in CHECKS:
            na.append({"property_id": pid, "reason": PENDING.get(pid, "monitor designed (DESIGN.md section 4) but not yet implemented in the harness; no claim is made until the check exists and is calibrated")})
    m = {
        "version": 1,
        "setup_cmd": "./setup.sh",
        "hooks": {
            "guard": "msql_srv_verif",
            "enable": "none needed: every property is observed at the public boundary (transport + MysqlShim); no hook commits exist, so checks build /repo unmodified",
            "baseline_off_cmd": "cd /repo && cargo nextest run --workspace --no-fail-fast --offline --test-threads 8",
            "source_commits": [],
            "add_only": True,
        },
        "engines": [{
            "name": "vmon",
            "path": "/verif/harness",
            "serves_properties": sorted(CHECKS.keys()),
            "kind_free_text": "Rust harness linking the real msql-srv from /repo (path dependency, rebuilt on every check in two profiles: overflow/debug-assertion checked and release); in-memory fault-injecting transport, scripted recording shim, independent wire codec as oracle, sequential reference model; thorough tier adds AddressSanitizer, valgrind memcheck and Miri passes over the same workloads",
        }],
        "checks": checks,
        "not_applicable": na,
        "notes": "Runtime monitoring only. ./check <id> <tier> exits 0 (held on everything observed), 1 (VIOLATION lines) or 2 (inconclusive: build failure / harness self-check / missing observations). Known findings: /verif/known_findings.json. Seeded-change results: DESIGN.md section 11.",
    }
    json.dump(m, open(os.path.join(VERIF, "MANIFEST.json"), "w"), indent=1)
    print("MANIFEST.json: %d checks, %d not_applicable" % (len(checks), len(na)))


if __name__ == "__main__":
    main()
