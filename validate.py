#!/usr/bin/env python3
"""Validate MANIFEST.json and evidence/*.json against the schemas (uses the tooling venv's jsonschema)."""
import json, sys, glob
import jsonschema
ok = True
m = json.load(open('/verif/MANIFEST.json'))
try:
    jsonschema.validate(m, json.load(open('/root/.vp/MANIFEST.schema.json')))
    print("MANIFEST ok:", len(m['checks']), "checks")
except Exception as e:
    ok = False; print("MANIFEST INVALID", e)
es = json.load(open('/root/.vp/EVIDENCE.schema.json'))
for f in sorted(glob.glob('/verif/evidence/*.json')):
    try:
        e = json.load(open(f)); jsonschema.validate(e, es)
        print(f.split('/')[-1], "ok", e['tier'], e['coverage'].get('evaluations'), e['coverage'].get('distinct_nontrivial'), "viol", e.get('violations'))
    except Exception as ex:
        ok = False; print(f, "INVALID", str(ex)[:300])
sys.exit(0 if ok else 1)
