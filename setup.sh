#!/bin/sh
# MANIFEST.setup_cmd: build the harness (both native profiles) offline from files on disk.
set -e
cd "$(dirname "$0")/harness"
export CARGO_NET_OFFLINE=true
export CARGO_TARGET_DIR="$(cd .. && pwd)/.target"
[ -f Cargo.lock ] || cp /repo/Cargo.lock Cargo.lock
cargo build --offline --profile chk
cargo build --offline --release
CARGO_TARGET_DIR="$(cd .. && pwd)/.target-notls" cargo build --offline --profile chk --no-default-features
"$CARGO_TARGET_DIR/chk/vmon" selfcheck
