#!/usr/bin/env python3
"""Evaluate one seeded change (written by an independent sub-agent in a scratch worktree).

  seedtest.py <name> <worktree> <property> [--all] [--tier quick|thorough]

1. confirms the author's claims in the scratch worktree: existing suite passes with the change, the
   demonstration fails with it and passes without it;
2. runs ./check <property> (and with --all every registered check) against the changed tree
   (VMON_REPO override: /repo itself is not touched);
3. files patch.diff, the demonstration and meta.json under /verif/seeded/<name>/.
"""
import json
import os
import shutil
import subprocess
import sys
import time

VERIF = os.path.dirname(os.path.abspath(__file__))


def sh(cmd, cwd=None, env=None, timeout=3600):
    p = subprocess.run(cmd, shell=True, cwd=cwd, env=env, stdout=subprocess.PIPE, stderr=subprocess.STDOUT, text=True, timeout=timeout)
    return p.returncode, p.stdout


def main():
    name, wt, prop = sys.argv[1], sys.argv[2], sys.argv[3]
    run_all = "--all" in sys.argv
    # --recheck: the change is already filed under seeded/<name>/ (claims verified then); only run the
    # checks again in their present state and update "checks"/"caught_by" in its meta.json
    recheck = "--recheck" in sys.argv
    # --claims: the change is filed; run only its demonstration again (with the change: must fail; without:
    # must pass) and record the two results under "verified"; no check is run
    claims_only = "--claims" in sys.argv
    tier = sys.argv[sys.argv.index("--tier") + 1] if "--tier" in sys.argv else "quick"
    out = os.path.join(wt, "out")
    dest = os.path.join("/verif", "seeded", name)  # results always land in the live /verif, also when run from a vp snapshot
    os.makedirs(dest, exist_ok=True)
    meta = {}
    if os.path.exists(os.path.join(out, "meta.json")):
        try:
            meta = json.load(open(os.path.join(out, "meta.json")))
        except Exception as e:
            meta = {"author_meta_unreadable": str(e)}
    res = {"property": prop, "author": meta, "verified": {}, "checks": {}}
    if recheck or claims_only:
        out = dest
        res = json.load(open(os.path.join(dest, "meta.json")))
        # results of checks that are not re-run now are kept (they date from the last full run)
        old_checks = res.get("checks", {})
        res["checks"] = {}
        meta = res.get("author", {})
    env = dict(os.environ, CARGO_NET_OFFLINE="true", CARGO_TARGET_DIR=os.environ.get("SEED_SUITE_TARGET", "/tmp/seedchk/suite-target"))
    # --- 0. a private scratch worktree: pinned tree + the author's patch (+ the demonstration)
    # (git stash is shared between worktrees of one repository, so it is never used here)
    src_wt = wt
    wt = os.path.join("/tmp/seedchk", name)
    os.makedirs("/tmp/seedchk", exist_ok=True)
    sh("git -C /repo worktree remove --force %s" % wt)
    rc, o = sh("git -C /repo worktree add -q --detach %s HEAD" % wt)
    if rc != 0:
        print(o)
        sys.exit(2)
    patch = os.path.join(out, "patch.diff")
    rc, o = sh("git apply --index %s" % patch, cwd=wt)
    if rc != 0:
        print("patch does not apply: " + o)
        sys.exit(2)
    demo = os.path.join(out, "seeded_demo.rs")
    if os.path.exists(demo):
        shutil.copy(demo, os.path.join(wt, "tests", "seeded_demo.rs"))
    # --- 1. claims
    if claims_only:
      dc = str((res.get("author") or {}).get("demo_cmd", "")).split("#")[0].split(";")[0]
      flags = "".join(f for f in (" --no-default-features", " --release") if f.strip() in dc)
      rc1, o1 = sh("cargo test --offline%s --test seeded_demo 2>&1 | tail -15" % flags, cwd=wt, env=env)
      demo_fails = "test result: FAILED" in o1 or "error: test failed" in o1 or ("test result: ok" not in o1 and ("panicked" in o1 or "error" in o1))
      sh("git apply -R --index %s" % patch, cwd=wt)
      rc2, o2 = sh("cargo test --offline%s --test seeded_demo 2>&1 | tail -5" % flags, cwd=wt, env=env)
      demo_passes = "test result: ok" in o2 and "FAILED" not in o2
      res["verified"].update({"demo_flags": flags.strip(), "demo_fails_with_change": demo_fails, "demo_passes_without_change": demo_passes, "demo_output_with_change": o1[-800:], "claims_rechecked_as_of": time.strftime("%Y-%m-%d %H:%M UTC", time.gmtime())})
      res["checks"] = old_checks
      json.dump(res, open(os.path.join(dest, "meta.json"), "w"), indent=1)
      print("[seedtest] %s: demo_fails=%s demo_passes_without=%s" % (name, demo_fails, demo_passes), flush=True)
      sh("git -C /repo worktree remove --force %s" % wt)
      return
    if not recheck:
      rc, o = sh("git diff --cached --stat -- src | tail -1", cwd=wt)
      res["verified"]["diffstat"] = o.strip()
      rc, o = sh("cargo nextest run --workspace --no-fail-fast --offline --test-threads 8 -E 'not binary(seeded_demo)' 2>&1 | tail -3", cwd=wt, env=env)
      res["verified"]["suite_with_change"] = o.strip().splitlines()[-1] if o.strip() else ""
      suite_ok = "164 passed" in o and "failed" not in o.split("Summary")[-1]
      # build flavour the author names for the demonstration (round 14: some changes live in one flavour only)
      dc = str((res.get("author") or {}).get("demo_cmd", "")).split("#")[0].split(";")[0]
      flags = "".join(f for f in (" --no-default-features", " --release") if f.strip() in dc)
      res["verified"]["demo_flags"] = flags.strip()
      rc1, o1 = sh("cargo test --offline%s --test seeded_demo 2>&1 | tail -15" % flags, cwd=wt, env=env)
      # ("0 failed" is part of a passing summary line: look for the failing forms only)
      demo_fails = "test result: FAILED" in o1 or "error: test failed" in o1 or ("test result: ok" not in o1 and ("panicked" in o1 or "error" in o1))
      sh("git apply -R --index %s" % patch, cwd=wt)
      try:
          rc2, o2 = sh("cargo test --offline%s --test seeded_demo 2>&1 | tail -5" % flags, cwd=wt, env=env)
      finally:
          sh("git apply --index %s" % patch, cwd=wt)
      demo_passes = "test result: ok" in o2 and "FAILED" not in o2
      res["verified"].update({"suite_passes_with_change": suite_ok, "demo_fails_with_change": demo_fails, "demo_passes_without_change": demo_passes, "demo_output_with_change": o1[-800:]})
      print("[seedtest] %s: suite_ok=%s demo_fails=%s demo_passes_without=%s" % (name, suite_ok, demo_fails, demo_passes), flush=True)
    # --- 2. checks
    props = [prop]
    if run_all:
        m = json.load(open(os.path.join(VERIF, "MANIFEST.json")))
        props = [prop] + [c["property_id"] for c in m["checks"] if c["property_id"] != prop]
    cenv = dict(os.environ, VMON_REPO=wt, VMON_NO_SANITIZERS="1")
    cenv.setdefault("VERIF_SEED", "0")
    for p in props:
        t0 = time.time()
        rc, o = sh("./check %s %s 2>/dev/null" % (p, tier), cwd=VERIF, env=cenv, timeout=7200)
        lines = [l for l in o.splitlines() if l.startswith("VIOLATION") or l.startswith("KNOWN-FINDING") or l.startswith("INCONCLUSIVE")]
        sigs = []
        for l in lines:
            if l.startswith("VIOLATION"):
                rp = l.split("replay=")[-1].strip()
                try:
                    r = json.load(open(rp))
                    sigs.append(r["signature"] + " :: " + r["what"][:200])
                except Exception:
                    pass
        res["checks"][p] = {"exit": rc, "violations": sigs[:6], "wall_s": round(time.time() - t0, 1)}
        print("[seedtest] %s vs check %s (%s): exit %s %s" % (name, p, tier, rc, ("| " + sigs[0][:160]) if sigs else ""), flush=True)
    if recheck:
        merged = dict(old_checks)
        merged.update(res["checks"])
        res["checks"] = merged
    res["caught_by_own_check"] = res["checks"][prop]["exit"] == 1
    res["caught_by"] = [p for p, v in res["checks"].items() if v["exit"] == 1]
    # --- 3. file it
    if not recheck:
        for f in ("patch.diff", "seeded_demo.rs"):
            if os.path.exists(os.path.join(out, f)):
                shutil.copy(os.path.join(out, f), os.path.join(dest, f))
        shutil.copy(patch, os.path.join(dest, "patch.diff"))
    res["what_was_run"] = [
        "cargo nextest run --workspace --no-fail-fast --offline --test-threads 8 -E 'not binary(seeded_demo)'  (in a fresh scratch worktree of /repo's HEAD with patch.diff applied)",
        "cargo test --offline --test seeded_demo  (with the change: must fail; with the patch reversed (git apply -R): must pass)",
        "VMON_REPO=<worktree> ./check <property> %s  (harness rebuilt against the changed tree)" % tier,
    ]
    res["needs"] = res.get("needs") or meta.get("needs")
    res["summary"] = res.get("summary") or meta.get("summary")
    if recheck:
        res["rechecked_with_checks_as_of"] = time.strftime("%Y-%m-%d %H:%M UTC", time.gmtime())
    json.dump(res, open(os.path.join(dest, "meta.json"), "w"), indent=1)
    print("[seedtest] %s: caught_by=%s" % (name, res["caught_by"]))
    # remove the scratch worktree with its build output
    sh("git -C /repo worktree remove --force %s" % wt)


if __name__ == "__main__":
    main()
