#!/usr/bin/env python3
"""Prints the markdown tables of DESIGN.md section 11 from seeded/*/meta.json and mutants/RESULTS.json."""
import glob
import json
import os

V = os.path.dirname(os.path.abspath(__file__))


def cut(s, n):
    s = " ".join((s or "").split())
    return s if len(s) <= n else s[: n - 1] + "…"


print("| Seeded change | Property | Needs | Suite passes / demo fails with / passes without | Caught by (quick checks, last run) | Rounds 3-17: caught by, as the checks stood when the change arrived | First witness of the property's own check |")
print("|---|---|---|---|---|---|---|")
for d in sorted(glob.glob(os.path.join(V, "seeded", "*"))):
    mp = os.path.join(d, "meta.json")
    if not os.path.exists(mp):
        continue
    m = json.load(open(mp))
    v = m.get("verified", {})
    own = m["checks"].get(m["property"], {})
    wit = own.get("violations", [""])
    asis = ""
    ap = os.path.join(d, "meta.asis.json")
    if os.path.exists(ap) and os.path.basename(d)[3:4] in "cdefghijklmnopq":
        a = json.load(open(ap))
        asis = ", ".join(a.get("caught_by", [])) or "**none**"
    print("| `%s` | %s | %s | %s / %s / %s | %s | %s | %s |" % (
        os.path.basename(d), m["property"], cut(m.get("needs"), 150),
        "yes" if v.get("suite_passes_with_change") else "NO", "yes" if v.get("demo_fails_with_change") else "NO", "yes" if v.get("demo_passes_without_change") else "NO",
        ", ".join(m.get("caught_by", [])) or "**none**", asis, cut((wit[0] if wit else "").split(" :: ")[0], 90)))

rp = os.path.join(V, "mutants", "RESULTS.json")
if os.path.exists(rp):
    r = json.load(open(rp))
    print()
    print("| Hand-written change | Property | Needs | /repo's own suite | Quick check | Signature |")
    print("|---|---|---|---|---|---|")
    for k, v in r.get("mutants", {}).items():
        print("| `%s` | %s | %s | %s | %s | %s |" % (k, v.get("prop"), cut(v.get("needs"), 110), cut(v.get("baseline_suite", "-"), 60), "caught" if v.get("check_exit") == 1 else "**MISSED** (exit %s)" % v.get("check_exit"), cut(v.get("signature"), 80)))
    print()
    print("| Benign variant | Checks that raised an alarm |")
    print("|---|---|")
    for k, v in r.get("benign", {}).items():
        print("| `%s` | %s |" % (k, ", ".join(v.get("alarms", {}).keys()) or "none (all 20 silent)"))
