#!/usr/bin/env python3
"""Replace the three generated tables of DESIGN.md section 11 (seeded changes; hand-written changes;
benign variants) by the current output of mk_tables.py. usage: notes/splice_tables.py"""
import subprocess, re
out = subprocess.run(["python3", "/verif/mk_tables.py"], stdout=subprocess.PIPE, text=True).stdout
blocks = [b.strip("\n") for b in out.split("\n\n") if b.strip()]
assert len(blocks) == 3, len(blocks)
lines = open("/verif/DESIGN.md").read().split("\n")
heads = ["| Seeded change |", "| Hand-written change |", "| Benign variant |"]
res = []; i = 0
while i < len(lines):
    l = lines[i]
    k = next((k for k, h in enumerate(heads) if l.startswith(h)), None)
    if k is None:
        res.append(l); i += 1; continue
    j = i
    while j < len(lines) and lines[j].startswith("|"):
        j += 1
    res.extend(blocks[k].split("\n")); i = j
open("/verif/DESIGN.md", "w").write("\n".join(res))
print("spliced", [len(b.split("\n")) for b in blocks])
