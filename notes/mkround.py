#!/usr/bin/env python3
"""Prepare one round of independent seeded changes: one scratch worktree of /repo per property under
/tmp/seed<round>/<Cxx> with out/PROPERTY.txt, and one prompt file per property under
/tmp/seed<round>/prompts/<Cxx>.txt (template + what was already submitted for that property + the
round's theme).  usage: mkround.py <round> <theme-file>"""
import json, os, subprocess, sys, glob
rnd, theme = sys.argv[1], open(sys.argv[2]).read().strip()
base = "/tmp/seed%s" % rnd
os.makedirs(base + "/prompts", exist_ok=True)
tmpl = open("/verif/notes/seed-agent-prompt.tmpl.txt").read().replace("/tmp/seed/", base + "/")
earlier = {}
for d in sorted(glob.glob("/verif/seeded/*/") + glob.glob("/verif/seeded-withdrawn/*/")):
    try:
        m = json.load(open(d + "meta.json"))
    except Exception:
        continue
    s = (m.get("summary") or m.get("author", {}).get("summary") or "")
    n = (m.get("needs") or m.get("author", {}).get("needs") or "")
    earlier.setdefault(m["property"], []).append("- %s | needs: %s" % (" ".join(str(s).split())[:260], " ".join(str(n).split())[:200]))
for l in open("/verif/properties.jsonl"):
    p = json.loads(l)
    pid = p["id"]
    wt = "%s/%s" % (base, pid)
    subprocess.run("git -C /repo worktree remove --force %s" % wt, shell=True, stdout=subprocess.DEVNULL, stderr=subprocess.DEVNULL)
    subprocess.check_call("git -C /repo worktree add -q --detach %s HEAD" % wt, shell=True)
    os.makedirs(wt + "/out", exist_ok=True)
    text = "%s: %s\n\nStatement: %s\n\nQuantified over: %s\n\nWhy the existing tests cannot settle it: %s\n\nWhere it lives: %s\n" % (
        pid, p["title"], p["statement"], p["quantifier"]["text"], p["why_tests_cant"],
        "; ".join("%s (%s)" % (m["name"], m["where"]) for m in p["anchors"]["mechanism"]))
    open(wt + "/out/PROPERTY.txt", "w").write(text)
    pr = tmpl.replace("@ID@", pid).replace("@PROP@", text)
    pr += "\n\nADDITIONAL GUIDANCE FOR THIS ROUND\n" + theme + "\n"
    if earlier.get(pid):
        pr += "\nOther people have ALREADY submitted the following changes for this property; yours must use a DIFFERENT code site AND a different trigger condition (do not re-submit a variation of any of these):\n" + "\n".join(earlier[pid]) + "\n"
    open("%s/prompts/%s.txt" % (base, pid), "w").write(pr)
print("prepared", base)
