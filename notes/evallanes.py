#!/usr/bin/env python3
"""Evaluate a list of seeded changes in N parallel lanes, each lane with its own build directories
(two evaluations must never share one: a check could run a binary built for the other tree).
usage: evallanes.py <lanes> <listfile> [extra seedtest args]   listfile lines: <name> <worktree> <property>"""
import os, subprocess, sys, threading, shutil, queue
lanes = int(sys.argv[1]); items = [l.split() for l in open(sys.argv[2]) if l.strip()]
extra = sys.argv[3:]
q = queue.Queue()
for it in items: q.put(it)
def lane(k):
    vt = "/tmp/evl/vt%d" % k; st = "/tmp/evl/st%d" % k
    os.makedirs("/tmp/evl", exist_ok=True)
    if not os.path.exists(vt) and os.path.exists("/tmp/vmon-scratch-target"):
        subprocess.run(["cp", "-r", "/tmp/vmon-scratch-target", vt])
    if not os.path.exists(st) and os.path.exists("/tmp/seedchk/suite-target"):
        subprocess.run(["cp", "-r", "/tmp/seedchk/suite-target", st])
    while True:
        try: name, wt, prop = q.get_nowait()
        except queue.Empty: return
        env = dict(os.environ, VMON_TARGET=vt, SEED_SUITE_TARGET=st)
        with open("/tmp/evl/%s.log" % name, "w") as f:
            subprocess.run(["python3", os.environ.get("SEEDTEST", "/verif/seedtest.py"), name, wt, prop] + extra, env=env, stdout=f, stderr=subprocess.STDOUT)
        print("done", name, flush=True)
base = int(os.environ.get("LANE_BASE", "0"))
ts = [threading.Thread(target=lane, args=(base + k,)) for k in range(lanes)]
[t.start() for t in ts]; [t.join() for t in ts]
