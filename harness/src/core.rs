//! Cases, the executor (real `MysqlIntermediary::run_on` under catch_unwind) and observations.
use crate::shim::{DefaultInitShim, MinimalShim, Script, ScriptShim, ShimErr, ShimLog};
use crate::transport::{Clock, Fault, Gate, MemTransport, Sched, World};
use crate::util::*;
use crate::wire::{self, Kind};
use msql_srv::MysqlIntermediary;
use std::cell::RefCell;
use std::io;
use std::panic::{catch_unwind, AssertUnwindSafe};
use std::rc::Rc;
use std::sync::Arc;

thread_local! {
    static LAST_PANIC: RefCell<Option<(String, u32, String)>> = RefCell::new(None);
    /// (property, group, index) of the case this worker is executing (for abort diagnostics)
    pub static CURRENT_CASE: RefCell<(String, u64)> = RefCell::new((String::new(), 0));
}

pub fn install_panic_hook() {
    std::panic::set_hook(Box::new(|info| {
        let msg = info
            .payload()
            .downcast_ref::<String>()
            .cloned()
            .or_else(|| info.payload().downcast_ref::<&str>().map(|s| s.to_string()))
            .unwrap_or_else(|| "?".into());
        let (f, l) = info.location().map(|l| (l.file().to_string(), l.line())).unwrap_or(("?".into(), 0));
        LAST_PANIC.with(|p| {
            let mut p = p.borrow_mut();
            // keep the FIRST panic of a run; a second one while unwinding aborts the process, so
            // leave a trace on stderr for the runner (the abort cannot be caught in-process)
            if let Some((f0, l0, m0)) = p.as_ref() {
                if std::thread::panicking() {
                    let case = CURRENT_CASE.with(|c| c.borrow().clone());
                    eprintln!("VMON-NESTED-PANIC\tcase={}:{}\tfirst={}:{}\tfirst_msg={}\tsecond={}:{}\tsecond_msg={}", case.0, case.1, f0, l0, trunc(&m0.replace(['\n', '\t'], " "), 150), f, l, trunc(&msg.replace(['\n', '\t'], " "), 150));
                }
            } else {
                *p = Some((f, l, msg));
            }
        });
    }));
}
pub fn take_panic() -> Option<(String, u32, String)> {
    LAST_PANIC.with(|p| p.borrow_mut().take())
}

#[derive(Clone, Debug, PartialEq)]
pub enum Outcome {
    Ok,
    Io { kind: io::ErrorKind, msg: String },
    Token(u64),
    Panic { file: String, line: u32, msg: String },
}
impl Outcome {
    pub fn class(&self) -> &'static str {
        match self {
            Outcome::Ok => "Ok",
            Outcome::Io { .. } => "Err",
            Outcome::Token(_) => "ErrToken",
            Outcome::Panic { .. } => "Panic",
        }
    }
    pub fn is_err(&self) -> bool {
        matches!(self, Outcome::Io { .. } | Outcome::Token(_))
    }
    pub fn describe(&self) -> String {
        match self {
            Outcome::Ok => "Ok(())".into(),
            Outcome::Io { kind, msg } => format!("Err({:?}: {})", kind, trunc(msg, 160)),
            Outcome::Token(t) => format!("Err(shim token {})", t),
            Outcome::Panic { file, line, msg } => format!("PANIC at {}:{}: {}", file, line, trunc(msg, 160)),
        }
    }
}
pub fn trunc(s: &str, n: usize) -> String {
    if s.len() <= n {
        s.to_string()
    } else {
        let mut e = n;
        while !s.is_char_boundary(e) {
            e -= 1;
        }
        format!("{}…", &s[..e])
    }
}

/// Where a panic happened, relative to the tree under test ("src/params.rs"), or None if it is not
/// in msql-srv (then it is in a dependency or in the harness).
pub fn repo_rel(file: &str) -> Option<String> {
    // the harness's own files are relative ("src/…"); /repo's are absolute
    if !file.starts_with('/') {
        return None;
    }
    if file.contains("/.cargo/registry/") || file.contains("/rustc/") || file.contains("/rustlib/") {
        return None;
    }
    file.find("/src/").map(|i| file[i + 1..].to_string())
}
pub fn is_harness_file(file: &str) -> bool {
    !file.starts_with('/')
}

/// One command of a conversation, as the client frames it.
#[derive(Clone, Debug)]
pub struct Cmd {
    pub kind: Kind,
    pub payload: Vec<u8>,
    /// sequence id of the first packet
    pub seq: u8,
}
impl Cmd {
    pub fn new(kind: Kind, payload: Vec<u8>) -> Cmd {
        Cmd { kind, payload, seq: 0 }
    }
    pub fn query(text: &[u8]) -> Cmd {
        Cmd::new(Kind::Query, wire::com_text(wire::COM_QUERY, text))
    }
    pub fn prepare(text: &[u8]) -> Cmd {
        Cmd::new(Kind::Prepare, wire::com_text(wire::COM_STMT_PREPARE, text))
    }
    pub fn init_db(name: &[u8]) -> Cmd {
        Cmd::new(Kind::InitDb, wire::com_text(wire::COM_INIT_DB, name))
    }
    pub fn field_list(arg: &[u8]) -> Cmd {
        Cmd::new(Kind::FieldList, wire::com_text(wire::COM_FIELD_LIST, arg))
    }
    pub fn ping() -> Cmd {
        Cmd::new(Kind::Ping, vec![wire::COM_PING])
    }
    pub fn quit() -> Cmd {
        Cmd::new(Kind::Quit, vec![wire::COM_QUIT])
    }
    pub fn close(id: u32) -> Cmd {
        Cmd::new(Kind::Close, wire::com_close(id))
    }
    pub fn long_data(id: u32, param: u16, data: &[u8]) -> Cmd {
        Cmd::new(Kind::LongData, wire::com_long_data(id, param, data))
    }
    /// COM_STMT_EXECUTE. The flags byte (cursor type; servers ignore bits they do not implement,
    /// and PARAMETER_COUNT_AVAILABLE means nothing unless CLIENT_QUERY_ATTRIBUTES was negotiated,
    /// which this server never offers) and the iteration count (always 1 on the wire, never
    /// interpreted) are the client's: one execute in four carries an arbitrary flags byte, one in
    /// sixteen another iteration count - chosen by the content, so a case stays reproducible.
    pub fn execute(id: u32, params: &[wire::Param], send_types: bool) -> Cmd {
        let plain = wire::com_execute(id, 0, 1, params, send_types);
        let h = crate::util::hash128(&plain).0;
        let flags = if h % 4 == 0 { (h >> 8) as u8 } else { 0 };
        let iterations = if h % 16 == 1 { (h >> 16) as u32 } else { 1 };
        let mut payload = wire::com_execute(id, flags, iterations, params, send_types);
        // "new-params-bound" is a flag: clear or not. Clients send 1; any other non-zero byte says the
        // same (types follow), and one rebinding execute in six says it that way.
        if send_types && !params.is_empty() && (h >> 24) % 6 == 0 {
            let at = 10 + (params.len() + 7) / 8;
            payload[at] = 2 + ((h >> 32) % 254) as u8;
        }
        Cmd::new(Kind::Execute, payload)
    }
    pub fn execute_plain(id: u32, params: &[wire::Param], send_types: bool) -> Cmd {
        Cmd::new(Kind::Execute, wire::com_execute(id, 0, 1, params, send_types))
    }
    pub fn seq(mut self, s: u8) -> Cmd {
        self.seq = s;
        self
    }
}

#[derive(Clone, Debug)]
pub enum Arrival {
    /// all input available from the start (maximal pipelining)
    Scripted,
    /// client sends command i only after it has seen the replies to everything before command i-depth+1
    Pipelined(usize),
}

#[derive(Clone)]
pub struct Case {
    /// handshake response payload (framed with seq 1 unless `hs_seq` says otherwise)
    pub handshake: Vec<u8>,
    pub hs_seq: u8,
    pub cmds: Vec<Cmd>,
    /// raw bytes appended after the framed commands (malformed-input workloads)
    pub raw_tail: Vec<u8>,
    /// if set, replaces the whole framed input
    pub raw_input: Option<Vec<u8>>,
    pub sched: Sched,
    pub arrival: Arrival,
    pub write_limit: usize,
    pub fault: Fault,
    pub scripts: Vec<Script>,
    pub tls: Option<Arc<rustls::ServerConfig>>,
    pub auth_reject: Option<u64>,
    pub default_init: bool,
    /// the shim implements only the four required methods (all trait defaults in force)
    pub minimal_shim: bool,
    /// enter through `run_on_stream` (the transport is Clone) instead of `run_on`
    pub via_run_on_stream: bool,
    /// run the same commands over a TLS upgrade (real rustls client inside the transport); the
    /// observation's output is the plaintext greeting followed by what the client decrypted
    pub over_tls: bool,
    /// never accompany this case by a connection on another thread
    pub no_interloper: bool,
    /// (read index, seed): force an interloper at that read of this connection
    pub interloper_at: Option<(u64, u64)>,
    /// never run predecessor connections before this case (it is one itself)
    pub no_predecessors: bool,
    /// run the heavy predecessor (a 16 MiB text row whose numeric cells meet a write error exactly at
    /// the packet boundary) in front of this case, whatever the case's own input would have chosen
    pub heavy_predecessor: bool,
    pub conv: bool,
    pub log_reads: bool,
    /// 0 = derive from input size
    pub budget_ops: u64,
}

pub fn default_handshake() -> Vec<u8> {
    wire::handshake41(0x0000_a685 | 0x203f_0000, 1 << 24, 0x21, b"vmon", b"\0")
}

impl Case {
    pub fn new(cmds: Vec<Cmd>, scripts: Vec<Script>) -> Case {
        Case {
            handshake: default_handshake(),
            hs_seq: 1,
            cmds,
            raw_tail: vec![],
            raw_input: None,
            sched: Sched::all(),
            arrival: Arrival::Scripted,
            write_limit: usize::MAX,
            fault: Fault::default(),
            scripts,
            tls: None,
            auth_reject: None,
            default_init: false,
            minimal_shim: false,
            via_run_on_stream: false,
            over_tls: false,
            no_interloper: false,
            interloper_at: None,
            no_predecessors: false,
            heavy_predecessor: false,
            conv: false,
            log_reads: true,
            budget_ops: 0,
        }
    }
    /// kinds of all exchanges in order: Greeting, Auth, then the commands
    pub fn kinds(&self) -> Vec<Kind> {
        let mut k = vec![Kind::Greeting, Kind::Auth];
        k.extend(self.cmds.iter().map(|c| c.kind));
        k
    }
    /// Framed client byte stream plus, for every exchange (handshake = index 0, command i = index
    /// i+1), the offset one past its last byte and the id of its last packet.
    pub fn input(&self) -> (Vec<u8>, Vec<(usize, u8)>) {
        let mut ends = Vec::new();
        let (mut inp, last) = wire::frame(&self.handshake, self.hs_seq);
        ends.push((inp.len(), last));
        for c in &self.cmds {
            let (f, last) = wire::frame(&c.payload, c.seq);
            inp.extend_from_slice(&f);
            ends.push((inp.len(), last));
        }
        inp.extend_from_slice(&self.raw_tail);
        if let Some(r) = &self.raw_input {
            return (r.clone(), vec![]);
        }
        (inp, ends)
    }
}

pub struct Obs {
    pub outcome: Outcome,
    pub world: World,
    pub log: ShimLog,
    /// input offsets one past each exchange (handshake first) and last-packet ids
    pub ends: Vec<(usize, u8)>,
    pub kinds: Vec<Kind>,
    /// the handshake carried CLIENT_SSL and the shim offers TLS: output after the greeting is TLS
    pub tls_upgrade_requested: bool,
}
impl Obs {
    /// everything the server handed to the transport (flushed or not)
    pub fn output(&self) -> Vec<u8> {
        let mut v = self.world.visible.clone();
        v.extend_from_slice(&self.world.pending);
        v
    }
}

/// TLS material shared by every case that asks for `over_tls` (generated once per process).
pub static TLS_MATERIAL: std::sync::OnceLock<Option<crate::tls::TlsMaterial>> = std::sync::OnceLock::new();

/// The case's commands and scripts over a TLS upgrade. None if TLS material cannot be made or the
/// TLS harness itself fails (the caller then falls back to the plaintext transport).
fn run_case_tls(case: &Case) -> Option<Obs> {
    if case.conv || case.minimal_shim || case.default_init || case.raw_input.is_some() || !case.raw_tail.is_empty() {
        // shim options and raw inputs the TLS runner does not carry: plaintext
        return None;
    }
    let m = TLS_MATERIAL.get_or_init(|| crate::tls::TlsMaterial::generate().ok()).as_ref()?;
    let (input, ends) = case.input();
    let h = hash128(&input).0;
    let wl = case.write_limit;
    let c = crate::props::c18::TlsCase {
        tls13: h & 1 == 0,
        with_cert: h & 6 == 2,
        server_mode: if h & 6 == 2 { 4 } else { 0 },
        user: b"vmon".to_vec(),
        cmds: case.cmds.clone(),
        scripts: case.scripts.clone(),
        first_cut: if h & 8 == 0 { 0 } else { (h >> 8) as usize % 90 },
        cycle: if h & 16 == 0 { vec![] } else { vec![1 + (h >> 16) as usize % 3000] },
        write_limit: wl,
        close_notify: true,
        raw_limit: None,
        hs_variant: if h & 64 == 0 { 0 } else { h | 1 },
        app_override: None,
        seqs: (1, 2),
        auth_reject: case.auth_reject,
        record_per_command: h & 128 == 0,
        write_fault: None,
        buffer_writes: h & 256 == 0,
        eager_close: h & 1536 == 512,
    };
    let o = crate::props::c18::run_tls(m, &c).ok()?;
    if o.world.client_error.is_some() || o.world.deadlock || o.world.wedged {
        // a broken TLS layer is C18's to report; here the case is simply run in plaintext
        return None;
    }
    let mut world = World::new(vec![]);
    world.visible = o.world.greeting_raw.clone();
    world.visible.extend_from_slice(&o.world.app_in);
    world.nops = o.world.nops;
    Some(Obs { outcome: o.outcome, world, log: o.log, ends, kinds: case.kinds(), tls_upgrade_requested: false })
}

thread_local! {
    /// set while a predecessor connection runs (no predecessors for predecessors)
    static IN_PRELUDE: std::cell::Cell<bool> = const { std::cell::Cell::new(false) };
    pub static PRELUDES_RUN: std::cell::Cell<u64> = const { std::cell::Cell::new(0) };
    pub static HEAVY_PRELUDES_RUN: std::cell::Cell<u64> = const { std::cell::Cell::new(0) };
    /// interlopers run on behalf of cases of this worker thread
    pub static INTERLOPERS_RUN_HERE: std::cell::Cell<u64> = const { std::cell::Cell::new(0) };
}

/// A server thread serves one connection after another. What an earlier connection on the same
/// thread did - above all one that ended badly - must not matter to the next one. Before a share of
/// the cases (chosen by the case's own input, so that a replay reproduces it) one to three
/// *predecessor connections* run on this thread and end in the ways that leave the most behind:
/// a transport write failing in the middle of a reply, the backend returning its own error inside
/// a row, long data abandoned by CLOSE, an execute of an unknown id after a PREPARE, a TLS-offering
/// shim, request ids that leave the counters at odd values. Their own outcomes are not judged.
fn run_predecessors(case: &Case) {
    if cfg!(miri) || case.no_predecessors || IN_PRELUDE.with(|f| f.get()) {
        return;
    }
    let (input, _) = case.input();
    let h = hash128(&input).0 ^ 0x9E37_79B9_7F4A_7C15 ^ case_salt();
    if h % 6 != 0 && !case.heavy_predecessor {
        return;
    }
    IN_PRELUDE.with(|f| f.set(true));
    let mut r = Rng::for_case(h, "predecessor", 0);
    let heavy = h % 150 == 0 || case.heavy_predecessor;
    if heavy {
        HEAVY_PRELUDES_RUN.with(|n| n.set(n.get() + 1));
    }
    for round in 0..r.range(1, 3) {
        let variant = if heavy && round == 0 { 8 } else { [0u64, 1, 2, 3, 4, 5, 6, 7, 9, 10][r.usize(10)] };
        let mut c = aux_case(&mut r, variant, h, case.tls.is_some());
        c.no_predecessors = true;
        c.no_interloper = true;
        c.log_reads = false;
        if r.bool() {
            c.write_limit = *r.pick(&[1usize, 7, 100, 4096]);
        }
        let _ = run_case(&c);
        PRELUDES_RUN.with(|n| n.set(n.get() + 1));
    }
    let _ = take_panic();
    IN_PRELUDE.with(|f| f.set(false));
}

/// A whole other connection served by ANOTHER THREAD of this process while the connection under test
/// is blocked in a read(): what a server with a thread per connection does all day. The library has no
/// process-wide state, so nothing the other connection does (its handshake's character set and
/// capabilities, its statement ids, bound types, pending long data, errors, abandoned rows) may show
/// in this one. The interloper is chosen by the case's own input (a replay reproduces it); its own
/// outcome is not judged.
pub fn run_interloper(seed: u64) {
    if cfg!(miri) {
        return;
    }
    let t = std::thread::Builder::new().name("vmon-interloper".into()).spawn(move || {
        let mut r = Rng::for_case(seed, "interloper", 0);
        for _ in 0..r.range(1, 2) {
            // (a seed with its top bit set asks for the client of another kind, one with the next bit for
            // the statement-leaving one)
            let variant = if seed >> 63 == 1 { 9 } else if (seed >> 62) & 1 == 1 { 10 } else { [1u64, 2, 3, 4, 6, 7, 9, 9, 10, 10][r.usize(10)] };
            let mut c = aux_case(&mut r, variant, seed, false);
            c.no_predecessors = true;
            c.no_interloper = true;
            c.log_reads = false;
            let _ = run_case(&c);
        }
        let _ = take_panic();
    });
    if let Ok(t) = t {
        let _ = t.join();
        INTERLOPERS_RUN.fetch_add(1, std::sync::atomic::Ordering::Relaxed);
        INTERLOPERS_RUN_HERE.with(|n| n.set(n.get() + 1));
    }
}
pub static INTERLOPERS_RUN: std::sync::atomic::AtomicU64 = std::sync::atomic::AtomicU64::new(0);

/// The connections that predecessors and interlopers are made of.
fn aux_case(r: &mut Rng, variant: u64, h: u64, parent_has_tls: bool) -> Case {
    let col = |n: &str, t: msql_srv::ColumnType| msql_srv::Column { table: "t".into(), column: n.into(), coltype: t, colflags: msql_srv::ColumnFlags::empty() };
    use crate::shim::{Cell as SC, OnErr, QOp, QProg, RowForm, V};
    match variant {
        0 => {
            // a reply cut by a transport write error somewhere inside it
            let cols = vec![col("a", msql_srv::ColumnType::MYSQL_TYPE_VAR_STRING), col("b", msql_srv::ColumnType::MYSQL_TYPE_LONG)];
            let mut ops = vec![QOp::Start(0)];
            for k in 0..r.range(1, 30) {
                ops.push(QOp::Row(vec![SC::val(V::Bytes(format!("leftover-of-an-earlier-client-{}", k).into_bytes())), SC::val(V::I32(1234567))], RowForm::Owned));
            }
            ops.push(QOp::Finish);
            let mut c = Case::new(vec![Cmd::query(b"q").seq(r.below(256) as u8)], vec![Script::Q(QProg { colsets: vec![cols], ops, on_err: OnErr::Drop })]);
            c.fault.err_at = Some(3 + r.below(40));
            c.fault.persistent = r.bool();
            c.fault.err_kind = r.below(3) as u8;
            c
        }
        1 => {
            // the backend returns its own error inside a row (text or binary), NULL written before
            let bin = r.bool();
            let t = if bin { msql_srv::ColumnType::MYSQL_TYPE_LONG } else { msql_srv::ColumnType::MYSQL_TYPE_VAR_STRING };
            let n = r.range(2, 9) as usize;
            let cols: Vec<_> = (0..n).map(|k| col(&format!("c{}", k), t)).collect();
            let mut ops = vec![QOp::Start(0), QOp::Col(SC::val(V::Null))];
            for k in 1..r.range(1, n as u64 - 1) {
                ops.push(QOp::Col(SC::val(V::I32(0x7F7F_7F00 + k as i32))));
            }
            ops.push(QOp::Bail(4711));
            let prog = QProg { colsets: vec![cols.clone()], ops, on_err: OnErr::Drop };
            if bin {
                Case::new(vec![Cmd::prepare(b"p"), Cmd::execute(1, &[], false)], vec![Script::PrepOk { id: 1, params: vec![], cols }, Script::Q(prog)])
            } else {
                Case::new(vec![Cmd::query(b"q")], vec![Script::Q(prog)])
            }
        }
        2 => {
            // long data sent, statement closed without executing; connection ends cleanly or not
            let pc = col("p", msql_srv::ColumnType::MYSQL_TYPE_BLOB);
            let id = *r.pick(&[1u32, 7, 21, 22, 11, 0x0A0B_0C0D]);
            let mut cmds = vec![Cmd::prepare(b"p"), Cmd::long_data(id, 0, b"ABANDONED-BY-AN-EARLIER-CLIENT/"), Cmd::long_data(id, 1, b"second/")];
            if r.bool() {
                cmds.push(Cmd::close(id));
            }
            if r.bool() {
                cmds.push(Cmd::quit());
            }
            Case::new(cmds, vec![Script::PrepOk { id, params: vec![pc.clone(), pc], cols: vec![] }])
        }
        3 => {
            // statements left open (with bound types), then an execute of an unknown id ends the connection
            let pc = col("p", msql_srv::ColumnType::MYSQL_TYPE_LONGLONG);
            let mut cmds = Vec::new();
            let mut scripts = Vec::new();
            for id in [1u32, 7, 11, 12, 13, 21, 22, 23, 0x0A0B_0C0D] {
                cmds.push(Cmd::prepare(b"p"));
                scripts.push(Script::PrepOk { id, params: vec![pc.clone()], cols: vec![] });
                cmds.push(Cmd::execute(id, &[wire::Param { typ: wire::T_LONGLONG, unsigned: true, value: Some(wire::PVal::Int(7)), long: false }], true));
                scripts.push(Script::Q(QProg::completed(0, 0)));
            }
            cmds.push(Cmd::execute(0x7777_7777, &[], false));
            Case::new(cmds, scripts)
        }
        4 => {
            // the other kind of shim as far as TLS is concerned (the client stays in plaintext)
            let mut c = Case::new(vec![Cmd::ping()], vec![]);
            if !parent_has_tls {
                c.tls = TLS_MATERIAL.get_or_init(|| crate::tls::TlsMaterial::generate().ok()).as_ref().map(|m| m.server_optional.clone());
            }
            c
        }
        5 => {
            // the stream ends in the middle of a command; odd request ids before
            let mut c = Case::new(vec![Cmd::ping().seq(200), Cmd::query(b"select 1 from somewhere").seq(77)], vec![Script::Q(QProg::completed(1, 1))]);
            let (inp, _) = c.input();
            c.fault.eof_after = Some(inp.len() - 1 - r.below(10) as usize);
            c
        }
        6 => {
            // a wide binary resultset with NULLs, left to the destructor
            let n = r.range(7, 40) as usize;
            let cols: Vec<_> = (0..n).map(|k| col(&format!("c{}", k), msql_srv::ColumnType::MYSQL_TYPE_LONG)).collect();
            let ops = vec![QOp::Start(0), QOp::Row((0..n).map(|k| if k % 2 == 0 { SC::val(V::Null) } else { SC::val(V::I32(-1)) }).collect(), RowForm::Owned), QOp::DropRow];
            Case::new(vec![Cmd::prepare(b"p"), Cmd::execute(1, &[], false)], vec![Script::PrepOk { id: 1, params: vec![], cols: cols.clone() }, Script::Q(QProg { colsets: vec![cols], ops, on_err: OnErr::Drop })])
        }
        8 => {
            // (rare, heavy) a text row whose first cell fills a 2^24-1 packet, numbers behind it,
            // over a transport that stops accepting writes after 1 MiB: a value encoder meets the
            // transport error in the middle of a cell
            let cols = vec![col("big", msql_srv::ColumnType::MYSQL_TYPE_LONG_BLOB), col("n", msql_srv::ColumnType::MYSQL_TYPE_LONGLONG), col("f", msql_srv::ColumnType::MYSQL_TYPE_DOUBLE), col("s", msql_srv::ColumnType::MYSQL_TYPE_VAR_STRING)];
            let lens = [wire::MAXP - 4 - r.below(3) as usize, wire::MAXP - 4 - 7];
            let ops = vec![QOp::Start(0), QOp::Col(SC::val(V::Stream(h, 1, lens[r.usize(2)]))), QOp::Col(SC::val(V::I64(1234567))), QOp::Col(SC::val(V::F64(-7654.25))), QOp::Col(SC::val(V::Bytes(b"left behind".to_vec()))), QOp::EndRow, QOp::Finish];
            let mut c = Case::new(vec![Cmd::query(b"big")], vec![Script::Q(QProg { colsets: vec![cols], ops, on_err: OnErr::Drop })]);
            // write operations so far: greeting pieces, OK, header packets; fail every write from the
            // first one that follows about 1 MiB of output
            c.write_limit = 1 << 20;
            c.fault.err_at = Some(10 + r.below(6));
            c.fault.persistent = true;
            c
        }
        9 => {
            // a client of another kind: latin1 (or another) connection character set, every capability
            // bit announced (whether the server offered it or not), a small max-packet announcement,
            // non-ASCII text; it leaves politely
            let caps = *r.pick(&[0xFFFF_FFFFu32, 0x0900_0000 | 0x003f_a685, 0x003f_a685]) & !wire::CLIENT_SSL;
            let cs = *r.pick(&[8u8, 8, 5, 48, 63, 45, 255]);
            let mp = *r.pick(&[1024u32, 65_536, 1 << 20, 0, 1 << 30]);
            let cols = vec![col("a", msql_srv::ColumnType::MYSQL_TYPE_VAR_STRING)];
            let ops = vec![QOp::Start(0), QOp::Row(vec![SC::val(V::Str("na\u{ef}ve caf\u{e9} \u{6570}".into()))], RowForm::Owned), QOp::Row(vec![SC::val(V::Bytes(vec![b'x'; 3000]))], RowForm::Owned), QOp::Finish];
            let mut c = Case::new(vec![Cmd::query("s\u{e9}lect".as_bytes()), Cmd::ping(), Cmd::quit()], vec![Script::Q(QProg { colsets: vec![cols], ops, on_err: OnErr::Drop })]);
            c.handshake = wire::handshake41(caps, mp, cs, b"interloper", &wire::handshake41_tail(caps, b"12345678901234567890", b"otherdb", b"mysql_native_password", &[]));
            c
        }
        10 => {
            // statements under the ids everybody uses, with bound types and long data still pending,
            // a last-insert-id, an error reply; the client then just goes away (clean end of stream)
            let pc = col("p", msql_srv::ColumnType::MYSQL_TYPE_VAR_STRING);
            let mut cmds = Vec::new();
            let mut scripts = Vec::new();
            for id in [1u32, 2, 5, 7, 9, u32::MAX] {
                let np = 1 + (id % 3) as usize;
                cmds.push(Cmd::prepare(b"p"));
                scripts.push(Script::PrepOk { id, params: vec![pc.clone(); np], cols: vec![] });
                let params: Vec<wire::Param> = (0..np).map(|_| wire::Param { typ: wire::T_VAR_STRING, unsigned: false, value: Some(wire::PVal::Bytes(b"FROM-ANOTHER-CONNECTION".to_vec())), long: false }).collect();
                cmds.push(Cmd::execute(id, &params, true));
                scripts.push(Script::Q(QProg::completed(17, 0x1D_1D_1D)));
                cmds.push(Cmd::long_data(id, 0, b"LONG-DATA-OF-ANOTHER-CONNECTION/"));
            }
            cmds.push(Cmd::query(b"fails"));
            scripts.push(Script::Q(QProg { colsets: vec![], ops: vec![QOp::Error(1146, b"Unknown table 'of another connection'".to_vec())], on_err: OnErr::Drop }));
            Case::new(cmds, scripts)
        }
        _ => {
            // a rejected login
            let mut c = Case::new(vec![Cmd::ping()], vec![]);
            c.auth_reject = Some(99);
            c
        }
    }
}

/// Cases that do not care about the connection phase all carry the same handshake response. What
/// a client announces there besides its name - capability bits (offered by the server or not),
/// the largest packet it is willing to take, its connection character set, the reserved bytes - must
/// not change how its commands are served, so half of those cases (chosen by their own input) get
/// other values in these fixed-width fields. Lengths and offsets stay as they are.
/// Entropy of the case being run (group tag and index): many checks send the very same client bytes
/// in every case (what differs is what the backend answers), so choices made "by the case's own
/// input" mix this in. Deterministic: a replay runs the same group and index.
fn case_salt() -> u64 {
    CURRENT_CASE.with(|c| {
        let c = c.borrow();
        hash128(c.0.as_bytes()).0 ^ mix64(c.1.wrapping_mul(0x9E37_79B9_7F4A_7C15))
    })
}

fn vary_default_handshake(case: &Case, input: &mut [u8]) {
    if case.raw_input.is_some() || case.handshake != default_handshake() || input.len() < 4 + 32 {
        return;
    }
    let h = hash128(&input[..input.len().min(4096)]).0 ^ 0x2545_F491_4F6C_DD1D ^ case_salt();
    if h % 2 == 0 {
        return;
    }
    let mut r = Rng::for_case(h, "default-handshake", 0);
    let typical = 0x0000_a685u32 | 0x203f_0000;
    let caps = match r.below(5) {
        0 => 0xFFFF_FFFF,
        1 => typical | 0x0100_0000 | 0x0800_0000 | 0x0080_0000, // DEPRECATE_EOF, QUERY_ATTRIBUTES, SESSION_TRACK announced
        2 => r.next() as u32,
        3 => wire::CLIENT_PROTOCOL_41,
        _ => typical,
    };
    let caps = (caps | wire::CLIENT_PROTOCOL_41) & !wire::CLIENT_SSL;
    let mp = *r.pick(&[0u32, 1024, 4096, 16_384, 65_536, 1 << 20, 1 << 24, 1 << 30, u32::MAX]);
    let cs = *r.pick(&[0x21u8, 8, 8, 45, 63, 255, 0, 5]);
    let p = &mut input[4..];
    p[0..4].copy_from_slice(&caps.to_le_bytes());
    p[4..8].copy_from_slice(&mp.to_le_bytes());
    p[8] = cs;
    if r.chance(1, 4) {
        for b in p[9..32].iter_mut() {
            *b = r.below(256) as u8;
        }
    }
}

pub fn run_case(case: &Case) -> Obs {
    beat();
    run_predecessors(case);
    if case.over_tls {
        if let Some(o) = run_case_tls(case) {
            return o;
        }
    }
    let (mut input, ends) = case.input();
    vary_default_handshake(case, &mut input);
    let kinds = case.kinds();
    let mut world = World::new(input);
    world.sched = case.sched.clone();
    world.write_limit = case.write_limit;
    world.fault = case.fault.clone();
    world.kinds = kinds.clone();
    world.log_reads = case.log_reads;
    if !case.no_interloper && !cfg!(miri) && !IN_PRELUDE.with(|f| f.get()) {
        // a sixth of the cases: another thread serves another connection while this one waits in a read
        let hi = hash128(&world.input).0 ^ 0x517C_C1B7_2722_0A95 ^ case_salt();
        if hi % 6 == 1 {
            // mostly at one of the first reads (just behind the handshake, between the first commands)
            let k = if (hi >> 4) % 4 != 0 { 1 + (hi >> 8) % 3 } else { 1 + (hi >> 8) % 12 };
            world.interlope = Some((k, hi));
        }
    }
    if let Some(x) = case.interloper_at {
        world.interlope = Some(x);
    }
    world.budget_ops = if case.budget_ops != 0 {
        case.budget_ops
    } else {
        // generous: every input byte read alone, every output byte written alone, plus slack
        // (and with short writes one operation per `write_limit` output bytes, for outputs up to 64 MiB)
        (world.input.len() as u64) * 4 + 200_000 + if case.write_limit == usize::MAX { 0 } else { (64u64 << 20) / case.write_limit.max(1) as u64 }
    };
    if let Arrival::Pipelined(depth) = case.arrival {
        // exchange j (0 = handshake) is released once the client has seen the replies to all
        // reply-expecting exchanges before exchange j-depth+1 (and always the greeting)
        let depth = depth.max(1);
        let mut replies_before = vec![0usize; ends.len() + 1]; // complete responses (incl. greeting) before exchange j
        let mut acc = 1; // greeting
        for j in 0..ends.len() {
            replies_before[j] = acc;
            if kinds[j + 1].expects_reply() {
                acc += 1;
            }
        }
        for j in 0..ends.len() {
            let start = if j == 0 { 0 } else { ends[j - 1].0 };
            let need = if j + 1 >= depth { replies_before[j + 1 - depth] } else { 1 };
            let need = need.max(1);
            world.gates.push(Gate { upto: start, need });
        }
    }
    let clock = world.clock.clone();
    let world = Rc::new(RefCell::new(world));
    let (mut shim, log) = ScriptShim::new(clock, case.scripts.clone());
    shim.tls = case.tls.clone();
    shim.auth_reject = case.auth_reject;
    shim.conv = case.conv;
    let _ = take_panic();
    let t = MemTransport(world.clone());
    let default_init = case.default_init;
    let minimal = case.minimal_shim;
    let via_stream = case.via_run_on_stream;
    let r = catch_unwind(AssertUnwindSafe(move || {
        if minimal {
            MysqlIntermediary::run_on(MinimalShim(shim), t)
        } else if default_init {
            MysqlIntermediary::run_on(DefaultInitShim(shim), t)
        } else if via_stream {
            MysqlIntermediary::run_on_stream(shim, t)
        } else {
            MysqlIntermediary::run_on(shim, t)
        }
    }));
    let outcome = match r {
        Ok(Ok(())) => Outcome::Ok,
        Ok(Err(ShimErr::Io(e))) => Outcome::Io { kind: e.kind(), msg: e.to_string() },
        Ok(Err(ShimErr::Token(t))) => Outcome::Token(t),
        Err(_) => {
            let (file, line, msg) = take_panic().unwrap_or(("?".into(), 0, "?".into()));
            Outcome::Panic { file, line, msg }
        }
    };
    // after a panic the Rc may still be shared by leaked objects; take the contents out
    let world = match Rc::try_unwrap(world) {
        Ok(c) => c.into_inner(),
        Err(rc) => std::mem::replace(&mut *rc.borrow_mut(), World::new(vec![])),
    };
    let log = std::mem::take(&mut *log.borrow_mut());
    let hs = &case.handshake;
    let ssl_bit = hs.len() >= 2 && (u16::from_le_bytes([hs[0], hs[1]]) as u32 & wire::CLIENT_PROTOCOL_41 != 0) && (u16::from_le_bytes([hs[0], hs[1]]) as u32 & wire::CLIENT_SSL != 0);
    let tls_upgrade_requested = case.tls.is_some() && case.raw_input.is_none() && ssl_bit;
    Obs { outcome, world, log, ends, kinds, tls_upgrade_requested }
}

/// What a real TCP peer on the loopback interface saw: the same scripted conversation served by
/// `run_on_tcp` over a kernel socket (the kernel decides the chunking; one client thread writes,
/// another reads until the server closes).
pub struct TcpObs {
    pub outcome: Outcome,
    pub output: Vec<u8>,
    pub log: ShimLog,
}

pub fn run_case_tcp(case: &Case) -> Result<TcpObs, String> {
    use std::io::{Read as _, Write as _};
    let (input, _) = case.input();
    let listener = std::net::TcpListener::bind("127.0.0.1:0").map_err(|e| format!("bind: {}", e))?;
    let addr = listener.local_addr().map_err(|e| e.to_string())?;
    let client = std::thread::spawn(move || -> Result<Vec<u8>, String> {
        let c = std::net::TcpStream::connect(addr).map_err(|e| format!("connect: {}", e))?;
        let _ = c.set_read_timeout(Some(std::time::Duration::from_secs(120)));
        let _ = c.set_write_timeout(Some(std::time::Duration::from_secs(120)));
        let mut w = c.try_clone().map_err(|e| e.to_string())?;
        let writer = std::thread::spawn(move || {
            // an error here only means that the server went away early (refusals, malformed input)
            let _ = w.write_all(&input);
            let _ = w.shutdown(std::net::Shutdown::Write);
        });
        let mut out = Vec::new();
        let mut r = c;
        let mut buf = vec![0u8; 1 << 16];
        loop {
            match r.read(&mut buf) {
                Ok(0) => break,
                Ok(n) => out.extend_from_slice(&buf[..n]),
                Err(e) if e.kind() == io::ErrorKind::ConnectionReset => break,
                Err(e) => return Err(format!("client read: {}", e)),
            }
        }
        let _ = writer.join();
        Ok(out)
    });
    let (stream, _) = listener.accept().map_err(|e| format!("accept: {}", e))?;
    let _ = stream.set_read_timeout(Some(std::time::Duration::from_secs(120)));
    let clock: Clock = Rc::new(std::cell::Cell::new(0));
    let (mut shim, log) = ScriptShim::new(clock, case.scripts.clone());
    shim.tls = case.tls.clone();
    shim.auth_reject = case.auth_reject;
    shim.conv = case.conv;
    let _ = take_panic();
    let r = catch_unwind(AssertUnwindSafe(move || MysqlIntermediary::run_on_tcp(shim, stream)));
    let outcome = match r {
        Ok(Ok(())) => Outcome::Ok,
        Ok(Err(ShimErr::Io(e))) => Outcome::Io { kind: e.kind(), msg: e.to_string() },
        Ok(Err(ShimErr::Token(t))) => Outcome::Token(t),
        Err(_) => {
            let (file, line, msg) = take_panic().unwrap_or(("?".into(), 0, "?".into()));
            Outcome::Panic { file, line, msg }
        }
    };
    let output = client.join().map_err(|_| "client thread died".to_string())??;
    let log = std::mem::take(&mut *log.borrow_mut());
    Ok(TcpObs { outcome, output, log })
}

// ------------------------------------------------------------------------------------------------
// violations and per-property reports

#[derive(Clone, Debug)]
pub struct Violation {
    pub prop: &'static str,
    /// exact signature used to match known findings
    pub signature: String,
    /// one-line human description
    pub what: String,
    /// details for the replay file
    pub detail: J,
    pub case_group: String,
    pub case_index: u64,
}

#[derive(Default)]
pub struct Report {
    pub evaluations: u64,
    pub counters: Counters,
    pub samples: Vec<J>,
    pub violations: Vec<Violation>,
    /// reasons this run cannot be trusted (harness errors, thresholds missed)
    pub inconclusive: Vec<String>,
    pub notes: Vec<String>,
    pub exhaustive: bool,
    pub rule: String,
}
impl Report {
    pub fn merge(&mut self, o: Report) {
        self.evaluations += o.evaluations;
        self.counters.merge(&o.counters);
        for s in o.samples {
            if self.samples.len() < 12 {
                self.samples.push(s);
            }
        }
        self.violations.extend(o.violations);
        for i in o.inconclusive {
            if !self.inconclusive.contains(&i) && self.inconclusive.len() < 20 {
                self.inconclusive.push(i);
            }
        }
        for n in o.notes {
            if !self.notes.contains(&n) && self.notes.len() < 40 {
                self.notes.push(n);
            }
        }
    }
    pub fn sample(&mut self, j: J) {
        if self.samples.len() < 6 {
            self.samples.push(j);
        }
    }
    pub fn require(&mut self, counter: &str, min: u64) {
        if self.counters.get(counter) < min {
            self.inconclusive.push(format!("observed only {} of event '{}' (need >= {})", self.counters.get(counter), counter, min));
        }
    }
}

/// Context handed to property workloads.
#[derive(Clone)]
pub struct Ctx {
    pub seed: u64,
    pub thorough: bool,
    pub threads: usize,
    /// run only this (group, index)
    pub only: Option<(String, u64)>,
    /// scale factor for case counts (sanitizer passes use < 1)
    pub scale: f64,
    /// tiny workload for Miri
    pub miri: bool,
    pub tls_server: Option<crate::tls::TlsMaterial>,
    /// multiplier for the random parts of the thorough tier (per property, see main.rs)
    pub thorough_mult: f64,
}
impl Ctx {
    pub fn n(&self, quick: u64, thorough: u64) -> u64 {
        let base = if self.thorough { thorough as f64 * self.thorough_mult } else { quick as f64 };
        ((base * self.scale).ceil() as u64).max(1)
    }
    /// minimum-observation thresholds apply only to full-size native runs
    pub fn strict(&self) -> bool {
        !self.miri && self.only.is_none() && self.scale >= 1.0
    }
    pub fn wants(&self, group: &str, idx: u64) -> bool {
        match &self.only {
            None => true,
            Some((g, i)) => g == group && *i == idx,
        }
    }
}

/// Run `n` independent cases of `group` on the worker threads. `f(rng, index, report)`.
/// Start of the process (set on first use): the Miri shards stop starting new cases after a time
/// budget instead of being killed by the runner's watchdog on a loaded machine.
pub static START: std::sync::OnceLock<std::time::Instant> = std::sync::OnceLock::new();
/// the thorough tier runs tens of millions of cases: the expensive transport dimensions (a real TLS
/// handshake per case) are then taken less often per case, more often in total
pub static THOROUGH: std::sync::atomic::AtomicBool = std::sync::atomic::AtomicBool::new(false);
pub const MIRI_BUDGET_S: u64 = 420;

// ---- bounded progress: a case that makes no progress at all -------------------------------------
// Every transport operation and every shim callback of a case beats the heart of the worker that runs
// it. A case whose worker has not beaten for STUCK_SECS of wall time is reported on stderr
// (`VMON-STUCK ...`) and the process exits with code 98: the code under test is spinning without
// touching the transport (the operation budgets cannot see that), or the machine is badly overloaded.
// Which of the two is not decided here: the runner re-runs that one case alone, with a longer limit,
// and only a case that is stuck again in isolation becomes a violation ("no progress").
pub const MAX_WORKERS: usize = 64;
pub static HEART: [std::sync::atomic::AtomicU64; MAX_WORKERS] = [const { std::sync::atomic::AtomicU64::new(0) }; MAX_WORKERS];
/// index + 1 of the case a worker is running (0 = idle)
pub static RUNNING: [std::sync::atomic::AtomicU64; MAX_WORKERS] = [const { std::sync::atomic::AtomicU64::new(0) }; MAX_WORKERS];
thread_local! {
    pub static WORKER_SLOT: std::cell::Cell<usize> = const { std::cell::Cell::new(usize::MAX) };
}
/// called by the transports and the shim
pub fn beat() {
    let k = WORKER_SLOT.with(|w| w.get());
    if k < MAX_WORKERS {
        HEART[k].fetch_add(1, std::sync::atomic::Ordering::Relaxed);
    }
}
fn stuck_secs(ctx: &Ctx) -> u64 {
    let base = std::env::var("VMON_STUCK_SECS").ok().and_then(|v| v.parse().ok()).unwrap_or(90u64);
    // instrumented builds are slow, not stuck
    match std::env::var("VMON_PROFILE").as_deref() {
        Ok("valgrind") => base * 40,
        Ok("asan") => base * 6,
        _ if ctx.miri => u64::MAX / 4,
        _ => base,
    }
}

pub fn par_cases<F>(ctx: &Ctx, prop: &'static str, group: &str, n: u64, f: F) -> Report
where
    F: Fn(&mut Rng, u64, &mut Report) + Sync,
{
    use std::sync::atomic::{AtomicBool, AtomicU64, Ordering};
    let next = AtomicU64::new(0);
    let threads = ctx.threads.max(1).min(n.max(1) as usize).min(MAX_WORKERS);
    let mut reports: Vec<Report> = Vec::new();
    let tag = format!("{}/{}", prop, group);
    let done = AtomicBool::new(false);
    let limit = stuck_secs(ctx);
    let slot_ctr = AtomicU64::new(0);
    for k in 0..MAX_WORKERS {
        RUNNING[k].store(0, Ordering::Relaxed);
    }
    std::thread::scope(|s| {
        // the watchdog of this group
        s.spawn(|| {
            let mut seen: Vec<(u64, u64, std::time::Instant)> = (0..MAX_WORKERS).map(|_| (0, 0, std::time::Instant::now())).collect();
            while !done.load(Ordering::Relaxed) {
                std::thread::sleep(std::time::Duration::from_millis(250));
                for k in 0..threads {
                    let (r, h) = (RUNNING[k].load(Ordering::Relaxed), HEART[k].load(Ordering::Relaxed));
                    if r == 0 || (r, h) != (seen[k].0, seen[k].1) {
                        seen[k] = (r, h, std::time::Instant::now());
                    } else if seen[k].2.elapsed().as_secs() >= limit {
                        eprintln!("VMON-STUCK prop={} group={} index={} secs={} (no transport operation and no callback in that time)", prop, group, r - 1, seen[k].2.elapsed().as_secs());
                        std::process::exit(98);
                    }
                }
            }
        });
        let mut hs = Vec::new();
        for _ in 0..threads {
            hs.push(s.spawn(|| {
                let slot = slot_ctr.fetch_add(1, Ordering::Relaxed) as usize;
                WORKER_SLOT.with(|w| w.set(slot));
                let mut rep = Report::default();
                loop {
                    let i = next.fetch_add(1, Ordering::Relaxed);
                    if i >= n {
                        break;
                    }
                    if !ctx.wants(group, i) {
                        continue;
                    }
                    let (pre0, int0) = (PRELUDES_RUN.with(|n| n.get()), INTERLOPERS_RUN_HERE.with(|n| n.get()));
                    let heavy0 = HEAVY_PRELUDES_RUN.with(|n| n.get());
                    if ctx.miri && i >= 1 && START.get_or_init(std::time::Instant::now).elapsed().as_secs() > MIRI_BUDGET_S {
                        rep.counters.inc("miri_cases_not_started_time_budget_used_up");
                        continue;
                    }
                    CURRENT_CASE.with(|c| *c.borrow_mut() = (tag.clone(), i));
                    let mut rng = Rng::for_case(ctx.seed, &tag, i);
                    let before = rep.violations.len();
                    if slot < MAX_WORKERS {
                        HEART[slot].fetch_add(1, Ordering::Relaxed);
                        RUNNING[slot].store(i + 1, Ordering::Relaxed);
                    }
                    let r = catch_unwind(AssertUnwindSafe(|| f(&mut rng, i, &mut rep)));
                    if slot < MAX_WORKERS {
                        RUNNING[slot].store(0, Ordering::Relaxed);
                    }
                    if let Err(_) = r {
                        let p = take_panic();
                        rep.inconclusive.push(format!("harness panic in {} case {}: {:?}", tag, i, p));
                    }
                    rep.counters.add("predecessor_connections_run_on_the_same_thread", PRELUDES_RUN.with(|n| n.get()) - pre0);
                    rep.counters.add("cases_behind_the_heavy_predecessor_16MiB_text_row_cut_by_a_write_error", HEAVY_PRELUDES_RUN.with(|n| n.get()) - heavy0);
                    rep.counters.add("interloper_connections_served_by_another_thread_meanwhile", INTERLOPERS_RUN_HERE.with(|n| n.get()) - int0);
                    for v in rep.violations[before..].iter_mut() {
                        v.case_group = group.to_string();
                        v.case_index = i;
                    }
                    // bound memory: keep at most 3 witnesses per signature per worker
                    if rep.violations.len() > before {
                        let mut per: std::collections::BTreeMap<String, usize> = std::collections::BTreeMap::new();
                        rep.violations.retain(|v| {
                            let c = per.entry(v.signature.clone()).or_insert(0);
                            *c += 1;
                            *c <= 3
                        });
                    }
                }
                WORKER_SLOT.with(|w| w.set(usize::MAX));
                rep
            }));
        }
        for h in hs {
            match h.join() {
                Ok(r) => reports.push(r),
                Err(_) => {
                    let mut r = Report::default();
                    r.inconclusive.push(format!("worker thread of {} died", tag));
                    reports.push(r);
                }
            }
        }
        done.store(true, Ordering::Relaxed);
    });
    let mut out = Report::default();
    for r in reports {
        out.merge(r);
    }
    out.violations.sort_by(|a, b| (a.case_index, &a.signature).cmp(&(b.case_index, &b.signature)));
    out
}

pub fn viol(prop: &'static str, signature: String, what: String, detail: J) -> Violation {
    Violation { prop, signature, what, detail, case_group: String::new(), case_index: 0 }
}

/// Signature for a panic inside the tree under test: file + source text of the line + message class.
pub fn panic_signature(file: &str, line: u32, msg: &str) -> String {
    let rel = repo_rel(file).unwrap_or_else(|| file.to_string());
    let src = std::fs::read_to_string(file)
        .ok()
        .and_then(|s| s.lines().nth(line.saturating_sub(1) as usize).map(|l| l.trim().to_string()))
        .unwrap_or_else(|| format!("line {}", line));
    format!("panic {} `{}` [{}]", rel, src, msg_class(msg))
}

/// Message with the variable parts (numbers, quoted data) removed.
pub fn msg_class(msg: &str) -> String {
    let mut out = String::new();
    let mut last_hash = false;
    // hexadecimal literals count as numbers
    let mut norm = String::new();
    let b: Vec<char> = msg.chars().take(200).collect();
    let mut k = 0;
    while k < b.len() {
        if b[k] == '0' && k + 1 < b.len() && b[k + 1] == 'x' {
            norm.push('0');
            k += 2;
            while k < b.len() && b[k].is_ascii_hexdigit() {
                k += 1;
            }
        } else {
            norm.push(b[k]);
            k += 1;
        }
    }
    for c in norm.chars() {
        if c.is_ascii_digit() {
            if !last_hash {
                out.push('#');
                last_hash = true;
            }
        } else {
            out.push(c);
            last_hash = false;
        }
    }
    // cut Debug dumps of data
    for cut in ['[', '{', '"', '\n'] {
        if let Some(i) = out.find(cut) {
            out.truncate(i);
        }
    }
    trunc(out.trim(), 80)
}
