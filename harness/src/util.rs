//! Small self-contained utilities: PRNG, hashing, JSON output.
use std::collections::BTreeMap;
use std::fmt::Write as _;

/// splitmix64: tiny, deterministic, good enough for workload generation.
#[derive(Clone, Debug)]
pub struct Rng(pub u64);

impl Rng {
    pub fn new(seed: u64) -> Self {
        Rng(seed ^ 0x9E37_79B9_7F4A_7C15)
    }
    /// Independent stream for (seed, tag, index).
    pub fn for_case(seed: u64, tag: &str, idx: u64) -> Self {
        let mut h = seed ^ 0xA076_1D64_78BD_642F;
        for b in tag.bytes() {
            h = mix64(h ^ b as u64);
        }
        h = mix64(h ^ idx.wrapping_mul(0xE703_7ED1_A0B4_28DB));
        Rng(h)
    }
    pub fn next(&mut self) -> u64 {
        self.0 = self.0.wrapping_add(0x9E37_79B9_7F4A_7C15);
        let mut z = self.0;
        z = (z ^ (z >> 30)).wrapping_mul(0xBF58_476D_1CE4_E5B9);
        z = (z ^ (z >> 27)).wrapping_mul(0x94D0_49BB_1331_11EB);
        z ^ (z >> 31)
    }
    /// uniform in 0..n (n > 0)
    pub fn below(&mut self, n: u64) -> u64 {
        if n == 0 {
            return 0;
        }
        self.next() % n
    }
    pub fn usize(&mut self, n: usize) -> usize {
        self.below(n as u64) as usize
    }
    /// inclusive range
    pub fn range(&mut self, lo: u64, hi: u64) -> u64 {
        lo + self.below(hi - lo + 1)
    }
    pub fn chance(&mut self, num: u64, den: u64) -> bool {
        self.below(den) < num
    }
    pub fn bool(&mut self) -> bool {
        self.next() & 1 == 1
    }
    pub fn pick<'a, T>(&mut self, xs: &'a [T]) -> &'a T {
        &xs[self.usize(xs.len())]
    }
    pub fn bytes(&mut self, n: usize) -> Vec<u8> {
        let mut v = Vec::with_capacity(n);
        while v.len() < n {
            let x = self.next().to_le_bytes();
            let k = (n - v.len()).min(8);
            v.extend_from_slice(&x[..k]);
        }
        v
    }
    /// printable ASCII (space..~), never starting with a byte that could form a built-in prefix
    pub fn ascii(&mut self, n: usize) -> Vec<u8> {
        (0..n).map(|_| 0x21 + self.below(0x7e - 0x21) as u8).collect()
    }
}

pub fn mix64(mut z: u64) -> u64 {
    z = (z ^ (z >> 33)).wrapping_mul(0xFF51_AFD7_ED55_8CCD);
    z = (z ^ (z >> 33)).wrapping_mul(0xC4CE_B9FE_1A85_EC53);
    z ^ (z >> 33)
}

/// 128-bit content hash (two independent FNV/mix lanes); used to compare large payloads.
pub fn hash128(data: &[u8]) -> (u64, u64) {
    let mut a: u64 = 0xcbf2_9ce4_8422_2325;
    let mut b: u64 = 0x8422_2325_cbf2_9ce4;
    for chunk in data.chunks(8) {
        let mut w = [0u8; 8];
        w[..chunk.len()].copy_from_slice(chunk);
        let x = u64::from_le_bytes(w);
        a = (a ^ x).wrapping_mul(0x0000_0100_0000_01B3);
        a = a.rotate_left(29);
        b = mix64(b ^ x).wrapping_add(0x9E37_79B9_7F4A_7C15);
    }
    (mix64(a ^ data.len() as u64), mix64(b ^ (data.len() as u64).rotate_left(32)))
}

/// Byte runs that look like protocol structure when they occur inside data: packet headers (full
/// fragments, empty packets, a framed COM_QUIT / COM_PING / COM_QUERY), length-prefix markers,
/// OK / EOF / ERR first bytes, NUL runs.
const HOSTILE_BIN: [&[u8; 8]; 12] = [
    b"\xff\xff\xff\x00\xff\xff\xff\x01",
    b"\xff\xff\xff\xff\xff\xff\xff\xff",
    b"\x00\x00\x00\x00\x00\x00\x00\x00",
    b"\x01\x00\x00\x00\x01\x01\x00\x00",
    b"\x01\x00\x00\x00\x0e\x00\x00\x00",
    b"\x03\x00\x00\x00\x03\x53\x45\x4c",
    b"\xfb\xfb\xfc\x00\x01\xfd\x00\x00",
    b"\xfe\x00\x00\x02\x00\x00\x00\xfe",
    b"\xff\x15\x04#2800",
    b"\x00\x00\x00\x02\x00\x00\x00\x00",
    b"\x05\x00\x00\x00\x19\x01\x00\x00",
    b"\xfe\xff\xff\xff\xff\xff\xff\xff",
];
/// The same idea for text (every entry is 8 bytes of valid UTF-8): quotes, escapes, comment
/// openers, statement separators, the built-in prefixes in mid-text, NUL, multi-byte characters.
const HOSTILE_TXT: [&str; 12] = [
    "';--\\\"`@",
    "/*!4*/#\n",
    "\u{4e2d}\u{4e2d}\u{e9}",
    "\u{1f600}\u{1f600}",
    " \t\n\r\0 ; ",
    "NULL OK ",
    "@@x;USE ",
    "%_\\%\\_``",
    "SELECT @",
    "use `a`;",
    "\u{7f}\u{1}\u{0}\u{0}\u{0}\u{e}\u{1}\u{0}",
    "\u{ff}\u{ff}\u{fb}\u{fe}",
];

/// Position-dependent byte stream: byte at `off` of the payload identified by (seed, id).
/// Cheap to generate for tens of MB and every 8-byte block is unique to (seed,id,off/8).
/// One payload in four (chosen by its identity) is *hostile*: about a third of its blocks (never the
/// first) are replaced by byte runs that resemble protocol structure, so that code which looks at
/// the content of data rather than at its framing has something to trip over.
pub fn stream_fill(out: &mut Vec<u8>, seed: u64, id: u64, len: usize, printable: bool) {
    let base = mix64(seed ^ id.wrapping_mul(0x9E37_79B9_7F4A_7C15));
    let hostile = mix64(base ^ 0x5bd1_e995) % 4 == 0;
    let start = out.len();
    out.reserve(len);
    let mut blk = 0u64;
    while out.len() - start < len {
        let x = mix64(base ^ blk.wrapping_mul(0xD6E8_FEB8_6659_FD93)).to_le_bytes();
        let k = (len - (out.len() - start)).min(8);
        if hostile && blk > 0 && k == 8 && x[7] % 3 == 0 {
            if printable {
                out.extend_from_slice(HOSTILE_TXT[(x[6] % 12) as usize].as_bytes());
            } else {
                out.extend_from_slice(&HOSTILE_BIN[(x[6] % 12) as usize][..]);
            }
        } else if printable {
            for &c in &x[..k] {
                // 'a'..'z' / '0'..'5': valid UTF-8, never whitespace, quote, '@' or ';'
                let c = c % 32;
                out.push(if c < 26 { b'a' + c } else { b'0' + (c - 26) });
            }
        } else {
            out.extend_from_slice(&x[..k]);
        }
        blk += 1;
    }
}

/// The content generators keep their promises: requested length, valid UTF-8 in text mode, a plain
/// first block, and hostile payloads do occur.
pub fn selfcheck() -> Result<(), String> {
    for t in HOSTILE_TXT.iter() {
        if t.len() != 8 {
            return Err(format!("hostile text block {:?} is {} bytes", t, t.len()));
        }
    }
    let mut hostile_seen = 0;
    for id in 0..64u64 {
        for &len in &[0usize, 1, 7, 8, 9, 100, 1001] {
            let mut t = Vec::new();
            stream_fill(&mut t, 42, id, len, true);
            let mut b = Vec::new();
            stream_fill(&mut b, 42, id, len, false);
            if t.len() != len || b.len() != len {
                return Err("stream_fill length".into());
            }
            if std::str::from_utf8(&t).is_err() {
                return Err("stream_fill text is not UTF-8".into());
            }
            if !t.iter().take(8).all(|c| c.is_ascii_lowercase() || c.is_ascii_digit()) {
                return Err("stream_fill first block".into());
            }
            if len == 1001 && b.windows(3).any(|w| w == [0xff, 0xff, 0xff]) {
                hostile_seen += 1;
            }
        }
    }
    if hostile_seen < 4 {
        return Err("stream_fill never produced hostile content".into());
    }
    Ok(())
}

pub fn hex(b: &[u8]) -> String {
    let mut s = String::with_capacity(b.len() * 2);
    for x in b {
        let _ = write!(s, "{:02x}", x);
    }
    s
}

/// Short printable rendering of bytes for samples / replay files.
pub fn show(b: &[u8]) -> String {
    if b.len() <= 48 {
        show_all(b)
    } else {
        format!("{}..(+{} bytes, h={:016x})", show_all(&b[..32]), b.len() - 32, hash128(b).0)
    }
}
pub fn show_all(b: &[u8]) -> String {
    let mut s = String::new();
    for &c in b {
        if (0x20..0x7f).contains(&c) && c != b'\\' && c != b'"' {
            s.push(c as char);
        } else {
            let _ = write!(s, "\\x{:02x}", c);
        }
    }
    s
}

// ------------------------------------------------------------------------------------------------
// JSON (output only)

#[derive(Clone, Debug)]
pub enum J {
    Null,
    B(bool),
    I(i128),
    F(f64),
    S(String),
    A(Vec<J>),
    O(Vec<(String, J)>),
}

impl J {
    pub fn s<T: Into<String>>(s: T) -> J {
        J::S(s.into())
    }
    pub fn obj() -> J {
        J::O(Vec::new())
    }
    pub fn set<T: Into<J>>(mut self, k: &str, v: T) -> J {
        if let J::O(ref mut m) = self {
            let v = v.into();
            if let Some(e) = m.iter_mut().find(|(kk, _)| kk == k) {
                e.1 = v;
            } else {
                m.push((k.to_string(), v));
            }
        }
        self
    }
    pub fn put<T: Into<J>>(&mut self, k: &str, v: T) {
        if let J::O(ref mut m) = self {
            let v = v.into();
            if let Some(e) = m.iter_mut().find(|(kk, _)| kk == k) {
                e.1 = v;
            } else {
                m.push((k.to_string(), v));
            }
        }
    }
    pub fn render(&self) -> String {
        let mut s = String::new();
        self.w(&mut s);
        s
    }
    fn w(&self, o: &mut String) {
        match self {
            J::Null => o.push_str("null"),
            J::B(b) => o.push_str(if *b { "true" } else { "false" }),
            J::I(i) => {
                let _ = write!(o, "{}", i);
            }
            J::F(f) => {
                if f.is_finite() {
                    let _ = write!(o, "{}", f);
                } else {
                    o.push_str("null");
                }
            }
            J::S(s) => {
                o.push('"');
                for c in s.chars() {
                    match c {
                        '"' => o.push_str("\\\""),
                        '\\' => o.push_str("\\\\"),
                        '\n' => o.push_str("\\n"),
                        '\r' => o.push_str("\\r"),
                        '\t' => o.push_str("\\t"),
                        c if (c as u32) < 0x20 => {
                            let _ = write!(o, "\\u{:04x}", c as u32);
                        }
                        c => o.push(c),
                    }
                }
                o.push('"');
            }
            J::A(a) => {
                o.push('[');
                for (i, x) in a.iter().enumerate() {
                    if i > 0 {
                        o.push(',');
                    }
                    x.w(o);
                }
                o.push(']');
            }
            J::O(m) => {
                o.push('{');
                for (i, (k, v)) in m.iter().enumerate() {
                    if i > 0 {
                        o.push(',');
                    }
                    J::S(k.clone()).w(o);
                    o.push(':');
                    v.w(o);
                }
                o.push('}');
            }
        }
    }
}
impl From<&str> for J {
    fn from(s: &str) -> J {
        J::S(s.to_string())
    }
}
impl From<String> for J {
    fn from(s: String) -> J {
        J::S(s)
    }
}
impl From<bool> for J {
    fn from(b: bool) -> J {
        J::B(b)
    }
}
impl From<f64> for J {
    fn from(b: f64) -> J {
        J::F(b)
    }
}
macro_rules! jint {
    ($($t:ty),*) => {$(impl From<$t> for J { fn from(x: $t) -> J { J::I(x as i128) } })*};
}
jint!(u8, u16, u32, u64, usize, i8, i16, i32, i64, isize, i128);
impl<T: Into<J>> From<Vec<T>> for J {
    fn from(v: Vec<T>) -> J {
        J::A(v.into_iter().map(Into::into).collect())
    }
}
impl From<&BTreeMap<String, u64>> for J {
    fn from(m: &BTreeMap<String, u64>) -> J {
        J::O(m.iter().map(|(k, v)| (k.clone(), J::I(*v as i128))).collect())
    }
}

/// Named event counters + class set: what a monitor actually observed.
#[derive(Default, Clone, Debug)]
pub struct Counters {
    pub n: BTreeMap<String, u64>,
    pub classes: std::collections::BTreeSet<String>,
}
impl Counters {
    pub fn inc(&mut self, k: &str) {
        self.add(k, 1);
    }
    pub fn add(&mut self, k: &str, v: u64) {
        if let Some(x) = self.n.get_mut(k) {
            *x += v;
        } else {
            self.n.insert(k.to_string(), v);
        }
    }
    pub fn max(&mut self, k: &str, v: u64) {
        let e = self.n.entry(k.to_string()).or_insert(0);
        if v > *e {
            *e = v;
        }
    }
    pub fn get(&self, k: &str) -> u64 {
        self.n.get(k).copied().unwrap_or(0)
    }
    pub fn class(&mut self, c: String) {
        self.classes.insert(c);
    }
    pub fn merge(&mut self, o: &Counters) {
        for (k, v) in &o.n {
            if k.starts_with("max_") {
                self.max(k, *v);
            } else {
                self.add(k, *v);
            }
        }
        for c in &o.classes {
            self.classes.insert(c.clone());
        }
    }
}
