//! A scripted, recording backend: implements `MysqlShim` for any transport, logs every callback with
//! its arguments (copied) and interprets a queue of response programs over the writer API, recording
//! the io::Result of every writer call.
use crate::transport::Clock;
use chrono::{NaiveDate, NaiveDateTime};
use msql_srv::*;
use mysql_common as myc;
use std::cell::RefCell;
use std::collections::VecDeque;
use std::io::{self, Read, Write};
use std::panic::{catch_unwind, AssertUnwindSafe};
use std::rc::Rc;
use std::sync::Arc;
use std::time::Duration;

// ------------------------------------------------------------------------------------------------
// values and the ways of handing them to the writer

#[derive(Clone, Debug, PartialEq)]
pub enum V {
    I8(i8),
    U8(u8),
    I16(i16),
    U16(u16),
    I32(i32),
    U32(u32),
    I64(i64),
    U64(u64),
    Isize(isize),
    Usize(usize),
    F32(f32),
    F64(f64),
    Str(String),
    Bytes(Vec<u8>),
    Date(NaiveDate),
    DateTime(NaiveDateTime),
    Dur(Duration),
    Myc(myc::value::Value),
    /// `None::<u8>` and friends
    Null,
    /// position-dependent byte stream generated at write time: (seed, id, len)
    Stream(u64, u64, usize),
}

#[derive(Clone, Copy, Debug, PartialEq, Eq, PartialOrd, Ord)]
pub enum Form {
    /// `write_col(v)`
    Val,
    /// `write_col(&v)`
    Ref,
    /// `write_col(Some(v))`
    Opt,
    /// `write_col(Some(&v))`
    OptRef,
    /// `write_col(&Some(v))`
    RefOpt,
}
pub const FORMS: [Form; 5] = [Form::Val, Form::Ref, Form::Opt, Form::OptRef, Form::RefOpt];

#[derive(Clone, Debug, PartialEq)]
pub struct Cell {
    pub v: V,
    pub form: Form,
}
impl Cell {
    pub fn val(v: V) -> Cell {
        Cell { v, form: Form::Val }
    }
    pub fn is_null_value(&self) -> bool {
        matches!(self.v, V::Null | V::Myc(myc::value::Value::NULL))
    }
}

/// Apply `$f` (a macro taking one expression of a ToMysqlValue type) to the cell in its hand-over form.
macro_rules! with_form {
    ($x:expr, $form:expr, $f:ident) => {
        match $form {
            Form::Val => $f!($x),
            Form::Ref => $f!(&$x),
            Form::Opt => $f!(Some($x)),
            Form::OptRef => $f!(Some(&$x)),
            Form::RefOpt => $f!(&Some($x)),
        }
    };
}
macro_rules! with_cell {
    ($cell:expr, $f:ident) => {{
        let form = $cell.form;
        match &$cell.v {
            V::I8(x) => with_form!(*x, form, $f),
            V::U8(x) => with_form!(*x, form, $f),
            V::I16(x) => with_form!(*x, form, $f),
            V::U16(x) => with_form!(*x, form, $f),
            V::I32(x) => with_form!(*x, form, $f),
            V::U32(x) => with_form!(*x, form, $f),
            V::I64(x) => with_form!(*x, form, $f),
            V::U64(x) => with_form!(*x, form, $f),
            V::Isize(x) => with_form!(*x, form, $f),
            V::Usize(x) => with_form!(*x, form, $f),
            V::F32(x) => with_form!(*x, form, $f),
            V::F64(x) => with_form!(*x, form, $f),
            V::Str(x) => match form {
                Form::Val => $f!(x.clone()),
                Form::Ref => $f!(x.as_str()),
                Form::Opt => $f!(Some(x.clone())),
                Form::OptRef => $f!(Some(x.as_str())),
                Form::RefOpt => $f!(&Some(x.as_str())),
            },
            V::Bytes(x) => match form {
                Form::Val => $f!(x.clone()),
                Form::Ref => $f!(&x[..]),
                Form::Opt => $f!(Some(x.clone())),
                Form::OptRef => $f!(Some(&x[..])),
                Form::RefOpt => $f!(&Some(&x[..])),
            },
            V::Stream(seed, id, len) => {
                let mut buf = Vec::new();
                crate::util::stream_fill(&mut buf, *seed, *id, *len, false);
                $f!(&buf[..])
            }
            V::Date(x) => with_form!(*x, form, $f),
            V::DateTime(x) => with_form!(*x, form, $f),
            V::Dur(x) => with_form!(*x, form, $f),
            V::Myc(x) => with_form!(x.clone(), form, $f),
            V::Null => match form {
                Form::Val => $f!(None::<u8>),
                Form::Ref => $f!(&None::<u8>),
                Form::Opt => $f!(None::<String>),
                Form::OptRef => $f!(None::<&i64>),
                Form::RefOpt => $f!(&None::<NaiveDate>),
            },
        }
    }};
}

/// A user-defined value type (the trait is public): lets heterogeneous rows go through `write_row`.
impl ToMysqlValue for Cell {
    fn to_mysql_text<W: Write>(&self, w: &mut W) -> io::Result<()> {
        macro_rules! f {
            ($e:expr) => {
                ($e).to_mysql_text(w)
            };
        }
        with_cell!(self, f)
    }
    fn to_mysql_bin<W: Write>(&self, w: &mut W, c: &Column) -> io::Result<()> {
        macro_rules! f {
            ($e:expr) => {
                ($e).to_mysql_bin(w, c)
            };
        }
        with_cell!(self, f)
    }
    fn is_null(&self) -> bool {
        macro_rules! f {
            ($e:expr) => {
                ($e).is_null()
            };
        }
        with_cell!(self, f)
    }
}

// ------------------------------------------------------------------------------------------------
// response programs

#[derive(Clone, Copy, Debug, PartialEq, Eq)]
pub enum RowForm {
    /// `write_row(vec)`: items by value
    Owned,
    /// `write_row(&vec)`: items by reference
    Borrowed,
}

#[derive(Clone, Debug, PartialEq)]
pub enum QOp {
    /// `QueryResultWriter::start(&colsets[i])`
    Start(usize),
    Col(Cell),
    EndRow,
    Row(Vec<Cell>, RowForm),
    Finish,
    FinishOne,
    FinishErr(u16, Vec<u8>),
    CompleteOne(u64, u64),
    Completed(u64, u64),
    Error(u16, Vec<u8>),
    NoMore,
    DropRow,
    DropResult,
    /// first op of a program answering an EXECUTE: how the callback consumes the parameter iterator
    /// (0 = drops the parser unused, 1 = `.count()`, 2 = takes only the first item)
    Params(u8),
    /// the callback returns the shim's own error here, as `?` would: whatever writers are still held go
    /// out of scope (their destructors may write)
    Bail(u64),
    /// `write_col` whose result is recorded but NOT propagated: a backend that recovers from a
    /// refused value (writes a substitute, reports the error to the client, ...) and goes on
    TryCol(Cell),
    /// `write_row`, result recorded, program goes on
    TryRow(Vec<Cell>, RowForm),
    /// `end_row`, result recorded, program goes on
    TryEndRow,
    /// the backend takes its time here (a lazily computed cell, a slow disk): a real pause of that many
    /// milliseconds. The only wall-clock dependence in the harness: verdicts never depend on it, it
    /// only gives time-driven code in the library (timers, deadlines) occasion to run
    Pause(u64),
}
impl QOp {
    /// value-erased shape name
    pub fn shape(&self) -> &'static str {
        match self {
            QOp::Start(_) => "start",
            QOp::Col(_) => "col",
            QOp::EndRow => "end_row",
            QOp::Row(..) => "write_row",
            QOp::Finish => "finish",
            QOp::FinishOne => "finish_one",
            QOp::FinishErr(..) => "finish_error",
            QOp::CompleteOne(..) => "complete_one",
            QOp::Completed(..) => "completed",
            QOp::Error(..) => "error",
            QOp::NoMore => "no_more_results",
            QOp::DropRow => "drop_row_writer",
            QOp::DropResult => "drop_result_writer",
            QOp::Bail(_) => "return_err",
            QOp::Params(_) => "params",
            QOp::TryCol(_) => "try_col",
            QOp::TryRow(..) => "try_write_row",
            QOp::TryEndRow => "try_end_row",
            QOp::Pause(_) => "pause",
        }
    }
}

#[derive(Clone, Copy, Debug, PartialEq, Eq)]
pub enum OnErr {
    /// let the writers go out of scope (what `?` does)
    Drop,
    /// mem::forget them (isolates the error result from destructor behaviour)
    Forget,
}

#[derive(Clone, Debug, PartialEq)]
pub struct QProg {
    pub colsets: Vec<Vec<Column>>,
    pub ops: Vec<QOp>,
    pub on_err: OnErr,
}
impl QProg {
    pub fn completed(n: u64, id: u64) -> QProg {
        QProg { colsets: vec![], ops: vec![QOp::Completed(n, id)], on_err: OnErr::Drop }
    }
}

#[derive(Clone, Debug, PartialEq)]
pub enum Script {
    Q(QProg),
    PrepOk { id: u32, params: Vec<Column>, cols: Vec<Column> },
    PrepErr(u16, Vec<u8>),
    InitOk,
    InitErr(u16, Vec<u8>),
    /// return this error token from the callback without touching the writer
    Fail(u64),
}

// ------------------------------------------------------------------------------------------------
// the log

#[derive(Clone, Debug, PartialEq)]
pub enum Inner {
    Null,
    Bytes(Vec<u8>),
    Int(i64),
    UInt(u64),
    Double(u64),
    Date(Vec<u8>),
    Time(Vec<u8>),
    Datetime(Vec<u8>),
}
#[derive(Clone, Debug, PartialEq)]
pub enum ConvVal {
    I(i128),
    F32(u32),
    F64(u64),
    Bytes(Vec<u8>),
    Str(String),
    Date(NaiveDate),
    DateTime(NaiveDateTime),
    Dur(Duration),
}
#[derive(Clone, Debug, PartialEq)]
pub struct PObs {
    pub coltype: u8,
    pub inner: Inner,
    /// what `Value::is_null()` said
    pub is_null: bool,
    /// (target type name, converted value or panic message)
    pub conv: Vec<(&'static str, Result<ConvVal, String>)>,
}

#[derive(Clone, Debug, PartialEq)]
pub enum CbKind {
    Auth { user: Option<Vec<u8>>, certs: Option<Vec<Vec<u8>>> },
    Query(Vec<u8>),
    Prepare(Vec<u8>),
    Execute { id: u32, params: Vec<PObs> },
    Close(u32),
    Init(Vec<u8>),
}
impl CbKind {
    pub fn name(&self) -> &'static str {
        match self {
            CbKind::Auth { .. } => "after_authentication",
            CbKind::Query(_) => "on_query",
            CbKind::Prepare(_) => "on_prepare",
            CbKind::Execute { .. } => "on_execute",
            CbKind::Close(_) => "on_close",
            CbKind::Init(_) => "on_init",
        }
    }
}

#[derive(Clone, Debug, PartialEq)]
pub struct OpRes {
    pub op: &'static str,
    /// None = Ok; Some((kind, message))
    pub err: Option<(io::ErrorKind, String)>,
}

#[derive(Clone, Debug)]
pub struct Cb {
    pub ev_start: u64,
    pub ev_end: u64,
    pub kind: CbKind,
    pub results: Vec<OpRes>,
    /// the script this callback consumed (index into the case's script list), if any
    pub script: Option<usize>,
    /// script kind did not fit this callback (harness-side mismatch; judged by the monitor)
    pub mismatch: bool,
    /// on_execute did not walk the whole parameter list (the script said so): "ignored" (the parser
    /// was dropped unused), "counted" (`.count()`), "first" (only the first item was taken)
    pub params_consumed: Option<&'static str>,
}

#[derive(Default)]
pub struct ShimLog {
    pub cbs: Vec<Cb>,
    pub tls_config_calls: u32,
}

#[derive(Debug)]
pub enum ShimErr {
    Io(io::Error),
    Token(u64),
}
impl From<io::Error> for ShimErr {
    fn from(e: io::Error) -> Self {
        ShimErr::Io(e)
    }
}

pub struct ScriptShim {
    pub clock: Clock,
    pub log: Rc<RefCell<ShimLog>>,
    pub scripts: VecDeque<(usize, Script)>,
    pub tls: Option<Arc<rustls::ServerConfig>>,
    /// Some(token): after_authentication rejects with this token
    pub auth_reject: Option<u64>,
    /// attempt `T::from(value)` conversions on every parameter
    pub conv: bool,
    /// error texts of up to 200 bytes are formatted into this one buffer before they are handed to
    /// the library (a backend habit: the same address, and often the same length, error after error)
    pub errbuf: Vec<u8>,
}

impl ScriptShim {
    /// the message as the library gets to see it: in the reused buffer if it fits
    fn errtext<'a>(buf: &'a mut Vec<u8>, msg: &'a [u8]) -> &'a [u8] {
        if msg.len() <= 200 {
            buf.clear();
            buf.extend_from_slice(msg);
            &buf[..]
        } else {
            msg
        }
    }
    pub fn new(clock: Clock, scripts: Vec<Script>) -> (ScriptShim, Rc<RefCell<ShimLog>>) {
        let log = Rc::new(RefCell::new(ShimLog::default()));
        (
            ScriptShim {
                clock,
                log: log.clone(),
                scripts: scripts.into_iter().enumerate().collect(),
                tls: None,
                auth_reject: None,
                conv: false,
                errbuf: Vec::with_capacity(256),
            },
            log,
        )
    }
    fn tick(&self) -> u64 {
        let v = self.clock.get() + 1;
        self.clock.set(v);
        v
    }
    fn begin(&mut self, kind: CbKind) -> usize {
        crate::core::beat();
        let ev = self.tick();
        let mut l = self.log.borrow_mut();
        l.cbs.push(Cb { ev_start: ev, ev_end: 0, kind, results: vec![], script: None, mismatch: false, params_consumed: None });
        l.cbs.len() - 1
    }
    fn end(&mut self, i: usize) {
        let ev = self.tick();
        self.log.borrow_mut().cbs[i].ev_end = ev;
    }
    fn res(&self, i: usize, op: &'static str, r: &io::Result<()>) {
        let err = r.as_ref().err().map(|e| (e.kind(), e.to_string()));
        self.log.borrow_mut().cbs[i].results.push(OpRes { op, err });
    }
    fn take_script(&mut self, i: usize) -> Option<Script> {
        let (idx, s) = self.scripts.pop_front()?;
        self.log.borrow_mut().cbs[i].script = Some(idx);
        Some(s)
    }
    fn mismatch(&self, i: usize) {
        self.log.borrow_mut().cbs[i].mismatch = true;
    }

    fn run_qprog<W: Read + Write>(&mut self, i: usize, prog: &QProg, results: QueryResultWriter<'_, W>) -> Result<(), ShimErr> {
        let mut qw: Option<QueryResultWriter<'_, W>> = Some(results);
        let mut rw: Option<RowWriter<'_, W>> = None;
        macro_rules! fail {
            ($e:expr) => {{
                if prog.on_err == OnErr::Forget {
                    std::mem::forget(qw.take());
                    std::mem::forget(rw.take());
                }
                return Err(ShimErr::Io($e));
            }};
        }
        macro_rules! chk {
            ($name:expr, $r:expr) => {{
                let r: io::Result<()> = $r;
                self.res(i, $name, &r);
                if let Err(e) = r {
                    fail!(e)
                }
            }};
        }
        for op in &prog.ops {
            let name = op.shape();
            match op {
                QOp::Start(ci) => {
                    let q = match qw.take() {
                        Some(q) => q,
                        None => return Err(inapplicable(name)),
                    };
                    match q.start(&prog.colsets[*ci]) {
                        Ok(r) => {
                            self.res(i, name, &Ok(()));
                            rw = Some(r);
                        }
                        Err(e) => {
                            self.res(i, name, &Err(io::Error::new(e.kind(), e.to_string())));
                            fail!(e)
                        }
                    }
                }
                QOp::Col(cell) => {
                    let r = match rw.as_mut() {
                        Some(r) => r,
                        None => return Err(inapplicable(name)),
                    };
                    macro_rules! f {
                        ($e:expr) => {
                            r.write_col($e)
                        };
                    }
                    let res = with_cell!(cell, f);
                    chk!(name, res);
                }
                QOp::EndRow => {
                    let r = match rw.as_mut() {
                        Some(r) => r,
                        None => return Err(inapplicable(name)),
                    };
                    chk!(name, r.end_row());
                }
                QOp::Row(cells, form) => {
                    let r = match rw.as_mut() {
                        Some(r) => r,
                        None => return Err(inapplicable(name)),
                    };
                    let res = match form {
                        RowForm::Owned => r.write_row(cells.clone()),
                        RowForm::Borrowed => r.write_row(cells),
                    };
                    chk!(name, res);
                }
                QOp::Finish => {
                    let r = match rw.take() {
                        Some(r) => r,
                        None => return Err(inapplicable(name)),
                    };
                    chk!(name, r.finish());
                }
                QOp::FinishOne => {
                    let r = match rw.take() {
                        Some(r) => r,
                        None => return Err(inapplicable(name)),
                    };
                    match r.finish_one() {
                        Ok(q) => {
                            self.res(i, name, &Ok(()));
                            qw = Some(q);
                        }
                        Err(e) => {
                            self.res(i, name, &Err(io::Error::new(e.kind(), e.to_string())));
                            fail!(e)
                        }
                    }
                }
                QOp::FinishErr(code, msg) => {
                    let r = match rw.take() {
                        Some(r) => r,
                        None => return Err(inapplicable(name)),
                    };
                    let mut eb = std::mem::take(&mut self.errbuf);
                    let text: &[u8] = ScriptShim::errtext(&mut eb, &msg[..]);
                    let res = r.finish_error(ErrorKind::from(*code), &text);
                    self.errbuf = eb;
                    chk!(name, res);
                }
                QOp::CompleteOne(n, id) => {
                    let q = match qw.take() {
                        Some(q) => q,
                        None => return Err(inapplicable(name)),
                    };
                    match q.complete_one(*n, *id) {
                        Ok(q) => {
                            self.res(i, name, &Ok(()));
                            qw = Some(q);
                        }
                        Err(e) => {
                            self.res(i, name, &Err(io::Error::new(e.kind(), e.to_string())));
                            fail!(e)
                        }
                    }
                }
                QOp::Completed(n, id) => {
                    let q = match qw.take() {
                        Some(q) => q,
                        None => return Err(inapplicable(name)),
                    };
                    chk!(name, q.completed(*n, *id));
                }
                QOp::Error(code, msg) => {
                    let q = match qw.take() {
                        Some(q) => q,
                        None => return Err(inapplicable(name)),
                    };
                    let mut eb = std::mem::take(&mut self.errbuf);
                    let r = q.error(ErrorKind::from(*code), ScriptShim::errtext(&mut eb, &msg[..]));
                    self.errbuf = eb;
                    chk!(name, r);
                }
                QOp::NoMore => {
                    let q = match qw.take() {
                        Some(q) => q,
                        None => return Err(inapplicable(name)),
                    };
                    chk!(name, q.no_more_results());
                }
                QOp::DropRow => {
                    if rw.is_none() {
                        return Err(inapplicable(name));
                    }
                    drop(rw.take());
                    self.res(i, name, &Ok(()));
                }
                QOp::DropResult => {
                    if qw.is_none() {
                        return Err(inapplicable(name));
                    }
                    drop(qw.take());
                    self.res(i, name, &Ok(()));
                }
                QOp::Params(_) => {}
                QOp::Pause(ms) => {
                    if !cfg!(miri) {
                        std::thread::sleep(std::time::Duration::from_millis(*ms));
                    }
                }
                QOp::TryCol(cell) => {
                    let r = match rw.as_mut() {
                        Some(r) => r,
                        None => return Err(inapplicable(name)),
                    };
                    macro_rules! f {
                        ($e:expr) => {
                            r.write_col($e)
                        };
                    }
                    let res = with_cell!(cell, f);
                    self.res(i, name, &res);
                }
                QOp::TryRow(cells, form) => {
                    let r = match rw.as_mut() {
                        Some(r) => r,
                        None => return Err(inapplicable(name)),
                    };
                    let res = match form {
                        RowForm::Owned => r.write_row(cells.clone()),
                        RowForm::Borrowed => r.write_row(cells),
                    };
                    self.res(i, name, &res);
                }
                QOp::TryEndRow => {
                    let r = match rw.as_mut() {
                        Some(r) => r,
                        None => return Err(inapplicable(name)),
                    };
                    let res = r.end_row();
                    self.res(i, name, &res);
                }
                QOp::Bail(t) => {
                    self.res(i, name, &Ok(()));
                    drop(rw.take());
                    drop(qw.take());
                    return Err(ShimErr::Token(*t));
                }
            }
        }
        // end of program: whatever is still held goes out of scope here (row writer first)
        drop(rw);
        drop(qw);
        Ok(())
    }
}

fn inapplicable(name: &str) -> ShimErr {
    ShimErr::Io(io::Error::new(io::ErrorKind::Other, format!("vmon-script: operation {} not applicable here", name)))
}

fn panic_msg(p: Box<dyn std::any::Any + Send>) -> String {
    p.downcast_ref::<String>().cloned().or_else(|| p.downcast_ref::<&str>().map(|s| s.to_string())).unwrap_or_else(|| "?".into())
}

fn observe_param(p: ParamValue<'_>, conv: bool) -> PObs {
    let coltype = p.coltype as u8;
    let v = p.value;
    let is_null = v.is_null();
    let inner = match v.into_inner() {
        ValueInner::NULL => Inner::Null,
        ValueInner::Bytes(b) => Inner::Bytes(b.to_vec()),
        ValueInner::Int(i) => Inner::Int(i),
        ValueInner::UInt(u) => Inner::UInt(u),
        ValueInner::Double(d) => Inner::Double(d.to_bits()),
        ValueInner::Date(b) => Inner::Date(b.to_vec()),
        ValueInner::Time(b) => Inner::Time(b.to_vec()),
        ValueInner::Datetime(b) => Inner::Datetime(b.to_vec()),
    };
    let mut out = Vec::new();
    if conv {
        macro_rules! c {
            ($name:expr, $t:ty, $wrap:expr) => {{
                let r = catch_unwind(AssertUnwindSafe(|| {
                    let x: $t = <$t>::from(v);
                    $wrap(x)
                }));
                if r.is_err() {
                    // a conversion panic is an observation, not the run's panic
                    let _ = crate::core::take_panic();
                }
                out.push(($name, r.map_err(panic_msg)));
            }};
        }
        match &inner {
            Inner::Int(_) | Inner::UInt(_) => {
                c!("u8", u8, |x| ConvVal::I(x as i128));
                c!("u16", u16, |x| ConvVal::I(x as i128));
                c!("u32", u32, |x| ConvVal::I(x as i128));
                c!("i8", i8, |x| ConvVal::I(x as i128));
                c!("i16", i16, |x| ConvVal::I(x as i128));
                c!("i32", i32, |x| ConvVal::I(x as i128));
                if matches!(inner, Inner::UInt(_)) {
                    c!("u64", u64, |x| ConvVal::I(x as i128));
                } else {
                    c!("i64", i64, |x| ConvVal::I(x as i128));
                }
            }
            Inner::Double(_) => {
                c!("f32", f32, |x: f32| ConvVal::F32(x.to_bits()));
                c!("f64", f64, |x: f64| ConvVal::F64(x.to_bits()));
            }
            Inner::Bytes(b) => {
                c!("bytes", &[u8], |x: &[u8]| ConvVal::Bytes(x.to_vec()));
                if std::str::from_utf8(b).is_ok() {
                    c!("str", &str, |x: &str| ConvVal::Str(x.to_string()));
                }
            }
            Inner::Date(b) => {
                if b.len() == 4 {
                    c!("date", NaiveDate, ConvVal::Date);
                }
            }
            Inner::Datetime(b) => {
                if matches!(b.len(), 4 | 7 | 11) {
                    c!("datetime", NaiveDateTime, ConvVal::DateTime);
                }
            }
            Inner::Time(b) => {
                if matches!(b.len(), 0 | 8 | 12) && (b.is_empty() || b[0] == 0) {
                    c!("duration", Duration, ConvVal::Dur);
                }
            }
            Inner::Null => {}
        }
    }
    PObs { coltype, inner, is_null, conv: out }
}

impl<W: Read + Write> MysqlShim<W> for ScriptShim {
    type Error = ShimErr;

    fn on_prepare(&mut self, query: &str, info: StatementMetaWriter<'_, W>) -> Result<(), ShimErr> {
        let i = self.begin(CbKind::Prepare(query.as_bytes().to_vec()));
        let r = (|| match self.take_script(i) {
            Some(Script::PrepOk { id, params, cols }) => {
                let r = info.reply(id, &params, &cols);
                self.res(i, "reply", &r);
                r.map_err(ShimErr::Io)
            }
            Some(Script::PrepErr(code, msg)) => {
                let mut eb = std::mem::take(&mut self.errbuf);
                let r = info.error(ErrorKind::from(code), ScriptShim::errtext(&mut eb, &msg[..]));
                self.errbuf = eb;
                self.res(i, "prepare_error", &r);
                r.map_err(ShimErr::Io)
            }
            Some(Script::Fail(t)) => {
                std::mem::forget(info);
                Err(ShimErr::Token(t))
            }
            other => {
                if other.is_some() {
                    self.mismatch(i);
                }
                let r = info.reply(1, &[], &[]);
                self.res(i, "reply", &r);
                r.map_err(ShimErr::Io)
            }
        })();
        self.end(i);
        r
    }

    fn on_execute(&mut self, id: u32, params: ParamParser<'_>, results: QueryResultWriter<'_, W>) -> Result<(), ShimErr> {
        let i = self.begin(CbKind::Execute { id, params: vec![] });
        let conv = self.conv;
        // iterate like any backend would; a panic in the iterator propagates (it is the server's)
        let mut obs = Vec::new();
        let mode = match self.scripts.front() {
            Some((_, Script::Q(prog))) => match prog.ops.first() {
                Some(QOp::Params(m)) => Some(*m),
                _ => None,
            },
            _ => None,
        };
        match mode {
            None => {
                for p in params {
                    obs.push(observe_param(p, conv));
                }
            }
            Some(0) => {
                drop(params);
                self.log.borrow_mut().cbs[i].params_consumed = Some("ignored");
            }
            Some(1) => {
                let _n = params.into_iter().count();
                self.log.borrow_mut().cbs[i].params_consumed = Some("counted");
            }
            Some(2) => {
                if let Some(p) = params.into_iter().next() {
                    obs.push(observe_param(p, conv));
                }
                self.log.borrow_mut().cbs[i].params_consumed = Some("first");
            }
            // the iterator adaptors a backend may reach for (std routes `skip` and `step_by` through
            // `Iterator::nth`, `last` through `fold`): the items they yield are the parameters at those
            // positions
            Some(3) => {
                if let Some(p) = params.into_iter().nth(1) {
                    obs.push(observe_param(p, conv));
                }
                self.log.borrow_mut().cbs[i].params_consumed = Some("nth1");
            }
            Some(4) => {
                for p in params.into_iter().skip(1) {
                    obs.push(observe_param(p, conv));
                }
                self.log.borrow_mut().cbs[i].params_consumed = Some("skip1");
            }
            Some(5) => {
                for p in params.into_iter().step_by(2) {
                    obs.push(observe_param(p, conv));
                }
                self.log.borrow_mut().cbs[i].params_consumed = Some("step2");
            }
            Some(6) => {
                if let Some(p) = params.into_iter().last() {
                    obs.push(observe_param(p, conv));
                }
                self.log.borrow_mut().cbs[i].params_consumed = Some("last");
            }
            Some(_) => {
                let mut it = params.into_iter();
                if let Some(p) = it.nth(2) {
                    obs.push(observe_param(p, conv));
                }
                for p in it {
                    obs.push(observe_param(p, conv));
                }
                self.log.borrow_mut().cbs[i].params_consumed = Some("nth2-then-rest");
            }
        }
        if let CbKind::Execute { params, .. } = &mut self.log.borrow_mut().cbs[i].kind {
            *params = obs;
        }
        let r = self.answer_query(i, results);
        self.end(i);
        r
    }

    fn on_close(&mut self, stmt: u32) {
        let i = self.begin(CbKind::Close(stmt));
        self.end(i);
    }

    fn on_query(&mut self, query: &str, results: QueryResultWriter<'_, W>) -> Result<(), ShimErr> {
        let i = self.begin(CbKind::Query(query.as_bytes().to_vec()));
        let r = self.answer_query(i, results);
        self.end(i);
        r
    }

    fn on_init(&mut self, schema: &str, w: InitWriter<'_, W>) -> Result<(), ShimErr> {
        let i = self.begin(CbKind::Init(schema.as_bytes().to_vec()));
        let r = (|| match self.take_script(i) {
            Some(Script::InitErr(code, msg)) => {
                let mut eb = std::mem::take(&mut self.errbuf);
                let r = w.error(ErrorKind::from(code), ScriptShim::errtext(&mut eb, &msg[..]));
                self.errbuf = eb;
                self.res(i, "init_error", &r);
                r.map_err(ShimErr::Io)
            }
            Some(Script::Fail(t)) => Err(ShimErr::Token(t)),
            other => {
                if !matches!(other, Some(Script::InitOk) | None) {
                    self.mismatch(i);
                }
                let r = w.ok();
                self.res(i, "init_ok", &r);
                r.map_err(ShimErr::Io)
            }
        })();
        self.end(i);
        r
    }

    #[cfg(feature = "tls")]
    fn tls_config(&self) -> Option<Arc<rustls::ServerConfig>> {
        self.log.borrow_mut().tls_config_calls += 1;
        self.tls.clone()
    }

    fn after_authentication(&mut self, ctx: &AuthenticationContext<'_>) -> Result<(), ShimErr> {
        #[cfg(feature = "tls")]
        let certs = ctx.tls_client_certs.map(|cs| cs.iter().map(|c| c.as_ref().to_vec()).collect());
        #[cfg(not(feature = "tls"))]
        let certs = None;
        let i = self.begin(CbKind::Auth { user: ctx.username.clone(), certs });
        self.end(i);
        match self.auth_reject {
            Some(t) => Err(ShimErr::Token(t)),
            None => Ok(()),
        }
    }
}

impl ScriptShim {
    fn answer_query<W: Read + Write>(&mut self, i: usize, results: QueryResultWriter<'_, W>) -> Result<(), ShimErr> {
        match self.take_script(i) {
            Some(Script::Q(prog)) => self.run_qprog(i, &prog, results),
            Some(Script::Fail(t)) => {
                std::mem::forget(results);
                Err(ShimErr::Token(t))
            }
            other => {
                if other.is_some() {
                    self.mismatch(i);
                }
                let r = results.completed(0, 0);
                self.res(i, "completed", &r);
                r.map_err(ShimErr::Io)
            }
        }
    }
}

/// Same backend, but `on_init` is *not* overridden: exercises the trait's default implementation.
pub struct DefaultInitShim(pub ScriptShim);

impl<W: Read + Write> MysqlShim<W> for DefaultInitShim {
    type Error = ShimErr;
    fn on_prepare(&mut self, q: &str, info: StatementMetaWriter<'_, W>) -> Result<(), ShimErr> {
        self.0.on_prepare(q, info)
    }
    fn on_execute(&mut self, id: u32, p: ParamParser<'_>, r: QueryResultWriter<'_, W>) -> Result<(), ShimErr> {
        self.0.on_execute(id, p, r)
    }
    fn on_close(&mut self, stmt: u32) {
        <ScriptShim as MysqlShim<W>>::on_close(&mut self.0, stmt)
    }
    fn on_query(&mut self, q: &str, r: QueryResultWriter<'_, W>) -> Result<(), ShimErr> {
        self.0.on_query(q, r)
    }
    #[cfg(feature = "tls")]
    fn tls_config(&self) -> Option<Arc<rustls::ServerConfig>> {
        <ScriptShim as MysqlShim<W>>::tls_config(&self.0)
    }
    fn after_authentication(&mut self, ctx: &AuthenticationContext<'_>) -> Result<(), ShimErr> {
        <ScriptShim as MysqlShim<W>>::after_authentication(&mut self.0, ctx)
    }
}

/// Only the four required methods: `on_init`, `tls_config` and `after_authentication` are the
/// trait's own defaults (no TLS offered, every login accepted, every database switch accepted).
pub struct MinimalShim(pub ScriptShim);

impl<W: Read + Write> MysqlShim<W> for MinimalShim {
    type Error = ShimErr;
    fn on_prepare(&mut self, q: &str, info: StatementMetaWriter<'_, W>) -> Result<(), ShimErr> {
        self.0.on_prepare(q, info)
    }
    fn on_execute(&mut self, id: u32, p: ParamParser<'_>, r: QueryResultWriter<'_, W>) -> Result<(), ShimErr> {
        self.0.on_execute(id, p, r)
    }
    fn on_close(&mut self, stmt: u32) {
        <ScriptShim as MysqlShim<W>>::on_close(&mut self.0, stmt)
    }
    fn on_query(&mut self, q: &str, r: QueryResultWriter<'_, W>) -> Result<(), ShimErr> {
        self.0.on_query(q, r)
    }
}

pub fn col(table: &str, name: &str, t: ColumnType, flags: ColumnFlags) -> Column {
    Column { table: table.to_string(), column: name.to_string(), coltype: t, colflags: flags }
}
