//! Second opinion: mysql_common's packet deserializers (msql-srv uses mysql_common only for constants
//! and the lenenc *writers*, so these parsers are independent of the code under test).
//! A disagreement between `wire` and these on the decoded values is a harness error, not a violation.
use crate::wire;
use myc::constants::{CapabilityFlags, ColumnFlags, ColumnType};
use myc::io::ParseBuf;
use myc::packets::{Column, CommonOkPacket, ErrPacket, HandshakePacket, OkPacketDeserializer};
use myc::proto::MyDeserialize;
use myc::value::{BinValue, TextValue, Value, ValueDeserializer};
use mysql_common as myc;

fn caps41() -> CapabilityFlags {
    CapabilityFlags::CLIENT_PROTOCOL_41
}

pub fn greeting(b: &[u8]) -> Result<(u8, u32, Vec<u8>), String> {
    let mut pb = ParseBuf(b);
    let h = HandshakePacket::deserialize((), &mut pb).map_err(|e| e.to_string())?;
    Ok((h.protocol_version(), h.capabilities().bits(), h.server_version_ref().to_vec()))
}

pub fn ok(b: &[u8]) -> Result<(u64, u64, u16, u16), String> {
    let mut pb = ParseBuf(b);
    let o = OkPacketDeserializer::<CommonOkPacket>::deserialize(caps41(), &mut pb).map_err(|e| e.to_string())?.into_inner();
    Ok((o.affected_rows(), o.last_insert_id().unwrap_or(0), o.status_flags().bits(), o.warnings()))
}

pub fn err(b: &[u8]) -> Result<(u16, [u8; 5], Vec<u8>), String> {
    let mut pb = ParseBuf(b);
    match ErrPacket::deserialize(caps41(), &mut pb).map_err(|e| e.to_string())? {
        ErrPacket::Error(e) => Ok((e.error_code(), e.sql_state_ref(), e.message_ref().to_vec())),
        ErrPacket::Progress(_) => Err("parsed as progress report".into()),
    }
}

pub fn column(b: &[u8]) -> Result<(Vec<u8>, Vec<u8>, u8, u16), String> {
    let mut pb = ParseBuf(b);
    let c = Column::deserialize((), &mut pb).map_err(|e| e.to_string())?;
    Ok((c.table_ref().to_vec(), c.name_ref().to_vec(), c.column_type() as u8, c.flags().bits()))
}

pub fn text_row(b: &[u8], ncols: usize) -> Result<Vec<Value>, String> {
    let mut pb = ParseBuf(b);
    let mut out = Vec::new();
    for _ in 0..ncols {
        out.push(ValueDeserializer::<TextValue>::deserialize((), &mut pb).map_err(|e| e.to_string())?.0);
    }
    if !pb.0.is_empty() {
        return Err(format!("{} trailing bytes", pb.0.len()));
    }
    Ok(out)
}

/// One binary value given (type, flags); advances `b`.
pub fn bin_value(b: &mut &[u8], typ: u8, flags: u16) -> Result<Value, String> {
    let ct = ColumnType::try_from(typ).map_err(|e| format!("{:?}", e))?;
    let mut pb = ParseBuf(*b);
    let v = ValueDeserializer::<BinValue>::deserialize((ct, ColumnFlags::from_bits_truncate(flags)), &mut pb).map_err(|e| e.to_string())?.0;
    *b = pb.0;
    Ok(v)
}

/// Compare wire's decoding of a binary value with mysql_common's.
pub fn bin_agrees(w: &wire::BinVal, m: &Value) -> bool {
    match (w, m) {
        (wire::BinVal::Null, Value::NULL) => true,
        (wire::BinVal::Int(i), Value::Int(j)) => *i == *j as i128,
        (wire::BinVal::Int(i), Value::UInt(j)) => *i == *j as i128,
        (wire::BinVal::F32(a), Value::Float(f)) => *a == f.to_bits(),
        (wire::BinVal::F64(a), Value::Double(f)) => *a == f.to_bits(),
        (wire::BinVal::Bytes(a), Value::Bytes(b)) => a == b,
        (wire::BinVal::Date { y, mo, d, h, mi, s, us, .. }, Value::Date(y2, mo2, d2, h2, mi2, s2, us2)) => (y, mo, d, h, mi, s, us) == (y2, mo2, d2, h2, mi2, s2, us2),
        (wire::BinVal::Time { neg, d, h, mi, s, us, .. }, Value::Time(n2, d2, h2, mi2, s2, us2)) => (neg, d, h, mi, s, us) == (n2, d2, h2, mi2, s2, us2),
        _ => false,
    }
}

pub fn selfcheck() -> Result<(), String> {
    // wire-encoded packets must be read identically by both decoders
    let okb = [0u8, 0xFC, 0x2C, 0x01, 0xFE, 1, 2, 3, 4, 5, 6, 7, 8, 0x08, 0x00, 0x00, 0x00];
    let a = wire::parse_ok(&okb)?;
    let b = ok(&okb)?;
    if (a.affected, a.last_id, a.status, a.warnings) != b {
        return Err(format!("OK decoders disagree: {:?} vs {:?}", a, b));
    }
    let eb = b"\xff\x28\x04#42S02no such table";
    let a = wire::parse_err(eb)?;
    let b = err(eb)?;
    if (a.code, a.state, a.msg.clone()) != b {
        return Err("ERR decoders disagree".into());
    }
    let mut cd = Vec::new();
    for s in [&b"def"[..], b"", b"tbl", b"", b"col", b""] {
        wire::put_lenenc_str(&mut cd, s);
    }
    cd.extend_from_slice(&[0x0c, 0x21, 0, 0, 4, 0, 0, wire::T_LONG, 0x21, 0x00, 0, 0, 0]);
    let a = wire::parse_coldef(&cd, false)?;
    let b = column(&cd)?;
    if (a.table.clone(), a.name.clone(), a.typ, a.flags) != b {
        return Err("column decoders disagree".into());
    }
    let mut row = &[0xFFu8, 0xFF, 0xFF, 0xFF][..];
    let m = bin_value(&mut row, wire::T_LONG, 0)?;
    let mut r = wire::Rd::new(&[0xFF, 0xFF, 0xFF, 0xFF]);
    let w = wire::decode_bin_value(&mut r, wire::T_LONG, 0)?;
    if !bin_agrees(&w, &m) {
        return Err("bin value decoders disagree".into());
    }
    Ok(())
}
