//! The controlled world below the server: an in-memory `Read + Write` transport that decides every
//! read() size, when written bytes become visible (only on flush), short writes, injected faults and
//! end-of-stream, and logs every operation with a global event number shared with the shim log.
use crate::wire::{self, Kind};
use std::cell::{Cell, RefCell};
use std::io::{self, Read, Write};
use std::rc::Rc;

#[derive(Clone, Debug, Default)]
pub struct Sched {
    /// absolute input offsets at which a read must end (sorted, deduplicated)
    pub cuts: Vec<usize>,
    /// cyclic list of maximum read sizes; empty = unlimited
    pub cycle: Vec<usize>,
}
impl Sched {
    pub fn all() -> Self {
        Sched::default()
    }
    pub fn fixed(k: usize) -> Self {
        Sched { cuts: vec![], cycle: vec![k] }
    }
    pub fn describe(&self) -> String {
        let c = if self.cycle.is_empty() {
            "max=inf".to_string()
        } else if self.cycle.len() <= 6 {
            format!("cycle={:?}", self.cycle)
        } else {
            format!("cycle[{}]={:?}..", self.cycle.len(), &self.cycle[..6])
        };
        if self.cuts.is_empty() {
            c
        } else if self.cuts.len() <= 8 {
            format!("{} cuts={:?}", c, self.cuts)
        } else {
            format!("{} cuts[{}]={:?}..", c, self.cuts.len(), &self.cuts[..8])
        }
    }
}

#[derive(Clone, Debug, Default)]
pub struct Fault {
    /// the client's stream ends after this many bytes
    pub eof_after: Option<usize>,
    /// inject an io::Error at this global transport-operation index (0-based over read/write/flush)
    pub err_at: Option<u64>,
    /// ... and at every operation after it
    pub persistent: bool,
    pub err_kind: u8,
}

/// Interactive arrival: input bytes beyond `upto` are withheld until the client has seen at least
/// `need` complete responses (greeting = response 1).
#[derive(Clone, Debug)]
pub struct Gate {
    pub upto: usize,
    pub need: usize,
}

#[derive(Clone, Debug)]
pub struct ReadRec {
    pub ev: u64,
    pub pos: usize,
    pub n: usize,
    pub pending: usize,
    pub visible: usize,
}

#[derive(Clone, Copy, Debug, PartialEq, Eq)]
pub enum OpKind {
    Read,
    Write,
    Flush,
}

/// Global event counter shared by the transport and the shim log.
pub type Clock = Rc<Cell<u64>>;

pub struct World {
    pub clock: Clock,
    pub input: Vec<u8>,
    pub pos: usize,
    pub sched: Sched,
    pub gates: Vec<Gate>,
    pub kinds: Vec<Kind>,
    pub pending: Vec<u8>,
    pub visible: Vec<u8>,
    pub write_limit: usize,
    pub fault: Fault,
    pub nread: u64,
    pub nwrite: u64,
    pub nflush: u64,
    pub nops: u64,
    pub budget_ops: u64,
    pub eof_reads: u32,
    pub wedged: bool,
    /// server called read() while the lock-step client was still waiting for a reply
    pub deadlock: Option<ReadRec>,
    pub fault_ev: Option<u64>,
    pub fault_op: Option<OpKind>,
    /// (operation index, bytes visible to the client afterwards) of every successful flush (first 4096)
    pub flush_log: Vec<(u64, usize)>,
    /// operation index of the last read() the server issued
    pub last_read_idx: Option<u64>,
    pub read_log: Vec<ReadRec>,
    pub log_reads: bool,
    pub write_sizes_max: usize,
    /// (read index, seed): at that read() of the server another thread serves a whole other connection
    pub interlope: Option<(u64, u64)>,
    /// cache for count_complete
    gate_cache: (usize, usize),
}

impl World {
    pub fn new(input: Vec<u8>) -> World {
        World {
            clock: Rc::new(Cell::new(0)),
            input,
            pos: 0,
            sched: Sched::all(),
            gates: vec![],
            kinds: vec![],
            pending: vec![],
            visible: vec![],
            write_limit: usize::MAX,
            interlope: None,
            fault: Fault::default(),
            nread: 0,
            nwrite: 0,
            nflush: 0,
            nops: 0,
            budget_ops: 0,
            eof_reads: 0,
            wedged: false,
            deadlock: None,
            fault_ev: None,
            fault_op: None,
            flush_log: vec![],
            last_read_idx: None,
            read_log: vec![],
            log_reads: true,
            write_sizes_max: 0,
            gate_cache: (usize::MAX, 0),
        }
    }
    pub fn tick(&mut self) -> u64 {
        let v = self.clock.get() + 1;
        self.clock.set(v);
        v
    }
    fn inject(&mut self, op: OpKind) -> Option<io::Error> {
        crate::core::beat();
        let idx = self.nops;
        self.nops += 1;
        if self.budget_ops != 0 && self.nops > self.budget_ops {
            self.wedged = true;
            return Some(io::Error::new(io::ErrorKind::Other, "vmon: operation budget exhausted"));
        }
        if let Some(k) = self.fault.err_at {
            if idx == k || (self.fault.persistent && idx > k) {
                if self.fault_ev.is_none() {
                    self.fault_ev = Some(self.clock.get());
                    self.fault_op = Some(op);
                }
                let kind = match self.fault.err_kind {
                    // what a signal, a non-blocking socket or a socket timeout hand to a blocking reader
                    100 => io::ErrorKind::Interrupted,
                    101 => io::ErrorKind::WouldBlock,
                    102 => io::ErrorKind::TimedOut,
                    k => match k % 3 {
                    0 => io::ErrorKind::BrokenPipe,
                    1 => io::ErrorKind::ConnectionReset,
                    _ => io::ErrorKind::Other,
                    },
                };
                return Some(io::Error::new(kind, "vmon: injected transport fault"));
            }
        }
        None
    }
    fn released(&mut self) -> usize {
        // how many input bytes the client has produced so far
        let mut lim = self.input.len();
        if let Some(e) = self.fault.eof_after {
            lim = lim.min(e);
        }
        if self.gates.is_empty() {
            return lim;
        }
        let have = if self.gate_cache.0 == self.visible.len() {
            self.gate_cache.1
        } else {
            let c = wire::count_complete(&self.kinds, &self.visible);
            self.gate_cache = (self.visible.len(), c);
            c
        };
        for g in &self.gates {
            if have < g.need {
                return lim.min(g.upto);
            }
        }
        lim
    }
    /// true if the client has nothing more to say, ever (end of script / eof_after reached)
    fn at_script_end(&self) -> bool {
        let mut lim = self.input.len();
        if let Some(e) = self.fault.eof_after {
            lim = lim.min(e);
        }
        self.pos >= lim
    }
}

#[derive(Clone)]
pub struct MemTransport(pub Rc<RefCell<World>>);

impl Read for MemTransport {
    fn read(&mut self, buf: &mut [u8]) -> io::Result<usize> {
        let fire = {
            let mut w = self.0.borrow_mut();
            match w.interlope {
                Some((k, seed)) if k == w.nread + 1 => {
                    w.interlope = None;
                    Some(seed)
                }
                _ => None,
            }
        };
        if let Some(seed) = fire {
            crate::core::run_interloper(seed);
        }
        let mut w = self.0.borrow_mut();
        let ev = w.tick();
        if let Some(e) = w.inject(OpKind::Read) {
            return Err(e);
        }
        w.nread += 1;
        w.last_read_idx = Some(w.nops - 1);
        let rel = w.released();
        let avail = rel.saturating_sub(w.pos);
        let rec = ReadRec { ev, pos: w.pos, n: 0, pending: w.pending.len(), visible: w.visible.len() };
        if avail == 0 && !w.at_script_end() {
            // the client is waiting for a reply it has not been given: nothing can ever arrive
            w.deadlock = Some(rec.clone());
            if w.log_reads {
                w.read_log.push(rec);
            }
            return Err(io::Error::new(io::ErrorKind::TimedOut, "vmon: deadlock - server reads while client awaits reply"));
        }
        let mut n = avail.min(buf.len());
        if !w.sched.cycle.is_empty() {
            let k = w.sched.cycle[(w.nread as usize - 1) % w.sched.cycle.len()].max(1);
            n = n.min(k);
        }
        if !w.sched.cuts.is_empty() {
            let pos = w.pos;
            let i = w.sched.cuts.partition_point(|&c| c <= pos);
            if let Some(&c) = w.sched.cuts.get(i) {
                n = n.min(c - pos);
            }
        }
        if n == 0 {
            w.eof_reads += 1;
            if w.eof_reads > 1000 {
                w.wedged = true;
                return Err(io::Error::new(io::ErrorKind::Other, "vmon: >1000 reads at end of stream"));
            }
        }
        let p = w.pos;
        buf[..n].copy_from_slice(&w.input[p..p + n]);
        w.pos += n;
        if w.log_reads {
            w.read_log.push(ReadRec { n, ..rec });
        }
        Ok(n)
    }
}

impl Write for MemTransport {
    fn write(&mut self, buf: &[u8]) -> io::Result<usize> {
        let mut w = self.0.borrow_mut();
        w.tick();
        if let Some(e) = w.inject(OpKind::Write) {
            return Err(e);
        }
        w.nwrite += 1;
        let n = buf.len().min(w.write_limit);
        w.pending.extend_from_slice(&buf[..n]);
        if n > w.write_sizes_max {
            w.write_sizes_max = n;
        }
        Ok(n)
    }
    fn flush(&mut self) -> io::Result<()> {
        let mut w = self.0.borrow_mut();
        w.tick();
        if let Some(e) = w.inject(OpKind::Flush) {
            return Err(e);
        }
        w.nflush += 1;
        let w = &mut *w;
        if w.visible.is_empty() {
            std::mem::swap(&mut w.visible, &mut w.pending);
        } else {
            w.visible.append(&mut w.pending);
        }
        if w.flush_log.len() < 4096 {
            w.flush_log.push((w.nops - 1, w.visible.len()));
        }
        Ok(())
    }
}
