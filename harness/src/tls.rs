//! A real TLS peer inside `read()`/`write()`: the transport hosts a `rustls::ClientConnection`.
//! The transport decides how the client's raw bytes (SSLRequest packet + TLS records) are cut into
//! read() results, records every raw byte in both directions and the decrypted server output.
use crate::transport::Clock;
use rustls::pki_types::{CertificateDer, PrivateKeyDer, ServerName, UnixTime};
use std::cell::RefCell;
use std::io::{self, Read, Write};
use std::rc::Rc;
use std::sync::Arc;

#[derive(Debug)]
struct NoVerify;
impl rustls::client::danger::ServerCertVerifier for NoVerify {
    fn verify_server_cert(&self, _: &CertificateDer<'_>, _: &[CertificateDer<'_>], _: &ServerName<'_>, _: &[u8], _: UnixTime) -> Result<rustls::client::danger::ServerCertVerified, rustls::Error> {
        Ok(rustls::client::danger::ServerCertVerified::assertion())
    }
    fn verify_tls12_signature(&self, _: &[u8], _: &CertificateDer<'_>, _: &rustls::DigitallySignedStruct) -> Result<rustls::client::danger::HandshakeSignatureValid, rustls::Error> {
        Ok(rustls::client::danger::HandshakeSignatureValid::assertion())
    }
    fn verify_tls13_signature(&self, _: &[u8], _: &CertificateDer<'_>, _: &rustls::DigitallySignedStruct) -> Result<rustls::client::danger::HandshakeSignatureValid, rustls::Error> {
        Ok(rustls::client::danger::HandshakeSignatureValid::assertion())
    }
    fn supported_verify_schemes(&self) -> Vec<rustls::SignatureScheme> {
        rustls::crypto::ring::default_provider().signature_verification_algorithms.supported_schemes()
    }
}

/// Certificates and server configurations, generated once per process.
#[derive(Clone)]
pub struct TlsMaterial {
    /// client certificates optional
    pub server_optional: Arc<rustls::ServerConfig>,
    /// client certificate required
    pub server_required: Arc<rustls::ServerConfig>,
    /// no client authentication at all
    pub server_noauth: Arc<rustls::ServerConfig>,
    pub client_cert_der: Vec<u8>,
    pub client_key_der: Vec<u8>,
    /// client certificates optional; trusts only the root of `client_chain_der`'s chain
    pub server_chain_optional: Arc<rustls::ServerConfig>,
    /// what a client with an issued certificate presents: [its own certificate, the intermediate CA]
    pub client_chain_der: Vec<Vec<u8>>,
    pub client_chain_key_der: Vec<u8>,
}

impl TlsMaterial {
    pub fn generate() -> Result<TlsMaterial, String> {
        if !cfg!(feature = "tls") {
            // the library under test was built without its `tls` feature: no shim offers TLS, every
            // TLS workload is skipped (the same paths as under Miri)
            return Err("the harness was built against msql-srv without its tls feature".into());
        }
        let scert = rcgen::generate_simple_self_signed(vec!["localhost".to_string()]).map_err(|e| e.to_string())?;
        let ccert = rcgen::generate_simple_self_signed(vec!["vmon-client".to_string()]).map_err(|e| e.to_string())?;
        let s_der = scert.serialize_der().map_err(|e| e.to_string())?;
        let s_key = scert.serialize_private_key_der();
        let c_der = ccert.serialize_der().map_err(|e| e.to_string())?;
        let c_key = ccert.serialize_private_key_der();
        let mk = |mode: u8| -> Result<Arc<rustls::ServerConfig>, String> {
            let b = rustls::ServerConfig::builder();
            let b = if mode == 2 {
                b.with_no_client_auth()
            } else {
                let mut roots = rustls::RootCertStore::empty();
                roots.add(CertificateDer::from(c_der.clone())).map_err(|e| e.to_string())?;
                let vb = rustls::server::WebPkiClientVerifier::builder(Arc::new(roots));
                let v = if mode == 0 { vb.allow_unauthenticated().build() } else { vb.build() }.map_err(|e| e.to_string())?;
                b.with_client_cert_verifier(v)
            };
            let cfg = b.with_single_cert(vec![CertificateDer::from(s_der.clone())], PrivateKeyDer::Pkcs8(s_key.clone().into())).map_err(|e| e.to_string())?;
            Ok(Arc::new(cfg))
        };
        // root CA -> intermediate CA -> client certificate; the server trusts the root only
        let ca = |name: &str| -> Result<rcgen::Certificate, String> {
            let mut p = rcgen::CertificateParams::new(Vec::<String>::new());
            p.is_ca = rcgen::IsCa::Ca(rcgen::BasicConstraints::Unconstrained);
            p.distinguished_name.push(rcgen::DnType::CommonName, name);
            p.key_usages = vec![rcgen::KeyUsagePurpose::KeyCertSign, rcgen::KeyUsagePurpose::DigitalSignature, rcgen::KeyUsagePurpose::CrlSign];
            rcgen::Certificate::from_params(p).map_err(|e| e.to_string())
        };
        let root = ca("vmon root CA")?;
        let inter = ca("vmon intermediate CA")?;
        let mut lp = rcgen::CertificateParams::new(vec!["vmon-issued-client".to_string()]);
        lp.distinguished_name.push(rcgen::DnType::CommonName, "vmon issued client");
        lp.extended_key_usages = vec![rcgen::ExtendedKeyUsagePurpose::ClientAuth];
        let leaf = rcgen::Certificate::from_params(lp).map_err(|e| e.to_string())?;
        let root_der = root.serialize_der().map_err(|e| e.to_string())?;
        let inter_der = inter.serialize_der_with_signer(&root).map_err(|e| e.to_string())?;
        let leaf_der = leaf.serialize_der_with_signer(&inter).map_err(|e| e.to_string())?;
        let chain_cfg = {
            let mut roots = rustls::RootCertStore::empty();
            roots.add(CertificateDer::from(root_der)).map_err(|e| e.to_string())?;
            let v = rustls::server::WebPkiClientVerifier::builder(Arc::new(roots)).allow_unauthenticated().build().map_err(|e| e.to_string())?;
            let cfg = rustls::ServerConfig::builder().with_client_cert_verifier(v).with_single_cert(vec![CertificateDer::from(s_der.clone())], PrivateKeyDer::Pkcs8(s_key.clone().into())).map_err(|e| e.to_string())?;
            Arc::new(cfg)
        };
        Ok(TlsMaterial {
            server_optional: mk(0)?,
            server_required: mk(1)?,
            server_noauth: mk(2)?,
            client_cert_der: c_der,
            client_key_der: c_key,
            server_chain_optional: chain_cfg,
            client_chain_der: vec![leaf_der, inter_der],
            client_chain_key_der: leaf.serialize_private_key_der(),
        })
    }

    /// A client that presents its issued certificate together with the intermediate CA.
    pub fn client_config_chain(&self, tls13: bool) -> Result<Arc<rustls::ClientConfig>, String> {
        let versions: &[&rustls::SupportedProtocolVersion] = if tls13 { &[&rustls::version::TLS13] } else { &[&rustls::version::TLS12] };
        let b = rustls::ClientConfig::builder_with_protocol_versions(versions).dangerous().with_custom_certificate_verifier(Arc::new(NoVerify));
        let chain: Vec<CertificateDer<'static>> = self.client_chain_der.iter().map(|d| CertificateDer::from(d.clone())).collect();
        let cfg = b.with_client_auth_cert(chain, PrivateKeyDer::Pkcs8(self.client_chain_key_der.clone().into())).map_err(|e| e.to_string())?;
        Ok(Arc::new(cfg))
    }

    pub fn client_config(&self, tls13: bool, with_cert: bool) -> Result<Arc<rustls::ClientConfig>, String> {
        let versions: &[&rustls::SupportedProtocolVersion] = if tls13 { &[&rustls::version::TLS13] } else { &[&rustls::version::TLS12] };
        let b = rustls::ClientConfig::builder_with_protocol_versions(versions).dangerous().with_custom_certificate_verifier(Arc::new(NoVerify));
        let cfg = if with_cert {
            b.with_client_auth_cert(vec![CertificateDer::from(self.client_cert_der.clone())], PrivateKeyDer::Pkcs8(self.client_key_der.clone().into())).map_err(|e| e.to_string())?
        } else {
            b.with_no_client_auth()
        };
        Ok(Arc::new(cfg))
    }
}

#[derive(PartialEq, Debug, Clone, Copy)]
pub enum St {
    WaitGreeting,
    Handshaking,
    Established,
    Closed,
}

pub struct TlsWorld {
    pub clock: Clock,
    pub conn: rustls::ClientConnection,
    pub st: St,
    /// SSLRequest payload
    pub sslreq: Vec<u8>,
    /// sequence id of the SSLRequest packet (1 for ordinary clients)
    pub ssl_seq: u8,
    /// plaintext the client sends once the TLS session is up (handshake response + commands)
    pub app_script: Vec<u8>,
    /// end offsets of the pieces of `app_script` the client hands to its TLS layer one write at a
    /// time (each write becomes its own record); empty = everything in one write
    pub app_chunks: Vec<usize>,
    /// the n-th write() of the server (0-based) fails once with this error kind (100 Interrupted,
    /// 101 WouldBlock, 102 TimedOut) before taking any bytes
    pub write_fault: Option<(u64, u8)>,
    pub nwrite: u64,
    pub write_fault_hit: bool,
    /// written bytes reach the client at flush() only
    pub buffer_writes: bool,
    pub unflushed: Vec<u8>,
    /// reads that found written-but-unflushed bytes while the client had nothing more to send
    pub reads_with_unflushed_output: u64,
    pub bytes_delivered_at_close: u64,
    /// garbage to send instead of a ClientHello (malformed-input workloads)
    pub instead_of_hello: Option<Vec<u8>>,
    /// stop sending after this many raw client bytes (truncated ClientHello etc.)
    pub raw_limit: Option<usize>,
    /// send close_notify before ending the stream
    pub close_notify: bool,
    // client -> server
    pub to_server: Vec<u8>,
    pub client_raw: Vec<u8>,
    pub served: usize,
    /// offset in client_raw where TLS bytes begin (just after the SSLRequest packet)
    pub tls_from: usize,
    /// read schedule: the first read delivers exactly `first_cut` bytes (0 = no constraint), later
    /// reads at most cycle[i] bytes
    pub first_cut: usize,
    pub cycle: Vec<usize>,
    pub write_limit: usize,
    pub reads: Vec<(usize, usize)>,
    pub nread: u64,
    pub nops: u64,
    pub budget_ops: u64,
    // server -> client
    pub greeting_raw: Vec<u8>,
    pub server_raw_after: Vec<u8>,
    pub app_in: Vec<u8>,
    pub client_error: Option<String>,
    pub deadlock: bool,
    pub wedged: bool,
    pub eof_reads: u32,
    pub sent_app: bool,
    pub eager_close: bool,
    pub closed_eagerly: bool,
    /// the handshake response the client sent inside TLS (payload)
    pub inner_handshake: Vec<u8>,
    server_rec_buf: Vec<u8>,
    /// the server's close_notify has arrived: nothing behind it counts
    pub server_closed_tls: bool,
    pub bytes_ignored_after_server_close_notify: u64,
}

impl TlsWorld {
    pub fn new(conn: rustls::ClientConnection, sslreq: Vec<u8>, app_script: Vec<u8>) -> TlsWorld {
        TlsWorld {
            clock: Rc::new(std::cell::Cell::new(0)),
            conn,
            st: St::WaitGreeting,
            sslreq,
            ssl_seq: 1,
            app_script,
            app_chunks: vec![],
            write_fault: None,
            nwrite: 0,
            write_fault_hit: false,
            buffer_writes: false,
            unflushed: vec![],
            reads_with_unflushed_output: 0,
            bytes_delivered_at_close: 0,
            instead_of_hello: None,
            raw_limit: None,
            close_notify: true,
            to_server: vec![],
            client_raw: vec![],
            served: 0,
            tls_from: 0,
            first_cut: 0,
            cycle: vec![],
            write_limit: usize::MAX,
            reads: vec![],
            nread: 0,
            nops: 0,
            budget_ops: 2_000_000,
            greeting_raw: vec![],
            server_raw_after: vec![],
            app_in: vec![],
            client_error: None,
            deadlock: false,
            wedged: false,
            eof_reads: 0,
            sent_app: false,
            eager_close: false,
            closed_eagerly: false,
            inner_handshake: vec![],
            server_rec_buf: vec![],
            server_closed_tls: false,
            bytes_ignored_after_server_close_notify: 0,
        }
    }
    fn tick(&mut self) {
        crate::core::beat();
        self.clock.set(self.clock.get() + 1);
        self.nops += 1;
    }
    fn queue(&mut self, b: &[u8]) {
        let mut b = b;
        if let Some(l) = self.raw_limit {
            let room = l.saturating_sub(self.client_raw.len());
            b = &b[..b.len().min(room)];
        }
        self.to_server.extend_from_slice(b);
        self.client_raw.extend_from_slice(b);
    }
    fn drain_tls(&mut self) {
        let mut buf = Vec::new();
        while self.conn.wants_write() {
            if self.conn.write_tls(&mut buf).is_err() {
                break;
            }
        }
        if !buf.is_empty() {
            self.queue(&buf);
        }
    }
    /// The server wants input and nothing is queued: let the client act.
    fn pump(&mut self) {
        match self.st {
            St::WaitGreeting => {
                if self.greeting_raw.len() <= 4 {
                    return; // no greeting yet: server reads before greeting -> deadlock
                }
                let pkt = crate::wire::raw_packet(&self.sslreq.clone(), self.ssl_seq);
                self.queue(&pkt);
                self.tls_from = self.client_raw.len();
                if let Some(g) = self.instead_of_hello.clone() {
                    self.queue(&g);
                    self.st = St::Closed;
                } else {
                    self.drain_tls();
                    self.st = St::Handshaking;
                }
            }
            St::Handshaking => self.drain_tls(),
            St::Established => {
                self.drain_tls();
                if self.to_server.is_empty() && self.sent_app {
                    // nothing more to say: close
                    if self.close_notify {
                        self.conn.send_close_notify();
                        self.drain_tls();
                    }
                    self.st = St::Closed;
                }
            }
            St::Closed => {}
        }
    }
    /// The connection is over and the server returned an error without flushing: a transport hands what
    /// it was given to the peer when it is closed (a `BufWriter` in its destructor, a socket anyway).
    /// Only for error returns: after `Ok(())` the last reply must have been flushed by the server
    /// itself, and what was not stays invisible.
    pub fn deliver_at_close(&mut self) {
        if !self.unflushed.is_empty() {
            let b = std::mem::take(&mut self.unflushed);
            self.bytes_delivered_at_close += b.len() as u64;
            self.on_server_bytes(&b);
        }
    }
    fn on_server_bytes(&mut self, buf: &[u8]) {
        if self.st == St::WaitGreeting {
            self.greeting_raw.extend_from_slice(buf);
            return;
        }
        self.server_raw_after.extend_from_slice(buf);
        if self.client_error.is_some() || self.instead_of_hello.is_some() {
            return;
        }
        // the client takes the server's stream record by record, and - as a conforming TLS peer must
        // (RFC 8446 6.1; what OpenSSL reports as ZERO_RETURN) - ignores whatever follows the server's
        // close_notify
        self.server_rec_buf.extend_from_slice(buf);
        loop {
            if self.server_closed_tls {
                self.bytes_ignored_after_server_close_notify += self.server_rec_buf.len() as u64;
                self.server_rec_buf.clear();
                break;
            }
            if self.server_rec_buf.len() < 5 {
                break;
            }
            let rl = 5 + ((self.server_rec_buf[3] as usize) << 8 | self.server_rec_buf[4] as usize);
            if self.server_rec_buf.len() < rl {
                break;
            }
            let rec: Vec<u8> = self.server_rec_buf.drain(..rl).collect();
            let mut c = io::Cursor::new(&rec[..]);
            while (c.position() as usize) < rec.len() {
                match self.conn.read_tls(&mut c) {
                    Ok(0) => break,
                    Ok(_) => {}
                    Err(e) => {
                        self.client_error = Some(format!("read_tls: {}", e));
                        return;
                    }
                }
                match self.conn.process_new_packets() {
                    Ok(s) => {
                        let n = s.plaintext_bytes_to_read();
                        if n > 0 {
                            let mut b = vec![0; n];
                            if self.conn.reader().read_exact(&mut b).is_ok() {
                                self.app_in.extend_from_slice(&b);
                            }
                        }
                        if s.peer_has_closed() {
                            self.server_closed_tls = true;
                        }
                    }
                    Err(e) => {
                        self.client_error = Some(format!("client rejects server bytes: {}", e));
                        return;
                    }
                }
            }
        }
        if self.st == St::Handshaking && !self.conn.is_handshaking() {
            self.st = St::Established;
            let app = self.app_script.clone();
            let mut at = 0;
            let mut ends = self.app_chunks.clone();
            ends.push(app.len());
            for e in ends {
                let e = e.min(app.len());
                if e > at {
                    if self.conn.writer().write_all(&app[at..e]).is_err() {
                        self.client_error = Some("client could not queue application data".into());
                    }
                    at = e;
                }
            }
            self.sent_app = true;
            if self.eager_close && self.close_notify {
                // write, then shut the sending side: the alert travels right behind the last command
                self.conn.send_close_notify();
                self.closed_eagerly = true;
            }
        }
    }
}

#[derive(Clone)]
pub struct TlsTransport(pub Rc<RefCell<TlsWorld>>);

impl Read for TlsTransport {
    fn read(&mut self, buf: &mut [u8]) -> io::Result<usize> {
        let mut w = self.0.borrow_mut();
        w.tick();
        if w.nops > w.budget_ops {
            w.wedged = true;
            return Err(io::Error::new(io::ErrorKind::Other, "vmon: operation budget exhausted"));
        }
        w.nread += 1;
        if w.to_server.is_empty() {
            w.pump();
        }
        if w.to_server.is_empty() {
            let truncated = w.raw_limit.map(|l| w.client_raw.len() >= l).unwrap_or(false);
            if w.st == St::Closed || truncated {
                w.eof_reads += 1;
                if w.eof_reads > 1000 {
                    w.wedged = true;
                    return Err(io::Error::new(io::ErrorKind::Other, "vmon: >1000 reads at end of stream"));
                }
                return Ok(0);
            }
            // the client is waiting for the server: nothing can ever arrive
            if !w.unflushed.is_empty() {
                w.reads_with_unflushed_output += 1;
            }
            w.deadlock = true;
            return Err(io::Error::new(io::ErrorKind::TimedOut, "vmon: deadlock - server reads while TLS client awaits server bytes"));
        }
        let mut n = buf.len().min(w.to_server.len());
        if w.first_cut > 0 && w.served < w.first_cut {
            n = n.min(w.first_cut - w.served);
        } else if !w.cycle.is_empty() {
            let k = w.cycle[(w.nread as usize) % w.cycle.len()].max(1);
            n = n.min(k);
        }
        buf[..n].copy_from_slice(&w.to_server[..n]);
        w.to_server.drain(..n);
        let at = w.served;
        w.reads.push((at, n));
        w.served += n;
        Ok(n)
    }
}

impl Write for TlsTransport {
    fn write(&mut self, buf: &[u8]) -> io::Result<usize> {
        let mut w = self.0.borrow_mut();
        w.tick();
        if w.nops > w.budget_ops {
            w.wedged = true;
            return Err(io::Error::new(io::ErrorKind::Other, "vmon: operation budget exhausted"));
        }
        let idx = w.nwrite;
        w.nwrite += 1;
        if let Some((k, kind)) = w.write_fault {
            if k == idx {
                w.write_fault_hit = true;
                let kind = match kind {
                    100 => io::ErrorKind::Interrupted,
                    101 => io::ErrorKind::WouldBlock,
                    _ => io::ErrorKind::TimedOut,
                };
                return Err(io::Error::new(kind, "vmon: injected transient transport fault"));
            }
        }
        let n = buf.len().min(w.write_limit);
        if w.buffer_writes {
            w.unflushed.extend_from_slice(&buf[..n]);
        } else {
            w.on_server_bytes(&buf[..n]);
        }
        Ok(n)
    }
    fn flush(&mut self) -> io::Result<()> {
        let mut w = self.0.borrow_mut();
        w.tick();
        if !w.unflushed.is_empty() {
            let b = std::mem::take(&mut w.unflushed);
            w.on_server_bytes(&b);
        }
        Ok(())
    }
}

/// Parse a raw byte stream as TLS records. Returns (records as (type, version, len), leftover bytes).
pub fn tls_records(raw: &[u8]) -> Result<Vec<(u8, u16, usize)>, String> {
    let mut v = Vec::new();
    let mut i = 0;
    while i < raw.len() {
        if i + 5 > raw.len() {
            return Err(format!("{} stray bytes at offset {} do not form a TLS record header", raw.len() - i, i));
        }
        let typ = raw[i];
        let ver = (raw[i + 1] as u16) << 8 | raw[i + 2] as u16;
        let len = (raw[i + 3] as usize) << 8 | raw[i + 4] as usize;
        if !(20..=23).contains(&typ) {
            return Err(format!("byte 0x{:02x} at offset {} is not a TLS record type", typ, i));
        }
        if ver >> 8 != 3 {
            return Err(format!("TLS record at offset {} has version 0x{:04x}", i, ver));
        }
        if len > (1 << 14) + 2048 {
            return Err(format!("TLS record at offset {} claims {} bytes", i, len));
        }
        if i + 5 + len > raw.len() {
            return Err(format!("TLS record at offset {} is truncated ({} of {} bytes)", i, raw.len() - i - 5, len));
        }
        v.push((typ, ver, len));
        i += 5 + len;
    }
    Ok(v)
}

pub fn server_name() -> ServerName<'static> {
    ServerName::try_from("localhost").unwrap()
}
