//! Independent client-side reference codec for the MySQL client/server protocol, written from the
//! protocol documentation. It shares no code with msql-srv (and does not use mysql_common).
//! This is the primary oracle of every monitor.

pub const MAXP: usize = 0xFF_FFFF;
pub type R<T> = Result<T, String>;

pub const SERVER_MORE_RESULTS_EXISTS: u16 = 0x0008;

// capability bits used by the harness
pub const CLIENT_LONG_PASSWORD: u32 = 0x0000_0001;
pub const CLIENT_CONNECT_WITH_DB: u32 = 0x0000_0008;
pub const CLIENT_PROTOCOL_41: u32 = 0x0000_0200;
pub const CLIENT_SSL: u32 = 0x0000_0800;
pub const CLIENT_SECURE_CONNECTION: u32 = 0x0000_8000;
pub const CLIENT_PLUGIN_AUTH: u32 = 0x0008_0000;
pub const CLIENT_DEPRECATE_EOF: u32 = 0x0100_0000;

// command bytes
pub const COM_QUIT: u8 = 0x01;
pub const COM_INIT_DB: u8 = 0x02;
pub const COM_QUERY: u8 = 0x03;
pub const COM_FIELD_LIST: u8 = 0x04;
pub const COM_PING: u8 = 0x0e;
pub const COM_STMT_PREPARE: u8 = 0x16;
pub const COM_STMT_EXECUTE: u8 = 0x17;
pub const COM_STMT_SEND_LONG_DATA: u8 = 0x18;
pub const COM_STMT_CLOSE: u8 = 0x19;

// column type codes
pub const T_DECIMAL: u8 = 0x00;
pub const T_TINY: u8 = 0x01;
pub const T_SHORT: u8 = 0x02;
pub const T_LONG: u8 = 0x03;
pub const T_FLOAT: u8 = 0x04;
pub const T_DOUBLE: u8 = 0x05;
pub const T_NULL: u8 = 0x06;
pub const T_TIMESTAMP: u8 = 0x07;
pub const T_LONGLONG: u8 = 0x08;
pub const T_INT24: u8 = 0x09;
pub const T_DATE: u8 = 0x0a;
pub const T_TIME: u8 = 0x0b;
pub const T_DATETIME: u8 = 0x0c;
pub const T_YEAR: u8 = 0x0d;
pub const T_VARCHAR: u8 = 0x0f;
pub const T_BIT: u8 = 0x10;
pub const T_JSON: u8 = 0xf5;
pub const T_NEWDECIMAL: u8 = 0xf6;
pub const T_ENUM: u8 = 0xf7;
pub const T_SET: u8 = 0xf8;
pub const T_TINY_BLOB: u8 = 0xf9;
pub const T_MEDIUM_BLOB: u8 = 0xfa;
pub const T_LONG_BLOB: u8 = 0xfb;
pub const T_BLOB: u8 = 0xfc;
pub const T_VAR_STRING: u8 = 0xfd;
pub const T_STRING: u8 = 0xfe;
pub const T_GEOMETRY: u8 = 0xff;

pub const STRINGISH: [u8; 14] = [
    T_STRING, T_VAR_STRING, T_BLOB, T_TINY_BLOB, T_MEDIUM_BLOB, T_LONG_BLOB, T_SET, T_ENUM, T_DECIMAL,
    T_VARCHAR, T_BIT, T_NEWDECIMAL, T_GEOMETRY, T_JSON,
];

pub const F_NOT_NULL: u16 = 0x0001;
pub const F_UNSIGNED: u16 = 0x0020;

pub fn is_stringish(t: u8) -> bool {
    STRINGISH.contains(&t)
}

// ------------------------------------------------------------------------------------------------
// primitive encoders

pub fn put_lenenc_int(out: &mut Vec<u8>, v: u64) {
    if v < 251 {
        out.push(v as u8);
    } else if v < 1 << 16 {
        out.push(0xFC);
        out.extend_from_slice(&(v as u16).to_le_bytes());
    } else if v < 1 << 24 {
        out.push(0xFD);
        out.extend_from_slice(&(v as u32).to_le_bytes()[..3]);
    } else {
        out.push(0xFE);
        out.extend_from_slice(&v.to_le_bytes());
    }
}
pub fn lenenc_int_size(v: u64) -> usize {
    if v < 251 {
        1
    } else if v < 1 << 16 {
        3
    } else if v < 1 << 24 {
        4
    } else {
        9
    }
}
pub fn put_lenenc_str(out: &mut Vec<u8>, s: &[u8]) {
    put_lenenc_int(out, s.len() as u64);
    out.extend_from_slice(s);
}

// ------------------------------------------------------------------------------------------------
// reader

pub struct Rd<'a> {
    pub b: &'a [u8],
    pub p: usize,
}
pub enum Lenenc {
    Null,
    Int(u64),
}
impl<'a> Rd<'a> {
    pub fn new(b: &'a [u8]) -> Self {
        Rd { b, p: 0 }
    }
    pub fn left(&self) -> usize {
        self.b.len() - self.p
    }
    pub fn done(&self) -> bool {
        self.p == self.b.len()
    }
    pub fn peek(&self) -> Option<u8> {
        self.b.get(self.p).copied()
    }
    pub fn take(&mut self, n: usize) -> R<&'a [u8]> {
        if self.left() < n {
            return Err(format!("need {} bytes at offset {}, have {}", n, self.p, self.left()));
        }
        let s = &self.b[self.p..self.p + n];
        self.p += n;
        Ok(s)
    }
    pub fn u8(&mut self) -> R<u8> {
        Ok(self.take(1)?[0])
    }
    pub fn le(&mut self, n: usize) -> R<u64> {
        let s = self.take(n)?;
        let mut v = 0u64;
        for (i, &b) in s.iter().enumerate() {
            v |= (b as u64) << (8 * i);
        }
        Ok(v)
    }
    pub fn u16(&mut self) -> R<u16> {
        Ok(self.le(2)? as u16)
    }
    pub fn u32(&mut self) -> R<u32> {
        Ok(self.le(4)? as u32)
    }
    pub fn lenenc(&mut self) -> R<Lenenc> {
        let b = self.u8()?;
        Ok(match b {
            0..=250 => Lenenc::Int(b as u64),
            0xFB => Lenenc::Null,
            0xFC => Lenenc::Int(self.le(2)?),
            0xFD => Lenenc::Int(self.le(3)?),
            0xFE => Lenenc::Int(self.le(8)?),
            0xFF => return Err(format!("0xFF is not a length-encoded integer (offset {})", self.p - 1)),
        })
    }
    pub fn lenenc_int(&mut self) -> R<u64> {
        match self.lenenc()? {
            Lenenc::Int(v) => Ok(v),
            Lenenc::Null => Err(format!("0xFB where a length-encoded integer was expected (offset {})", self.p - 1)),
        }
    }
    pub fn lenenc_str(&mut self) -> R<&'a [u8]> {
        let n = self.lenenc_int()?;
        if n > self.left() as u64 {
            return Err(format!("length-encoded string of {} bytes exceeds the {} left", n, self.left()));
        }
        self.take(n as usize)
    }
    pub fn nul_str(&mut self) -> R<&'a [u8]> {
        let rest = &self.b[self.p..];
        match rest.iter().position(|&c| c == 0) {
            Some(i) => {
                self.p += i + 1;
                Ok(&rest[..i])
            }
            None => Err(format!("no NUL terminator after offset {}", self.p)),
        }
    }
    pub fn rest(&mut self) -> &'a [u8] {
        let s = &self.b[self.p..];
        self.p = self.b.len();
        s
    }
}

// ------------------------------------------------------------------------------------------------
// client -> server framing

/// Frame one logical message starting at sequence id `seq0`. Payloads >= 2^24-1 are split into
/// maximal packets followed by a shorter (possibly empty) one. Returns (bytes, id of last packet).
pub fn frame(payload: &[u8], seq0: u8) -> (Vec<u8>, u8) {
    let mut out = Vec::with_capacity(payload.len() + 4 * (payload.len() / MAXP + 1));
    let mut seq = seq0;
    let mut rest = payload;
    loop {
        let n = rest.len().min(MAXP);
        out.extend_from_slice(&(n as u32).to_le_bytes()[..3]);
        out.push(seq);
        out.extend_from_slice(&rest[..n]);
        rest = &rest[n..];
        if n < MAXP {
            return (out, seq);
        }
        seq = seq.wrapping_add(1);
    }
}

/// Same, but with explicit per-fragment ids (for malformed-input workloads). `ids` is cycled.
pub fn frame_ids(payload: &[u8], ids: &[u8]) -> Vec<u8> {
    let mut out = Vec::new();
    let mut rest = payload;
    let mut i = 0;
    loop {
        let n = rest.len().min(MAXP);
        out.extend_from_slice(&(n as u32).to_le_bytes()[..3]);
        out.push(ids[i % ids.len()]);
        i += 1;
        out.extend_from_slice(&rest[..n]);
        rest = &rest[n..];
        if n < MAXP {
            return out;
        }
    }
}

/// One raw packet with an arbitrary header length field (payload must be < 2^24).
pub fn raw_packet(payload: &[u8], seq: u8) -> Vec<u8> {
    let mut out = (payload.len() as u32).to_le_bytes()[..3].to_vec();
    out.push(seq);
    out.extend_from_slice(payload);
    out
}

// ------------------------------------------------------------------------------------------------
// server -> client packet layer

#[derive(Clone, Copy, Debug, PartialEq, Eq)]
pub struct Pkt {
    /// offset of the header in the stream
    pub off: usize,
    pub len: usize,
    pub seq: u8,
}

/// Split as many complete packets as the stream holds. Returns (packets, bytes consumed).
pub fn packets_prefix(stream: &[u8]) -> (Vec<Pkt>, usize) {
    let mut v = Vec::new();
    let mut i = 0;
    while i + 4 <= stream.len() {
        let len = stream[i] as usize | (stream[i + 1] as usize) << 8 | (stream[i + 2] as usize) << 16;
        if i + 4 + len > stream.len() {
            break;
        }
        v.push(Pkt { off: i, len, seq: stream[i + 3] });
        i += 4 + len;
    }
    (v, i)
}

/// The whole stream must be a sequence of complete packets.
pub fn packets(stream: &[u8]) -> R<Vec<Pkt>> {
    let (v, used) = packets_prefix(stream);
    if used != stream.len() {
        let rest = &stream[used..];
        let claim = if rest.len() >= 3 {
            format!("{}", rest[0] as usize | (rest[1] as usize) << 8 | (rest[2] as usize) << 16)
        } else {
            "?".into()
        };
        return Err(format!(
            "output is not a whole number of packets: {} trailing bytes after {} packets (header claims {} payload bytes)",
            rest.len(),
            v.len(),
            claim
        ));
    }
    Ok(v)
}

#[derive(Clone, Debug)]
pub struct Msg {
    /// index of the first packet of this message in the packet list
    pub first: usize,
    pub npkts: usize,
    pub seq_first: u8,
    pub seq_last: u8,
    pub payload: Vec<u8>,
}

/// Reassemble logical messages (0xFFFFFF continuation rule). `complete` is false when the last
/// message still awaits a continuation packet.
pub fn messages_prefix(stream: &[u8], pkts: &[Pkt]) -> (Vec<Msg>, bool) {
    let mut out: Vec<Msg> = Vec::new();
    let mut cur: Option<Msg> = None;
    for (i, p) in pkts.iter().enumerate() {
        let body = &stream[p.off + 4..p.off + 4 + p.len];
        let m = cur.get_or_insert_with(|| Msg { first: i, npkts: 0, seq_first: p.seq, seq_last: p.seq, payload: Vec::new() });
        m.payload.extend_from_slice(body);
        m.npkts += 1;
        m.seq_last = p.seq;
        if p.len < MAXP {
            out.push(cur.take().unwrap());
        }
    }
    (out, cur.is_none())
}

pub fn messages(stream: &[u8]) -> R<(Vec<Pkt>, Vec<Msg>)> {
    let pkts = packets(stream)?;
    let (msgs, complete) = messages_prefix(stream, &pkts);
    if !complete {
        return Err("output ends with a maximal (0xFFFFFF) packet that is not followed by a terminating shorter packet".into());
    }
    Ok((pkts, msgs))
}

// ------------------------------------------------------------------------------------------------
// server -> client message decoders

#[derive(Clone, Debug, PartialEq, Eq)]
pub struct Greeting {
    pub protocol: u8,
    pub version: Vec<u8>,
    pub conn_id: u32,
    pub caps: u32,
    pub charset: u8,
    pub status: u16,
    pub salt: Vec<u8>,
    pub plugin: Option<Vec<u8>>,
}

pub fn parse_greeting(b: &[u8]) -> R<Greeting> {
    let mut r = Rd::new(b);
    let protocol = r.u8()?;
    if protocol != 10 {
        return Err(format!("greeting protocol version is {}, not 10", protocol));
    }
    let version = r.nul_str()?.to_vec();
    let conn_id = r.u32()?;
    let mut salt = r.take(8)?.to_vec();
    let filler = r.u8()?;
    if filler != 0 {
        return Err("greeting: filler after auth-plugin-data-part-1 is not 0".into());
    }
    let caps_lo = r.u16()? as u32;
    let mut caps = caps_lo;
    let mut charset = 0;
    let mut status = 0;
    let mut plugin = None;
    if !r.done() {
        charset = r.u8()?;
        status = r.u16()?;
        caps |= (r.u16()? as u32) << 16;
        let auth_len = r.u8()?;
        r.take(10)?;
        if caps & CLIENT_SECURE_CONNECTION != 0 {
            let n = std::cmp::max(13, auth_len as i32 - 8) as usize;
            let part2 = r.take(n)?;
            // part 2 is NUL terminated in practice
            let p2 = match part2.iter().position(|&c| c == 0) {
                Some(i) => &part2[..i],
                None => part2,
            };
            salt.extend_from_slice(p2);
        } else if caps & CLIENT_PLUGIN_AUTH == 0 {
            // servers commonly send the second salt half regardless; its content is free
            let part2 = r.rest();
            let p2 = match part2.iter().position(|&c| c == 0) {
                Some(i) => &part2[..i],
                None => part2,
            };
            salt.extend_from_slice(p2);
        }
        if caps & CLIENT_PLUGIN_AUTH != 0 {
            plugin = Some(r.nul_str().unwrap_or_else(|_| &[]).to_vec());
            let _ = r.rest();
        }
    }
    if !r.done() {
        return Err(format!("greeting: {} unexpected trailing bytes", r.left()));
    }
    Ok(Greeting { protocol, version, conn_id, caps, charset, status, salt, plugin })
}

#[derive(Clone, Debug, PartialEq, Eq)]
pub struct OkP {
    pub affected: u64,
    pub last_id: u64,
    pub status: u16,
    pub warnings: u16,
}
#[derive(Clone, Debug, PartialEq, Eq)]
pub struct ErrP {
    pub code: u16,
    pub state: [u8; 5],
    pub msg: Vec<u8>,
}
#[derive(Clone, Debug, PartialEq, Eq)]
pub struct EofP {
    pub warnings: u16,
    pub status: u16,
}

/// OK packet, CLIENT_PROTOCOL_41 without session tracking: header 0x00, two lenenc ints, status,
/// warnings, optional human-readable info (rest of packet).
pub fn parse_ok(b: &[u8]) -> R<OkP> {
    let mut r = Rd::new(b);
    if r.u8()? != 0x00 {
        return Err("OK packet does not start with 0x00".into());
    }
    let affected = r.lenenc_int()?;
    let last_id = r.lenenc_int()?;
    let status = r.u16()?;
    let warnings = r.u16()?;
    let _info = r.rest();
    Ok(OkP { affected, last_id, status, warnings })
}

pub fn parse_err(b: &[u8]) -> R<ErrP> {
    let mut r = Rd::new(b);
    if r.u8()? != 0xFF {
        return Err("ERR packet does not start with 0xFF".into());
    }
    let code = r.u16()?;
    let marker = r.u8()?;
    if marker != b'#' {
        return Err(format!("ERR packet: SQLSTATE marker is 0x{:02x}, not '#'", marker));
    }
    let st = r.take(5)?;
    let mut state = [0u8; 5];
    state.copy_from_slice(st);
    Ok(ErrP { code, state, msg: r.rest().to_vec() })
}

pub fn is_eof(b: &[u8]) -> bool {
    !b.is_empty() && b[0] == 0xFE && b.len() < 9
}
pub fn is_err(b: &[u8]) -> bool {
    !b.is_empty() && b[0] == 0xFF
}

pub fn parse_eof(b: &[u8]) -> R<EofP> {
    let mut r = Rd::new(b);
    if r.u8()? != 0xFE {
        return Err("EOF packet does not start with 0xFE".into());
    }
    let warnings = r.u16()?;
    let status = r.u16()?;
    if !r.done() {
        return Err(format!("EOF packet has {} trailing bytes", r.left()));
    }
    Ok(EofP { warnings, status })
}

#[derive(Clone, Debug, PartialEq, Eq)]
pub struct ColDef {
    pub catalog: Vec<u8>,
    pub schema: Vec<u8>,
    pub table: Vec<u8>,
    pub org_table: Vec<u8>,
    pub name: Vec<u8>,
    pub org_name: Vec<u8>,
    pub charset: u16,
    pub length: u32,
    pub typ: u8,
    pub flags: u16,
    pub decimals: u8,
    pub has_default: bool,
}

/// ColumnDefinition41; `field_list` = COM_FIELD_LIST reply (carries a default-value tail).
pub fn parse_coldef(b: &[u8], field_list: bool) -> R<ColDef> {
    let mut r = Rd::new(b);
    let catalog = r.lenenc_str()?.to_vec();
    if catalog != b"def" {
        return Err("column definition: catalog is not \"def\"".into());
    }
    let schema = r.lenenc_str()?.to_vec();
    let table = r.lenenc_str()?.to_vec();
    let org_table = r.lenenc_str()?.to_vec();
    let name = r.lenenc_str()?.to_vec();
    let org_name = r.lenenc_str()?.to_vec();
    let fixed = r.lenenc_int()?;
    if fixed != 0x0c {
        return Err(format!("column definition: length of fixed fields is {}, not 12", fixed));
    }
    let charset = r.u16()?;
    let length = r.u32()?;
    let typ = r.u8()?;
    let flags = r.u16()?;
    let decimals = r.u8()?;
    r.take(2)?;
    let mut has_default = false;
    if field_list {
        // lenenc default value or NULL
        match r.lenenc()? {
            Lenenc::Null => {}
            Lenenc::Int(n) => {
                r.take(n as usize)?;
            }
        }
        has_default = true;
    }
    if !r.done() {
        return Err(format!("column definition has {} trailing bytes", r.left()));
    }
    Ok(ColDef { catalog, schema, table, org_table, name, org_name, charset, length, typ, flags, decimals, has_default })
}

pub fn decode_text_row(b: &[u8], ncols: usize) -> R<Vec<Option<Vec<u8>>>> {
    let mut r = Rd::new(b);
    let mut out = Vec::with_capacity(ncols);
    for i in 0..ncols {
        match r.lenenc().map_err(|e| format!("text row, cell {}: {}", i, e))? {
            Lenenc::Null => out.push(None),
            Lenenc::Int(n) => {
                if n > r.left() as u64 {
                    return Err(format!("text row, cell {}: declared {} bytes, {} left", i, n, r.left()));
                }
                out.push(Some(r.take(n as usize)?.to_vec()));
            }
        }
    }
    if !r.done() {
        return Err(format!("text row has {} bytes after its {} cells", r.left(), ncols));
    }
    Ok(out)
}

#[derive(Clone, Debug, PartialEq)]
pub enum BinVal {
    Null,
    /// integer decoded by wire width and signedness of the advertised column
    Int(i128),
    F32(u32),
    F64(u64),
    Bytes(Vec<u8>),
    /// DATE/DATETIME/TIMESTAMP; `len` is the length form used (0,4,7,11)
    Date { len: u8, y: u16, mo: u8, d: u8, h: u8, mi: u8, s: u8, us: u32 },
    /// TIME; `len` in {0,8,12}
    Time { len: u8, neg: bool, d: u32, h: u8, mi: u8, s: u8, us: u32 },
}

pub fn decode_bin_value(r: &mut Rd<'_>, typ: u8, flags: u16) -> R<BinVal> {
    let unsigned = flags & F_UNSIGNED != 0;
    let int = |r: &mut Rd<'_>, n: usize| -> R<BinVal> {
        let raw = r.le(n)?;
        let v = if unsigned {
            raw as i128
        } else {
            let shift = 64 - 8 * n as u32;
            (((raw << shift) as i64) >> shift) as i128
        };
        Ok(BinVal::Int(v))
    };
    match typ {
        T_TINY => int(r, 1),
        T_SHORT | T_YEAR => int(r, 2),
        T_LONG | T_INT24 => int(r, 4),
        T_LONGLONG => int(r, 8),
        T_FLOAT => Ok(BinVal::F32(r.le(4)? as u32)),
        T_DOUBLE => Ok(BinVal::F64(r.le(8)?)),
        T_DATE | T_DATETIME | T_TIMESTAMP => {
            let len = r.u8()?;
            let (mut y, mut mo, mut d, mut h, mut mi, mut s, mut us) = (0, 0, 0, 0, 0, 0, 0);
            match len {
                0 | 4 | 7 | 11 => {}
                _ => return Err(format!("binary date/time value with illegal length {}", len)),
            }
            if len >= 4 {
                y = r.u16()?;
                mo = r.u8()?;
                d = r.u8()?;
            }
            if len >= 7 {
                h = r.u8()?;
                mi = r.u8()?;
                s = r.u8()?;
            }
            if len == 11 {
                us = r.u32()?;
            }
            Ok(BinVal::Date { len, y, mo, d, h, mi, s, us })
        }
        T_TIME => {
            let len = r.u8()?;
            match len {
                0 | 8 | 12 => {}
                _ => return Err(format!("binary TIME value with illegal length {}", len)),
            }
            let (mut neg, mut d, mut h, mut mi, mut s, mut us) = (false, 0, 0, 0, 0, 0);
            if len >= 8 {
                neg = r.u8()? != 0;
                d = r.u32()?;
                h = r.u8()?;
                mi = r.u8()?;
                s = r.u8()?;
            }
            if len == 12 {
                us = r.u32()?;
            }
            Ok(BinVal::Time { len, neg, d, h, mi, s, us })
        }
        t if is_stringish(t) => Ok(BinVal::Bytes(r.lenenc_str()?.to_vec())),
        T_NULL => Ok(BinVal::Null),
        t => Err(format!("binary value of unsupported column type 0x{:02x}", t)),
    }
}

/// Binary resultset row: 0x00 header, NULL bitmap of (n+7+2)/8 bytes with bit offset 2, values.
pub fn decode_bin_row(b: &[u8], cols: &[(u8, u16)]) -> R<Vec<BinVal>> {
    let mut r = Rd::new(b);
    if r.u8()? != 0 {
        return Err("binary row does not start with 0x00".into());
    }
    let n = cols.len();
    let bitmap = r.take((n + 7 + 2) / 8).map_err(|e| format!("binary row NULL bitmap: {}", e))?.to_vec();
    // the two low bits of the first byte are reserved and must be clear; so are the bits past n+2
    for bit in (0..2).chain(n + 2..bitmap.len() * 8) {
        if bitmap[bit / 8] & (1 << (bit % 8)) != 0 {
            return Err(format!("binary row NULL bitmap has reserved bit {} set", bit));
        }
    }
    let mut out = Vec::with_capacity(n);
    for (i, &(t, f)) in cols.iter().enumerate() {
        let bit = i + 2;
        if bitmap[bit / 8] & (1 << (bit % 8)) != 0 {
            out.push(BinVal::Null);
        } else {
            out.push(decode_bin_value(&mut r, t, f).map_err(|e| format!("binary row, column {}: {}", i, e))?);
        }
    }
    if !r.done() {
        return Err(format!("binary row has {} bytes after its {} values", r.left(), n));
    }
    Ok(out)
}

// ------------------------------------------------------------------------------------------------
// response grammar

#[derive(Clone, Copy, Debug, PartialEq, Eq, PartialOrd, Ord)]
pub enum Kind {
    /// the server's initial greeting (no request)
    Greeting,
    /// reply to the handshake response: OK or ERR
    Auth,
    Query,
    Execute,
    Prepare,
    Ping,
    InitDb,
    FieldList,
    /// no reply expected
    Close,
    LongData,
    Quit,
}
impl Kind {
    pub fn expects_reply(self) -> bool {
        !matches!(self, Kind::Close | Kind::LongData | Kind::Quit)
    }
}

#[derive(Clone, Debug, PartialEq)]
pub enum Part {
    Ok(OkP),
    Err(ErrP),
    Rows { cols: Vec<ColDef>, rows: Vec<Vec<u8>>, mid_eof: EofP, end: RowsEnd },
}
#[derive(Clone, Debug, PartialEq)]
pub enum RowsEnd {
    Eof(EofP),
    Err(ErrP),
}
#[derive(Clone, Debug, PartialEq)]
pub enum Resp {
    Greeting(Greeting),
    /// Query / Execute: a chain of parts
    Parts(Vec<Part>),
    /// Ping / InitDb / Auth: a single OK or ERR
    Simple(Part),
    PrepareOk { id: u32, ncols: u16, nparams: u16, warnings: u16, params: Vec<ColDef>, cols: Vec<ColDef> },
    PrepareErr(ErrP),
    Fields(Vec<ColDef>),
    FieldsErr(ErrP),
}

pub enum Dec {
    /// decoded a complete response ending at message index `.1` (exclusive)
    Done(Resp, usize),
    /// the messages so far are a proper prefix of a response
    NeedMore,
    Bad(String),
}

struct MsgCur<'a> {
    m: &'a [Msg],
    i: usize,
}
enum Nx<'a> {
    M(&'a [u8]),
    End,
}
impl<'a> MsgCur<'a> {
    fn next(&mut self) -> Nx<'a> {
        if self.i < self.m.len() {
            self.i += 1;
            Nx::M(&self.m[self.i - 1].payload)
        } else {
            Nx::End
        }
    }
}

macro_rules! nx {
    ($c:expr) => {
        match $c.next() {
            Nx::M(b) => b,
            Nx::End => return Dec::NeedMore,
        }
    };
}
macro_rules! tr {
    ($e:expr, $what:expr) => {
        match $e {
            Ok(v) => v,
            Err(e) => return Dec::Bad(format!("{}: {}", $what, e)),
        }
    };
}

/// Decode one response of the given kind starting at message index `start`.
/// Grammar: CLIENT_PROTOCOL_41, no CLIENT_DEPRECATE_EOF, no session tracking.
pub fn decode_response(kind: Kind, msgs: &[Msg], start: usize) -> Dec {
    let mut c = MsgCur { m: msgs, i: start };
    match kind {
        Kind::Close | Kind::LongData | Kind::Quit => Dec::Bad("no reply is defined for this command".into()),
        Kind::Greeting => {
            let b = nx!(c);
            let g = tr!(parse_greeting(b), "greeting");
            Dec::Done(Resp::Greeting(g), c.i)
        }
        Kind::Auth | Kind::Ping | Kind::InitDb => {
            let b = nx!(c);
            if is_err(b) {
                Dec::Done(Resp::Simple(Part::Err(tr!(parse_err(b), "ERR packet"))), c.i)
            } else if !b.is_empty() && b[0] == 0 {
                let ok = tr!(parse_ok(b), "OK packet");
                if ok.status & SERVER_MORE_RESULTS_EXISTS != 0 {
                    return Dec::Bad("OK reply to a command that has a single reply carries SERVER_MORE_RESULTS_EXISTS".into());
                }
                Dec::Done(Resp::Simple(Part::Ok(ok)), c.i)
            } else {
                Dec::Bad(format!("expected OK or ERR, got a packet starting 0x{:02x} ({} bytes)", b.first().copied().unwrap_or(0), b.len()))
            }
        }
        Kind::Prepare => {
            let b = nx!(c);
            if is_err(b) {
                return Dec::Done(Resp::PrepareErr(tr!(parse_err(b), "ERR packet")), c.i);
            }
            let mut r = Rd::new(b);
            if tr!(r.u8(), "COM_STMT_PREPARE_OK") != 0 {
                return Dec::Bad("COM_STMT_PREPARE_OK does not start with 0x00".into());
            }
            let id = tr!(r.u32(), "COM_STMT_PREPARE_OK");
            let ncols = tr!(r.u16(), "COM_STMT_PREPARE_OK");
            let nparams = tr!(r.u16(), "COM_STMT_PREPARE_OK");
            let filler = tr!(r.u8(), "COM_STMT_PREPARE_OK");
            if filler != 0 {
                return Dec::Bad("COM_STMT_PREPARE_OK filler is not 0".into());
            }
            let warnings = tr!(r.u16(), "COM_STMT_PREPARE_OK");
            if !r.done() {
                return Dec::Bad(format!("COM_STMT_PREPARE_OK has {} trailing bytes", r.left()));
            }
            let mut params = Vec::new();
            let mut cols = Vec::new();
            for (n, dst, what) in [(nparams, &mut params, "parameter definition"), (ncols, &mut cols, "column definition")] {
                if n > 0 {
                    for _ in 0..n {
                        let b = nx!(c);
                        dst.push(tr!(parse_coldef(b, false), what));
                    }
                    let b = nx!(c);
                    if !is_eof(b) {
                        return Dec::Bad(format!("{}s are not followed by EOF", what));
                    }
                    tr!(parse_eof(b), "EOF packet");
                }
            }
            Dec::Done(Resp::PrepareOk { id, ncols, nparams, warnings, params, cols }, c.i)
        }
        Kind::FieldList => {
            let mut cols = Vec::new();
            loop {
                let b = nx!(c);
                if is_err(b) {
                    if !cols.is_empty() {
                        return Dec::Bad("ERR after column definitions in a field-list reply".into());
                    }
                    return Dec::Done(Resp::FieldsErr(tr!(parse_err(b), "ERR packet")), c.i);
                }
                if is_eof(b) {
                    tr!(parse_eof(b), "EOF packet");
                    return Dec::Done(Resp::Fields(cols), c.i);
                }
                cols.push(tr!(parse_coldef(b, true), "field-list column definition"));
            }
        }
        Kind::Query | Kind::Execute => {
            let mut parts = Vec::new();
            loop {
                let b = nx!(c);
                if is_err(b) {
                    parts.push(Part::Err(tr!(parse_err(b), "ERR packet")));
                    return Dec::Done(Resp::Parts(parts), c.i);
                }
                if b.is_empty() {
                    return Dec::Bad("empty message where a response was expected".into());
                }
                if b[0] == 0x00 {
                    let ok = tr!(parse_ok(b), "OK packet");
                    let more = ok.status & SERVER_MORE_RESULTS_EXISTS != 0;
                    parts.push(Part::Ok(ok));
                    if more {
                        continue;
                    }
                    return Dec::Done(Resp::Parts(parts), c.i);
                }
                if b[0] == 0xFB {
                    return Dec::Bad("LOCAL INFILE request (0xFB) where a response was expected".into());
                }
                if is_eof(b) {
                    return Dec::Bad("EOF packet where a response was expected".into());
                }
                // column count
                let mut r = Rd::new(b);
                let n = tr!(r.lenenc_int(), "column count");
                if !r.done() {
                    return Dec::Bad(format!("column-count packet has {} trailing bytes (first byte 0x{:02x}, {} bytes)", r.left(), b[0], b.len()));
                }
                if n == 0 {
                    return Dec::Bad("column count of 0".into());
                }
                let mut cols = Vec::with_capacity(n as usize);
                for _ in 0..n {
                    let b = nx!(c);
                    cols.push(tr!(parse_coldef(b, false), "column definition"));
                }
                let b = nx!(c);
                if !is_eof(b) {
                    return Dec::Bad("column definitions are not followed by EOF".into());
                }
                let mid_eof = tr!(parse_eof(b), "EOF packet");
                let mut rows = Vec::new();
                let end;
                loop {
                    let b = nx!(c);
                    if is_err(b) {
                        end = RowsEnd::Err(tr!(parse_err(b), "ERR packet"));
                        break;
                    }
                    if is_eof(b) {
                        end = RowsEnd::Eof(tr!(parse_eof(b), "EOF packet"));
                        break;
                    }
                    // structural validation of the row
                    if kind == Kind::Query {
                        tr!(decode_text_row(b, cols.len()), "text row");
                    } else {
                        let tf: Vec<(u8, u16)> = cols.iter().map(|c| (c.typ, c.flags)).collect();
                        tr!(decode_bin_row(b, &tf), "binary row");
                    }
                    rows.push(b.to_vec());
                }
                let more = matches!(&end, RowsEnd::Eof(e) if e.status & SERVER_MORE_RESULTS_EXISTS != 0);
                let is_errend = matches!(&end, RowsEnd::Err(_));
                parts.push(Part::Rows { cols, rows, mid_eof, end });
                if more && !is_errend {
                    continue;
                }
                return Dec::Done(Resp::Parts(parts), c.i);
            }
        }
    }
}

/// Result of decoding the server's whole output against the list of exchanges.
pub struct Decoded {
    pub resps: Vec<Resp>,
    /// for resps[i]: (first message index, end message index)
    pub spans: Vec<(usize, usize)>,
    /// number of messages consumed
    pub used: usize,
    /// Some(..) if decoding stopped early
    pub stop: Option<Stop>,
}
#[derive(Debug, Clone)]
pub enum Stop {
    /// ran out of messages in the middle of (or before) the response to exchange #i
    Short(usize),
    Bad(usize, String),
}

/// Decode responses strictly sequentially: one per reply-expecting kind, in order.
pub fn decode_all(kinds: &[Kind], msgs: &[Msg]) -> Decoded {
    let mut d = Decoded { resps: Vec::new(), spans: Vec::new(), used: 0, stop: None };
    for (i, k) in kinds.iter().enumerate() {
        if !k.expects_reply() {
            continue;
        }
        match decode_response(*k, msgs, d.used) {
            Dec::Done(r, end) => {
                d.resps.push(r);
                d.spans.push((d.used, end));
                d.used = end;
            }
            Dec::NeedMore => {
                d.stop = Some(Stop::Short(i));
                break;
            }
            Dec::Bad(e) => {
                d.stop = Some(Stop::Bad(i, e));
                break;
            }
        }
    }
    d
}

/// How many complete responses (for the reply-expecting kinds, in order) a raw output prefix holds.
pub fn count_complete(kinds: &[Kind], visible: &[u8]) -> usize {
    let (pkts, _) = packets_prefix(visible);
    let (msgs, _) = messages_prefix(visible, &pkts);
    decode_all(kinds, &msgs).resps.len()
}

// ------------------------------------------------------------------------------------------------
// client -> server request encoders

pub fn handshake41(caps: u32, max_packet: u32, charset: u8, user: &[u8], tail: &[u8]) -> Vec<u8> {
    let mut p = Vec::new();
    p.extend_from_slice(&(caps | CLIENT_PROTOCOL_41).to_le_bytes());
    p.extend_from_slice(&max_packet.to_le_bytes());
    p.push(charset);
    p.extend_from_slice(&[0u8; 23]);
    p.extend_from_slice(user);
    p.push(0);
    p.extend_from_slice(tail);
    p
}
pub const CLIENT_CONNECT_ATTRS: u32 = 0x0010_0000;
pub const CLIENT_PLUGIN_AUTH_LENENC_CLIENT_DATA: u32 = 0x0020_0000;
/// What a real client puts behind the user name of a HandshakeResponse41, laid out by the
/// capabilities it announces: the authentication response (length-encoded, one length byte, or
/// NUL-terminated), the default schema (CONNECT_WITH_DB), the plugin name (PLUGIN_AUTH) and the
/// connection attributes (CONNECT_ATTRS).
pub fn handshake41_tail(caps: u32, auth: &[u8], db: &[u8], plugin: &[u8], attrs: &[(&[u8], &[u8])]) -> Vec<u8> {
    let mut p = Vec::new();
    if caps & CLIENT_PLUGIN_AUTH_LENENC_CLIENT_DATA != 0 {
        put_lenenc_int(&mut p, auth.len() as u64);
        p.extend_from_slice(auth);
    } else if caps & CLIENT_SECURE_CONNECTION != 0 {
        p.push(auth.len().min(255) as u8);
        p.extend_from_slice(&auth[..auth.len().min(255)]);
    } else {
        p.extend(auth.iter().filter(|b| **b != 0));
        p.push(0);
    }
    if caps & CLIENT_CONNECT_WITH_DB != 0 {
        p.extend(db.iter().filter(|b| **b != 0));
        p.push(0);
    }
    if caps & CLIENT_PLUGIN_AUTH != 0 {
        p.extend(plugin.iter().filter(|b| **b != 0));
        p.push(0);
    }
    if caps & CLIENT_CONNECT_ATTRS != 0 {
        let mut a = Vec::new();
        for (k, v) in attrs {
            put_lenenc_int(&mut a, k.len() as u64);
            a.extend_from_slice(k);
            put_lenenc_int(&mut a, v.len() as u64);
            a.extend_from_slice(v);
        }
        put_lenenc_int(&mut p, a.len() as u64);
        p.extend_from_slice(&a);
    }
    p
}
/// SSLRequest: the first 32 bytes of HandshakeResponse41 with CLIENT_SSL set.
pub fn ssl_request(caps: u32, max_packet: u32, charset: u8) -> Vec<u8> {
    let mut p = Vec::new();
    p.extend_from_slice(&(caps | CLIENT_PROTOCOL_41 | CLIENT_SSL).to_le_bytes());
    p.extend_from_slice(&max_packet.to_le_bytes());
    p.push(charset);
    p.extend_from_slice(&[0u8; 23]);
    p
}
/// HandshakeResponse320: 2-byte capabilities (without PROTOCOL_41), 3-byte max packet, user NUL, tail.
pub fn handshake320(caps: u16, max_packet: u32, user: &[u8], tail: &[u8]) -> Vec<u8> {
    let mut p = Vec::new();
    p.extend_from_slice(&(caps & !(CLIENT_PROTOCOL_41 as u16)).to_le_bytes());
    p.extend_from_slice(&max_packet.to_le_bytes()[..3]);
    p.extend_from_slice(user);
    p.push(0);
    p.extend_from_slice(tail);
    p
}

pub fn com_text(cmd: u8, text: &[u8]) -> Vec<u8> {
    let mut p = Vec::with_capacity(text.len() + 1);
    p.push(cmd);
    p.extend_from_slice(text);
    p
}
pub fn com_close(id: u32) -> Vec<u8> {
    let mut p = vec![COM_STMT_CLOSE];
    p.extend_from_slice(&id.to_le_bytes());
    p
}
pub fn com_long_data(id: u32, param: u16, data: &[u8]) -> Vec<u8> {
    let mut p = Vec::with_capacity(7 + data.len());
    p.push(COM_STMT_SEND_LONG_DATA);
    p.extend_from_slice(&id.to_le_bytes());
    p.extend_from_slice(&param.to_le_bytes());
    p.extend_from_slice(data);
    p
}

/// One bound parameter on the client side.
#[derive(Clone, Debug, PartialEq)]
pub struct Param {
    pub typ: u8,
    pub unsigned: bool,
    /// None = NULL (bit in the NULL bitmap, no value bytes)
    pub value: Option<PVal>,
    /// value is supplied through COM_STMT_SEND_LONG_DATA: no inline bytes
    pub long: bool,
}
#[derive(Clone, Debug, PartialEq)]
pub enum PVal {
    /// integer, encoded with the width of `typ`
    Int(i128),
    F32(u32),
    F64(u64),
    Bytes(Vec<u8>),
    /// raw temporal body (without the length byte), length in {0,4,7,11} / {0,8,12}
    Temporal(Vec<u8>),
}

pub fn int_width(typ: u8) -> Option<usize> {
    match typ {
        T_TINY => Some(1),
        T_SHORT | T_YEAR => Some(2),
        T_LONG | T_INT24 => Some(4),
        T_LONGLONG => Some(8),
        _ => None,
    }
}

pub fn encode_param_value(out: &mut Vec<u8>, p: &Param) {
    if p.typ == T_NULL {
        // a parameter bound as MYSQL_TYPE_NULL has no value bytes, whatever its NULL-bitmap bit says
        return;
    }
    match p.value.as_ref() {
        None => {}
        Some(PVal::Int(v)) => {
            let w = int_width(p.typ).expect("integer value for non-integer type");
            out.extend_from_slice(&(*v as u64).to_le_bytes()[..w]);
        }
        Some(PVal::F32(b)) => out.extend_from_slice(&b.to_le_bytes()),
        Some(PVal::F64(b)) => out.extend_from_slice(&b.to_le_bytes()),
        Some(PVal::Bytes(b)) => put_lenenc_str(out, b),
        Some(PVal::Temporal(b)) => {
            out.push(b.len() as u8);
            out.extend_from_slice(b);
        }
    }
}

/// COM_STMT_EXECUTE. `send_types`: new-params-bound flag = 1 followed by the type table.
pub fn com_execute(id: u32, flags: u8, iterations: u32, params: &[Param], send_types: bool) -> Vec<u8> {
    let mut p = vec![COM_STMT_EXECUTE];
    p.extend_from_slice(&id.to_le_bytes());
    p.push(flags);
    p.extend_from_slice(&iterations.to_le_bytes());
    if !params.is_empty() {
        let mut bitmap = vec![0u8; (params.len() + 7) / 8];
        for (i, q) in params.iter().enumerate() {
            if q.value.is_none() && !q.long {
                bitmap[i / 8] |= 1 << (i % 8);
            }
        }
        p.extend_from_slice(&bitmap);
        p.push(send_types as u8);
        if send_types {
            for q in params {
                p.push(q.typ);
                p.push(if q.unsigned { 0x80 } else { 0 });
            }
        }
        for q in params {
            if !q.long {
                encode_param_value(&mut p, q);
            }
        }
    }
    p
}

// ------------------------------------------------------------------------------------------------
// self-check of the codec (run before every check; failure => inconclusive, never a violation)

pub fn selfcheck() -> R<()> {
    // lenenc round trip across classes
    for v in [0u64, 1, 250, 251, 252, 65535, 65536, (1 << 24) - 1, 1 << 24, u64::MAX] {
        let mut b = Vec::new();
        put_lenenc_int(&mut b, v);
        if b.len() != lenenc_int_size(v) {
            return Err(format!("lenenc size {}", v));
        }
        let mut r = Rd::new(&b);
        if r.lenenc_int()? != v || !r.done() {
            return Err(format!("lenenc round trip {}", v));
        }
    }
    // framing round trip incl. the exact-multiple trailer
    for n in [0usize, 1, 5, MAXP - 1, MAXP, MAXP + 1, 2 * MAXP] {
        let payload = vec![0xABu8; n];
        let (f, last) = frame(&payload, 250);
        let (pk, ms) = messages(&f)?;
        if ms.len() != 1 || ms[0].payload != payload {
            return Err(format!("frame round trip {}", n));
        }
        let expect_pk = n / MAXP + 1;
        if pk.len() != expect_pk || last != (250u8).wrapping_add((expect_pk - 1) as u8) {
            return Err(format!("frame packet count {}", n));
        }
    }
    // OK / ERR / EOF
    let ok = parse_ok(&[0, 0xFC, 0x00, 0x01, 5, 8, 0, 0, 0])?;
    if ok.affected != 256 || ok.last_id != 5 || ok.status != 8 {
        return Err("ok parse".into());
    }
    let e = parse_err(b"\xff\x15\x04#28000nope")?;
    if e.code != 1045 || &e.state != b"28000" || e.msg != b"nope" {
        return Err("err parse".into());
    }
    if !is_eof(&[0xFE, 0, 0, 2, 0]) || is_eof(&[0xFE, 0, 0, 0, 0, 0, 0, 0, 0]) {
        return Err("eof test".into());
    }
    // bin row: 3 columns (LONG signed, NULL, STRING)
    let row = [0u8, 0b0000_1000, 0xFF, 0xFF, 0xFF, 0xFF, 2, b'h', b'i'];
    let v = decode_bin_row(&row, &[(T_LONG, 0), (T_TINY, 0), (T_STRING, 0)])?;
    if v != vec![BinVal::Int(-1), BinVal::Null, BinVal::Bytes(b"hi".to_vec())] {
        return Err(format!("bin row {:?}", v));
    }
    // execute encoder vs an independently hand-assembled packet
    let p = com_execute(
        7,
        0,
        1,
        &[
            Param { typ: T_LONG, unsigned: false, value: Some(PVal::Int(-2)), long: false },
            Param { typ: T_VAR_STRING, unsigned: false, value: None, long: false },
        ],
        true,
    );
    let hand = [0x17, 7, 0, 0, 0, 0, 1, 0, 0, 0, 0b10, 1, 3, 0, 0xfd, 0, 0xFE, 0xFF, 0xFF, 0xFF];
    if p != hand {
        return Err("execute encoder".into());
    }
    Ok(())
}

/// Cheap subset of the self-check for slow interpreters (Miri).
pub fn selfcheck_light() -> R<()> {
    let mut b = Vec::new();
    put_lenenc_int(&mut b, 70000);
    let mut r = Rd::new(&b);
    if r.lenenc_int()? != 70000 {
        return Err("lenenc".into());
    }
    let (f, _) = frame(b"\x0e", 0);
    let (_, ms) = messages(&f)?;
    if ms.len() != 1 || ms[0].payload != b"\x0e" {
        return Err("frame".into());
    }
    Ok(())
}
