//! Executable sequential reference model of one connection: command routing, built-in prefixes,
//! UTF-8 gating, the statement registry, bound-type persistence and long-data accumulation.
//! It encodes only what the properties state.
use crate::shim::Script;
use crate::wire::{self, PVal, Param};
use std::collections::BTreeMap;

#[derive(Clone, Debug, PartialEq)]
pub enum MCmd {
    Query(Vec<u8>),
    Prepare(Vec<u8>),
    Init(Vec<u8>),
    FieldList(Vec<u8>),
    Ping,
    Quit,
    Close(u32),
    LongData { id: u32, param: u16, data: Vec<u8> },
    Execute { id: u32, params: Vec<Param>, send_types: bool },
}

#[derive(Clone, Debug, PartialEq)]
pub enum ExpVal {
    Null,
    Int(i64),
    UInt(u64),
    /// f64 bit pattern (FLOAT parameters are widened)
    Double(u64),
    Bytes(Vec<u8>),
    Date(Vec<u8>),
    Time(Vec<u8>),
    Datetime(Vec<u8>),
}
#[derive(Clone, Debug, PartialEq)]
pub struct ExpParam {
    pub typ: u8,
    pub unsigned: bool,
    pub val: ExpVal,
}

#[derive(Clone, Debug, PartialEq)]
pub enum ExpCb {
    Query(Vec<u8>),
    Prepare(Vec<u8>),
    Init(Vec<u8>),
    Execute { id: u32, params: Vec<ExpParam> },
    Close(u32),
}

#[derive(Clone, Debug, PartialEq)]
pub enum Exp {
    /// exactly this callback, nothing else
    Cb(ExpCb),
    /// answered by the library itself: no callback, exactly one reply
    Builtin,
    /// no callback and no reply (long data)
    Silent,
    /// connection ends Ok, nothing after it is served
    Quit,
    /// no callback; run_on must return Err; nothing after it is served
    ConnErr(&'static str),
}

#[derive(Clone, Debug, Default)]
pub struct StmtM {
    pub nparams: u16,
    pub bound: Option<Vec<(u8, bool)>>,
    pub long: BTreeMap<u16, Vec<u8>>,
}

#[derive(Clone, Debug, Default)]
pub struct Model {
    pub stmts: BTreeMap<u32, StmtM>,
    pub over: bool,
}

pub fn expected_value(typ: u8, unsigned: bool, v: &PVal) -> ExpVal {
    if typ == wire::T_NULL {
        return ExpVal::Null;
    }
    match v {
        PVal::Int(i) => {
            if unsigned {
                ExpVal::UInt(*i as u64)
            } else {
                ExpVal::Int(*i as i64)
            }
        }
        PVal::F32(b) => ExpVal::Double((f32::from_bits(*b) as f64).to_bits()),
        PVal::F64(b) => ExpVal::Double(*b),
        PVal::Bytes(b) => ExpVal::Bytes(b.clone()),
        PVal::Temporal(b) => match typ {
            wire::T_DATE => ExpVal::Date(b.clone()),
            wire::T_TIME => ExpVal::Time(b.clone()),
            _ => ExpVal::Datetime(b.clone()),
        },
    }
}

/// `USE` statement in the spellings the property lists -> bare schema name.
pub fn use_schema(rest: &str) -> String {
    let t = rest.trim();
    let t = t.strip_suffix(';').unwrap_or(t);
    let t = if t.len() >= 2 && t.starts_with('`') && t.ends_with('`') { &t[1..t.len() - 1] } else { t };
    t.to_string()
}

impl Model {
    /// `script`: the response program the shim will use if this command reaches a scripted callback
    /// (PREPARE needs it: the registry depends on how the shim answered).
    pub fn step(&mut self, c: &MCmd, script: Option<&Script>) -> Exp {
        assert!(!self.over);
        let e = self.step_inner(c, script);
        if matches!(e, Exp::Quit | Exp::ConnErr(_)) {
            self.over = true;
        }
        e
    }
    fn step_inner(&mut self, c: &MCmd, script: Option<&Script>) -> Exp {
        match c {
            MCmd::Query(q) => {
                if q.starts_with(b"SELECT @@") || q.starts_with(b"select @@") {
                    return Exp::Builtin;
                }
                if q.starts_with(b"USE ") || q.starts_with(b"use ") {
                    return match std::str::from_utf8(&q[4..]) {
                        Ok(s) => Exp::Cb(ExpCb::Init(use_schema(s).into_bytes())),
                        Err(_) => Exp::ConnErr("USE with invalid UTF-8"),
                    };
                }
                match std::str::from_utf8(q) {
                    Ok(_) => Exp::Cb(ExpCb::Query(q.clone())),
                    Err(_) => Exp::ConnErr("query text is not UTF-8"),
                }
            }
            MCmd::Prepare(q) => match std::str::from_utf8(q) {
                Ok(_) => {
                    if let Some(Script::PrepOk { id, params, .. }) = script {
                        self.stmts.insert(*id, StmtM { nparams: params.len() as u16, bound: None, long: BTreeMap::new() });
                    }
                    Exp::Cb(ExpCb::Prepare(q.clone()))
                }
                Err(_) => Exp::ConnErr("prepare text is not UTF-8"),
            },
            MCmd::Init(n) => match std::str::from_utf8(n) {
                Ok(_) => Exp::Cb(ExpCb::Init(n.clone())),
                Err(_) => Exp::ConnErr("schema name is not UTF-8"),
            },
            MCmd::FieldList(_) | MCmd::Ping => Exp::Builtin,
            MCmd::Quit => Exp::Quit,
            MCmd::Close(id) => {
                self.stmts.remove(id);
                Exp::Cb(ExpCb::Close(*id))
            }
            MCmd::LongData { id, param, data } => match self.stmts.get_mut(id) {
                None => Exp::ConnErr("long data for a statement id that is not live"),
                Some(s) => {
                    s.long.entry(*param).or_default().extend_from_slice(data);
                    Exp::Silent
                }
            },
            MCmd::Execute { id, params, send_types } => match self.stmts.get_mut(id) {
                None => Exp::ConnErr("execute of a statement id that is not live"),
                Some(s) => {
                    assert_eq!(params.len(), s.nparams as usize, "generator must send exactly the declared parameters");
                    if *send_types {
                        s.bound = Some(params.iter().map(|p| (p.typ, p.unsigned)).collect());
                    }
                    let bound = s.bound.clone().unwrap_or_default();
                    let mut out = Vec::new();
                    for (i, p) in params.iter().enumerate() {
                        let (typ, unsigned) = bound.get(i).copied().unwrap_or((p.typ, p.unsigned));
                        let val = if let Some(l) = s.long.get(&(i as u16)) {
                            ExpVal::Bytes(l.clone())
                        } else {
                            match &p.value {
                                None => ExpVal::Null,
                                Some(v) => expected_value(typ, unsigned, v),
                            }
                        };
                        out.push(ExpParam { typ, unsigned, val });
                    }
                    s.long.clear();
                    Exp::Cb(ExpCb::Execute { id: *id, params: out })
                }
            },
        }
    }
}

pub fn selfcheck() -> Result<(), String> {
    let mut m = Model::default();
    let p = Script::PrepOk { id: 3, params: vec![], cols: vec![] };
    if m.step(&MCmd::Prepare(b"x".to_vec()), Some(&p)) != Exp::Cb(ExpCb::Prepare(b"x".to_vec())) {
        return Err("model prepare".into());
    }
    if m.step(&MCmd::Query(b"use `a b`;".to_vec()), None) != Exp::Cb(ExpCb::Init(b"a b".to_vec())) {
        return Err("model use".into());
    }
    if m.step(&MCmd::Query(b"select @@x".to_vec()), None) != Exp::Builtin {
        return Err("model builtin".into());
    }
    if m.step(&MCmd::Close(3), None) != Exp::Cb(ExpCb::Close(3)) {
        return Err("model close".into());
    }
    if !matches!(m.step(&MCmd::Execute { id: 3, params: vec![], send_types: false }, None), Exp::ConnErr(_)) {
        return Err("model execute after close".into());
    }
    Ok(())
}
