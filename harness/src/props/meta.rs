//! C09 (column metadata) and C14 (completion counts).
use super::common::*;
use crate::core::*;
use crate::second;
use crate::shim::*;
use crate::util::*;
use crate::wire::{self, ColDef, Part, Resp};
use msql_srv::{Column, ColumnFlags, ColumnType};

// ------------------------------------------------------------------------------------------------
// C14

const EDGE: [u64; 20] = [0, 1, 250, 251, 252, 65_535, 65_536, (1 << 24) - 1, 1 << 24, 1 << 32, 1 << 63, u64::MAX, u64::MAX - 1, 255, (1 << 31) - 1, 1 << 31, (1 << 32) - 1, (1 << 63) - 1, (1 << 16) + 1, 256];

fn lenenc_class(v: u64) -> &'static str {
    match v {
        0..=250 => "1B",
        251..=65_535 => "3B",
        65_536..=16_777_215 => "4B",
        _ => "9B",
    }
}

fn pick_u64(rng: &mut Rng) -> u64 {
    if rng.chance(2, 3) {
        *rng.pick(&EDGE)
    } else {
        match rng.below(4) {
            0 => rng.below(300),
            1 => rng.below(1 << 17),
            2 => rng.below(1 << 25),
            _ => rng.next(),
        }
    }
}

pub fn run_c14(ctx: &Ctx) -> Report {
    let mut rep = Report::default();
    rep.rule = "cases = completions (affected rows, last insert id) over the length-encoded-integer size classes, single and chained, text and binary mode, plus zero-column resultsets with k ended rows; a class is a (lenenc class of rows, lenenc class of id, mode, chained?) tuple; non-trivial = an OK packet was decoded (reference decoder + mysql_common) and compared with the u64 pair given".into();
    // (a) the full cross product of edge values, both modes
    let pairs: Vec<(u64, u64)> = EDGE.iter().flat_map(|&a| EDGE.iter().map(move |&b| (a, b))).collect();
    let n = if ctx.miri { 4 } else { (pairs.len() * 2) as u64 + ctx.n(3000, 200_000) };
    let r = par_cases(ctx, "C14", "ok", n, |rng, i, rep| {
        let bin = i % 2 == 1;
        let chain = if (i as usize) < pairs.len() * 2 { 1 } else { rng.range(1, 5) as usize };
        let vals: Vec<(u64, u64)> = (0..chain).map(|k| if (i as usize) < pairs.len() * 2 && k == 0 { pairs[i as usize / 2] } else { (pick_u64(rng), pick_u64(rng)) }).collect();
        let mut ops = Vec::new();
        for (k, (a, b)) in vals.iter().enumerate() {
            if k + 1 == vals.len() && rng.bool() {
                ops.push(QOp::Completed(*a, *b));
            } else {
                ops.push(QOp::CompleteOne(*a, *b));
            }
        }
        if matches!(ops.last(), Some(QOp::CompleteOne(..))) {
            if rng.bool() {
                ops.push(QOp::NoMore);
            }
        }
        let cmds = vec![Cmd::prepare(b"p"), if bin { Cmd::execute(1, &[], false) } else { Cmd::query(b"q") }, Cmd::ping()];
        let scripts = vec![Script::PrepOk { id: 1, params: vec![], cols: vec![] }, Script::Q(QProg { colsets: vec![], ops, on_err: OnErr::Drop })];
        let mut case = varied_case(rng, cmds, scripts);
        // a fifth of the cases: a transport that takes a few bytes at a time and, once, says "not now"
        // (WouldBlock / TimedOut / Interrupted) - often with part of a packet already taken. The server
        // may give up; if run_on returns Ok the counts the client decodes are the ones reported
        let slow = !ctx.miri && i % 5 == 3 && !case.over_tls;
        if slow {
            case.write_limit = *rng.pick(&[1usize, 2, 3, 7]);
            case.fault = Default::default();
            let dry = run_case(&case);
            let nops = dry.world.nops.max(2);
            case.fault.err_at = Some(nops / 3 + rng.below(nops - nops / 3));
            case.fault.persistent = false;
            case.fault.err_kind = 100 + (i / 5 % 3) as u8;
        }
        let obs = run_case(&case);
        rep.evaluations += 1;
        if harness_panic(&obs, rep) {
            return;
        }
        if slow {
            if obs.outcome != Outcome::Ok {
                rep.counters.inc("slow_transport_ended_the_connection");
                return;
            }
            rep.counters.inc("slow_transport_survived_counts_compared");
        }
        for (a, b) in &vals {
            rep.counters.class(format!("rows={} id={} {} {}", lenenc_class(*a), lenenc_class(*b), if bin { "bin" } else { "text" }, if chain > 1 { "chained" } else { "single" }));
        }
        let d = || J::obj().set("mode", if bin { "binary" } else { "text" }).set("completions", vals.iter().map(|(a, b)| J::s(format!("({}, {})", a, b))).collect::<Vec<_>>()).set("outcome", obs.outcome.describe());
        if i < 2 {
            rep.sample(d());
        }
        let (_, msgs, dec) = match decode_output(&obs) {
            Ok(x) => x,
            Err(e) => {
                rep.violations.push(viol("C14", "C14 bad-framing".into(), e, d()));
                return;
            }
        };
        let Some(Resp::Parts(parts)) = dec.resps.get(3) else {
            rep.violations.push(viol("C14", "C14 undecodable-response".into(), format!("completion response does not decode: {:?}", dec.stop), d()));
            return;
        };
        let got: Vec<(u64, u64)> = parts.iter().filter_map(|p| if let Part::Ok(o) = p { Some((o.affected, o.last_id)) } else { None }).collect();
        if got != vals || parts.len() != vals.len() {
            rep.violations.push(viol("C14", "C14 ok-counts-differ".into(), format!("client decoded OK packets {:?}, shim reported {:?}", got, vals), d()));
            return;
        }
        rep.counters.add("ok_packets_compared", got.len() as u64);
        let sp = dec.spans[3];
        for (m, want) in msgs[sp.0..sp.1].iter().zip(vals.iter()) {
            match second::ok(&m.payload) {
                Ok((a, b, _, _)) => {
                    if (a, b) != *want {
                        rep.inconclusive.push("wire and mysql_common disagree on an OK packet".into());
                    } else {
                        rep.counters.inc("ok_packets_cross_checked");
                    }
                }
                Err(e) => rep.violations.push(viol("C14", "C14 ok-rejected-by-client-parser".into(), format!("mysql_common's OK parser rejects the packet: {}", e), d())),
            }
        }
    });
    rep.merge(r);

    // (b) zero-column resultsets: affected rows = number of rows ended
    let counts: Vec<usize> = if ctx.miri { vec![0, 2] } else { vec![0, 1, 2, 250, 251, 252, 300, 70_000, 65_535, 65_536] };
    let n = counts.len() as u64 * 16;
    let r = par_cases(ctx, "C14", "zero-col", n, |_rng, i, rep| {
        let k = counts[i as usize / 16];
        let by_row = i % 2 == 0;
        let bin = (i / 2) % 2 == 1;
        let mut ops = vec![QOp::Start(0)];
        for _ in 0..k {
            ops.push(if by_row { QOp::Row(vec![], RowForm::Owned) } else { QOp::EndRow });
        }
        // every way a backend may leave the resultset: finish(), letting the writer go out of scope
        // (explicitly, or at the end of the callback), finish_one() and then no_more_results()
        let ending = ["finish", "drop", "scope-end", "finish_one+no_more_results"][(i as usize / 4) % 4];
        match ending {
            "finish" => ops.push(QOp::Finish),
            "drop" => ops.push(QOp::DropRow),
            "scope-end" => {}
            _ => {
                ops.push(QOp::FinishOne);
                ops.push(QOp::NoMore);
            }
        }
        let cmds = vec![Cmd::prepare(b"p"), if bin { Cmd::execute(1, &[], false) } else { Cmd::query(b"q") }, Cmd::ping()];
        let scripts = vec![Script::PrepOk { id: 1, params: vec![], cols: vec![] }, Script::Q(QProg { colsets: vec![vec![]], ops, on_err: OnErr::Drop })];
        let obs = run_case(&Case::new(cmds, scripts));
        rep.evaluations += 1;
        if harness_panic(&obs, rep) {
            return;
        }
        rep.counters.class(format!("zero-column set with rows={} ended by {} {} left by {}", lenenc_class(k as u64), if by_row { "write_row" } else { "end_row" }, if bin { "bin" } else { "text" }, ending));
        let d = || J::obj().set("rows_ended", k).set("by", if by_row { "write_row" } else { "end_row" }).set("mode", if bin { "binary" } else { "text" }).set("left_by", ending).set("outcome", obs.outcome.describe());
        if i == 0 {
            rep.sample(d());
        }
        let dec = match decode_output(&obs) {
            Ok(x) => x.2,
            Err(e) => {
                rep.violations.push(viol("C14", "C14 bad-framing".into(), e, d()));
                return;
            }
        };
        match dec.resps.get(3) {
            Some(Resp::Parts(parts)) if parts.len() == 1 => match &parts[0] {
                Part::Ok(o) if o.affected == k as u64 => rep.counters.inc("zero_column_counts_compared"),
                other => rep.violations.push(viol("C14", "C14 zero-column-count-differs".into(), format!("zero-column resultset with {} rows ended is reported as {:?}", k, other).chars().take(300).collect(), d())),
            },
            other => rep.violations.push(viol("C14", "C14 zero-column-not-ok".into(), format!("zero-column resultset is not answered by a single OK: {:?} / {:?}", other.map(|_| "decoded"), dec.stop), d())),
        }
    });
    rep.merge(r);
    // (c) chained responses: every zero-column set's OK must report ITS OWN number of ended rows
    let n = if ctx.miri { 2 } else { ctx.n(1500, 60_000) };
    let r = par_cases(ctx, "C14", "chain", n, |rng, i, rep| {
        let bin = rng.bool();
        let nsets = rng.range(2, 6) as usize;
        let cols1 = vec![simple_col("a", ColumnType::MYSQL_TYPE_LONG)];
        let mut ops = Vec::new();
        let mut want: Vec<Option<(u64, u64)>> = Vec::new(); // Some = OK expected with these counts, None = resultset
        let mut shape = String::new();
        for s in 0..nsets {
            let last = s + 1 == nsets;
            match rng.below(3) {
                0 => {
                    let k = rng.below(6);
                    ops.push(QOp::Start(0));
                    for _ in 0..k {
                        if rng.chance(1, 4) {
                            // values written to a resultset without columns are ignored
                            ops.push(QOp::Col(Cell::val(V::I32(5))));
                        }
                        ops.push(if rng.bool() { QOp::Row(vec![], RowForm::Owned) } else { QOp::EndRow });
                    }
                    ops.push(if !last { QOp::FinishOne } else if rng.bool() { QOp::Finish } else { QOp::DropRow });
                    want.push(Some((k, 0)));
                    shape.push_str(&format!("Z{} ", k));
                }
                1 => {
                    let k = rng.below(5);
                    ops.push(QOp::Start(1));
                    for r in 0..k {
                        ops.push(QOp::Row(vec![Cell::val(V::I32(r as i32))], RowForm::Owned));
                    }
                    ops.push(if last { QOp::Finish } else { QOp::FinishOne });
                    want.push(None);
                    shape.push_str(&format!("R{} ", k));
                }
                _ => {
                    let (a, b) = (pick_u64(rng), pick_u64(rng));
                    ops.push(if last { QOp::Completed(a, b) } else { QOp::CompleteOne(a, b) });
                    want.push(Some((a, b)));
                    shape.push_str("C ");
                }
            }
        }
        // a quarter of the chains end with an error reported after the last completion: every count
        // reported before it still reaches the client, in front of the ERR
        let ends_with_err = rng.chance(1, 4);
        if ends_with_err {
            match ops.pop() {
                Some(QOp::Finish) | Some(QOp::DropRow) => ops.push(QOp::FinishOne),
                Some(QOp::Completed(a, b)) => ops.push(QOp::CompleteOne(a, b)),
                Some(other) => ops.push(other),
                None => {}
            }
            ops.push(QOp::Error(1105, b"the next statement of the batch failed".to_vec()));
            shape.push_str("E ");
            rep.counters.inc("chains_ending_with_an_error");
        }
        let cmds = vec![Cmd::prepare(b"p"), if bin { Cmd::execute(1, &[], false) } else { Cmd::query(b"q") }, Cmd::ping()];
        let scripts = vec![Script::PrepOk { id: 1, params: vec![], cols: vec![] }, Script::Q(QProg { colsets: vec![vec![], cols1.clone()], ops, on_err: OnErr::Drop })];
        let obs = run_case(&varied_case(rng, cmds, scripts));
        rep.evaluations += 1;
        if harness_panic(&obs, rep) {
            return;
        }
        rep.counters.class(format!("chain {}", shape.split(' ').filter(|s| !s.is_empty()).map(|s| &s[..1]).collect::<Vec<_>>().join("")));
        let d = || J::obj().set("mode", if bin { "binary" } else { "text" }).set("chain (Zk = zero-column set with k rows, Rk = 1-column set with k rows, C = completion)", shape.clone()).set("outcome", obs.outcome.describe());
        if i == 0 {
            rep.sample(d());
        }
        let dec = match decode_output(&obs) {
            Ok(x) => x.2,
            Err(e) => {
                rep.violations.push(viol("C14", "C14 bad-framing".into(), e, d()));
                return;
            }
        };
        let Some(Resp::Parts(parts)) = dec.resps.get(3) else {
            rep.violations.push(viol("C14", "C14 undecodable-response".into(), format!("chained response does not decode: {:?}", dec.stop), d()));
            return;
        };
        if parts.len() != want.len() + ends_with_err as usize || (ends_with_err && !matches!(parts.last(), Some(Part::Err(_)))) {
            rep.violations.push(viol("C14", "C14 chain-length".into(), format!("{} parts decoded, {} written{}", parts.len(), want.len() + ends_with_err as usize, if ends_with_err { " (the last one an ERR)" } else { "" }), d()));
            return;
        }
        for (k, (p, w)) in parts.iter().zip(want.iter()).enumerate() {
            match (p, w) {
                (Part::Ok(o), Some((a, b))) => {
                    if (o.affected, o.last_id) != (*a, *b) {
                        rep.violations.push(viol("C14", "C14 chained-count-differs".into(), format!("part {} of the chain: OK({}, {}) but the shim reported ({}, {})", k, o.affected, o.last_id, a, b), d()));
                        return;
                    }
                    rep.counters.inc("chained_counts_compared");
                }
                (Part::Rows { .. }, None) => {}
                _ => {
                    rep.violations.push(viol("C14", "C14 chain-shape".into(), format!("part {} has the wrong kind", k), d()));
                    return;
                }
            }
        }
    });
    rep.merge(r);
    // (d) long chains: 254..258 and 510..514 completions in one reply (the reply's packet count passes
    //     a multiple of 256), then another statement: every OK carries its own counts, the statement
    //     behind the chain its own
    let lens: Vec<usize> = if ctx.miri { vec![3] } else { vec![254, 255, 256, 257, 258, 510, 511, 512, 513] };
    let r = par_cases(ctx, "C14", "long-chains", lens.len() as u64 * 2, |rng, i, rep| {
        let n = lens[i as usize / 2];
        let bin = i % 2 == 1;
        let mut ops = Vec::new();
        let mut want = Vec::new();
        for k in 0..n {
            let (a, b) = (k as u64 * 3 + 1, if rng.bool() { 0 } else { pick_u64(rng) });
            ops.push(if k + 1 == n { QOp::Completed(a, b) } else { QOp::CompleteOne(a, b) });
            want.push((a, b));
        }
        let cmds = vec![Cmd::prepare(b"p"), if bin { Cmd::execute(1, &[], false) } else { Cmd::query(b"chain") }, Cmd::query(b"behind"), Cmd::ping()];
        let scripts = vec![Script::PrepOk { id: 1, params: vec![], cols: vec![] }, Script::Q(QProg { colsets: vec![], ops, on_err: OnErr::Drop }), Script::Q(QProg::completed(7, 9))];
        let obs = run_case(&varied_case(rng, cmds, scripts));
        rep.evaluations += 1;
        if harness_panic(&obs, rep) {
            return;
        }
        rep.counters.class(format!("chain of {} completions ({})", n, if bin { "bin" } else { "text" }));
        let d = || J::obj().set("completions_in_one_reply", n).set("mode", if bin { "binary" } else { "text" }).set("outcome", obs.outcome.describe());
        if i == 0 {
            rep.sample(d());
        }
        let dec = match decode_output(&obs) {
            Ok(x) => x.2,
            Err(e) => {
                rep.violations.push(viol("C14", "C14 bad-framing".into(), e, d()));
                return;
            }
        };
        let got: Option<Vec<(u64, u64)>> = match dec.resps.get(3) {
            Some(Resp::Parts(parts)) => parts.iter().map(|p| if let Part::Ok(o) = p { Some((o.affected, o.last_id)) } else { None }).collect(),
            _ => None,
        };
        if got.as_deref() != Some(&want[..]) {
            rep.violations.push(viol("C14", "C14 long-chain-counts-differ".into(), format!("a chain of {} completions arrives as {} parts{}", n, got.as_ref().map(|g| g.len()).unwrap_or(0), if got.is_none() { " (not a chain of OK packets)" } else { " with other counts" }), d()));
            return;
        }
        match dec.resps.get(4) {
            Some(Resp::Parts(parts)) if matches!(&parts[..], [Part::Ok(o)] if (o.affected, o.last_id) == (7, 9)) => rep.counters.add("chained_counts_compared", n as u64 + 1),
            other => rep.violations.push(viol("C14", "C14 count-behind-long-chain-differs".into(), format!("the statement behind a chain of {} completions reported (7, 9); the client got {:?}", n, other).chars().take(300).collect(), d())),
        }
    });
    rep.merge(r);
    rep.merge(super::mega::run(ctx, "C14", 1500, 60000));
    if ctx.strict() {
        rep.require("chained_counts_compared", 100);
        rep.require("ok_packets_compared", 100);
        rep.require("zero_column_counts_compared", 10);
    }
    rep
}

// ------------------------------------------------------------------------------------------------
// C09

const ALL_TYPES: [ColumnType; 31] = [
    ColumnType::MYSQL_TYPE_DECIMAL,
    ColumnType::MYSQL_TYPE_TINY,
    ColumnType::MYSQL_TYPE_SHORT,
    ColumnType::MYSQL_TYPE_LONG,
    ColumnType::MYSQL_TYPE_FLOAT,
    ColumnType::MYSQL_TYPE_DOUBLE,
    ColumnType::MYSQL_TYPE_NULL,
    ColumnType::MYSQL_TYPE_TIMESTAMP,
    ColumnType::MYSQL_TYPE_LONGLONG,
    ColumnType::MYSQL_TYPE_INT24,
    ColumnType::MYSQL_TYPE_DATE,
    ColumnType::MYSQL_TYPE_TIME,
    ColumnType::MYSQL_TYPE_DATETIME,
    ColumnType::MYSQL_TYPE_YEAR,
    ColumnType::MYSQL_TYPE_NEWDATE,
    ColumnType::MYSQL_TYPE_VARCHAR,
    ColumnType::MYSQL_TYPE_BIT,
    ColumnType::MYSQL_TYPE_TIMESTAMP2,
    ColumnType::MYSQL_TYPE_DATETIME2,
    ColumnType::MYSQL_TYPE_TIME2,
    ColumnType::MYSQL_TYPE_JSON,
    ColumnType::MYSQL_TYPE_NEWDECIMAL,
    ColumnType::MYSQL_TYPE_ENUM,
    ColumnType::MYSQL_TYPE_SET,
    ColumnType::MYSQL_TYPE_TINY_BLOB,
    ColumnType::MYSQL_TYPE_MEDIUM_BLOB,
    ColumnType::MYSQL_TYPE_LONG_BLOB,
    ColumnType::MYSQL_TYPE_BLOB,
    ColumnType::MYSQL_TYPE_VAR_STRING,
    ColumnType::MYSQL_TYPE_STRING,
    ColumnType::MYSQL_TYPE_GEOMETRY,
];

fn name_of(rng: &mut Rng, len: usize) -> String {
    let pool: Vec<char> = "abcXYZ_09 `.'\"é数ж𝄞".chars().collect();
    let mut s = String::new();
    while s.len() < len {
        let c = *rng.pick(&pool);
        if s.len() + c.len_utf8() <= len {
            s.push(c);
        } else {
            s.push('x');
        }
    }
    s
}

fn name_len(rng: &mut Rng, big_ok: bool) -> usize {
    match rng.below(12) {
        0 => 0,
        1 => 1,
        2 => 250,
        3 => 251,
        4 => 252,
        5 if big_ok => 65_535,
        6 if big_ok => 65_536,
        _ => rng.range(1, 40) as usize,
    }
}

fn gen_cols(rng: &mut Rng, n: usize, big_names: bool) -> Vec<Column> {
    let mut bigs = 0;
    (0..n)
        .map(|_| {
            let mut nl = name_len(rng, big_names && bigs < 2);
            let mut tl = name_len(rng, big_names && bigs < 2);
            if nl > 60_000 {
                bigs += 1;
            }
            if tl > 60_000 {
                bigs += 1;
            }
            if n > 50 {
                nl = nl.min(300);
                tl = tl.min(300);
            }
            let flags = match rng.below(4) {
                0 => ColumnFlags::from_bits_truncate(1 << rng.below(16)),
                1 => ColumnFlags::all(),
                2 => ColumnFlags::empty(),
                _ => ColumnFlags::from_bits_truncate(rng.next() as u16),
            };
            Column { table: name_of(rng, tl), column: name_of(rng, nl), coltype: *rng.pick(&ALL_TYPES), colflags: flags }
        })
        .collect()
}

fn cmp_cols(what: &str, got: &[ColDef], want: &[Column]) -> Result<(), (String, String)> {
    if got.len() != want.len() {
        return Err(("count".into(), format!("{}: client decoded {} definitions, shim declared {}", what, got.len(), want.len())));
    }
    for (i, (g, w)) in got.iter().zip(want.iter()).enumerate() {
        if g.table != w.table.as_bytes() {
            return Err(("table".into(), format!("{} #{}: table {} != declared {}", what, i, show(&g.table), show(w.table.as_bytes()))));
        }
        if g.name != w.column.as_bytes() {
            return Err(("name".into(), format!("{} #{}: name {} != declared {}", what, i, show(&g.name), show(w.column.as_bytes()))));
        }
        if g.typ != w.coltype as u8 {
            return Err(("type".into(), format!("{} #{}: type 0x{:02x} != declared {:?} (0x{:02x})", what, i, g.typ, w.coltype, w.coltype as u8)));
        }
        if g.flags != w.colflags.bits() {
            return Err(("flags".into(), format!("{} #{}: flags 0x{:04x} != declared 0x{:04x}", what, i, g.flags, w.colflags.bits())));
        }
    }
    Ok(())
}

pub fn run_c09(ctx: &Ctx) -> Report {
    let mut rep = Report::default();
    rep.rule = "cases = descriptor lists (0..1000 entries, names of 0/1/250/251/252/65535/65536 bytes incl. non-ASCII, every ColumnType variant, single/all/random flag bits) declared in resultset headers and in PREPARE replies with edge statement ids; a class is a (count class, name-length class, type, flag class) tuple; non-trivial = definitions were decoded by the reference decoder (and mysql_common's Column parser) and compared field by field".into();
    let n = if ctx.miri { 3 } else { ctx.n(1500, 60_000) };
    let r = par_cases(ctx, "C09", "defs", n, |rng, i, rep| {
        let counts: &[usize] = if ctx.miri { &[0, 1, 2] } else if ctx.thorough { &[0, 1, 2, 3, 250, 251, 252, 300, 1000] } else { &[0, 1, 2, 3, 250, 251, 252, 300] };
        // (two cases per run fill a 16-bit count of the PREPARE reply to its limit)
        let np = if !ctx.miri && i == 9 { 65_535 } else if rng.chance(1, 6) { *rng.pick(counts) } else { rng.below(4) as usize };
        let nc = if !ctx.miri && i == 11 { 65_535 } else if rng.chance(1, 6) { *rng.pick(counts) } else { rng.below(5) as usize };
        // resultset headers can carry any number of columns (the count is length-encoded): a few
        // cases cross 2^16 (PREPARE replies cannot: their counts are 16-bit fields)
        let nr = if !ctx.miri && (i == 7 || (ctx.thorough && i % 5000 == 11)) { *rng.pick(&[65_535usize, 65_536, 65_537, 70_000]) } else if rng.chance(1, 6) { (*rng.pick(counts)).max(1) } else { rng.range(1, 5) as usize };
        let big = i % 5 == 0;
        let params = gen_cols(rng, np, big);
        let pcols = gen_cols(rng, nc, big);
        let rcols = gen_cols(rng, nr, big);
        let id = *rng.pick(&[0u32, 1, 1 << 31, u32::MAX, 0x0102_0304, 0xFFFF_FF00]);
        let id = if rng.bool() { id } else { rng.next() as u32 };
        // every third case re-announces the same statement id with different parameter/column lists
        let reprepare = i % 3 == 2;
        let (np2, nc2) = (rng.below(5) as usize, rng.below(5) as usize);
        let params2 = gen_cols(rng, np2, false);
        let pcols2 = gen_cols(rng, nc2, false);
        // the statement text is the backend's business: whatever it looks like (placeholders the
        // backend did not declare, question marks in comments, literals and operators), the reply
        // carries what the backend declared
        let ptext: &[u8] = *rng.pick(&[&b"p"[..], b"select ?", b"select ?, ?, ? from t where a = ?", b"DELETE FROM audit -- really?", b"/* sure? */ UPDATE t SET a = 1", b"select * from j where tags ? 'urgent'", b"select '?', \"?\", `?`", b"", b"?"]);
        let mut cmds = vec![Cmd::prepare(ptext), Cmd::query(b"q"), Cmd::ping()];
        let mut scripts = vec![
            Script::PrepOk { id, params: params.clone(), cols: pcols.clone() },
            Script::Q(QProg { colsets: vec![rcols.clone()], ops: vec![QOp::Start(0), QOp::Finish], on_err: OnErr::Drop }),
        ];
        if reprepare {
            cmds.push(Cmd::prepare(b"p again"));
            cmds.push(Cmd::ping());
            scripts.push(Script::PrepOk { id, params: params2.clone(), cols: pcols2.clone() });
        }
        let mut case = Case::new(cmds, scripts);
        // what the client announced in its handshake (layout, capabilities) must not matter
        vary_transport(rng, &mut case);
        let (hs, hs_class) = random_handshake(rng);
        case.handshake = hs;
        rep.counters.class(format!("handshake {}", hs_class));
        if hs_class.starts_with("3.20") {
            rep.counters.inc("cases_after_a_320_handshake");
        }
        let obs = run_case(&case);
        rep.evaluations += 1;
        if harness_panic(&obs, rep) {
            return;
        }
        let cc = |n: usize| match n {
            0 => "0",
            1 => "1",
            2..=249 => "2-249",
            250 => "250",
            251 => "251",
            252..=300 => "252-300",
            _ => ">300",
        };
        rep.counters.class(format!("params={} prepcols={} rescols={}", cc(np), cc(nc), cc(nr)));
        for c in params.iter().chain(pcols.iter()).chain(rcols.iter()).take(8) {
            rep.counters.class(format!("type {:?}", c.coltype));
            rep.counters.class(format!("name-len {}", len_class(c.column.len())));
            rep.counters.class(format!("flags {}", match c.colflags.bits().count_ones() { 0 => "none", 1 => "single", 16 => "all", _ => "mixed" }));
        }
        let d = || {
            J::obj()
                .set("stmt_id", id)
                .set("handshake", hs_class.clone())
                .set("params", np)
                .set("prepare_columns", nc)
                .set("result_columns", nr)
                .set("first_result_column", rcols.first().map(|c| format!("{}.{} {:?} 0x{:04x}", show(c.table.as_bytes()), show(c.column.as_bytes()), c.coltype, c.colflags.bits())).unwrap_or_default())
                .set("outcome", obs.outcome.describe())
        };
        if i < 2 {
            rep.sample(d());
        }
        let (_, msgs, dec) = match decode_output(&obs) {
            Ok(x) => x,
            Err(e) => {
                rep.violations.push(viol("C09", "C09 bad-framing".into(), e, d()));
                return;
            }
        };
        if dec.stop.is_some() || dec.resps.len() < if reprepare { 7 } else { 5 } {
            rep.violations.push(viol("C09", "C09 undecodable-response".into(), format!("metadata response does not decode: {:?}", dec.stop), d()));
            return;
        }
        match &dec.resps[2] {
            Resp::PrepareOk { id: gid, ncols, nparams, params: gp, cols: gc, .. } => {
                if *gid != id || *ncols as usize != nc || *nparams as usize != np {
                    rep.violations.push(viol("C09", "C09 prepare-ok-header".into(), format!("COM_STMT_PREPARE_OK says (id {}, {} columns, {} params), shim declared (id {}, {} columns, {} params)", gid, ncols, nparams, id, nc, np), d()));
                    return;
                }
                rep.counters.inc("prepare_ok_headers_compared");
                for (what, g, w) in [("parameter definition", gp, &params), ("prepare column definition", gc, &pcols)] {
                    if let Err((k, e)) = cmp_cols(what, g, w) {
                        rep.violations.push(viol("C09", format!("C09 prepare-{}-differs", k), e, d()));
                        return;
                    }
                    rep.counters.add("definitions_compared", g.len() as u64);
                }
            }
            other => {
                rep.violations.push(viol("C09", "C09 prepare-reply-kind".into(), format!("PREPARE answered by {:?}", other).chars().take(200).collect(), d()));
                return;
            }
        }
        if reprepare {
            match &dec.resps[5] {
                Resp::PrepareOk { id: gid, ncols, nparams, params: gp, cols: gc, .. } => {
                    if *gid != id || *ncols as usize != nc2 || *nparams as usize != np2 {
                        rep.violations.push(viol("C09", "C09 reprepare-ok-header".into(), format!("second COM_STMT_PREPARE_OK for id {} says ({} columns, {} params), the shim declared ({} columns, {} params); the first PREPARE of this id had ({}, {})", id, ncols, nparams, nc2, np2, nc, np), d()));
                        return;
                    }
                    for (what, g, w) in [("re-prepared parameter definition", gp, &params2), ("re-prepared column definition", gc, &pcols2)] {
                        if let Err((k, e)) = cmp_cols(what, g, w) {
                            rep.violations.push(viol("C09", format!("C09 reprepare-{}-differs", k), e, d()));
                            return;
                        }
                    }
                    rep.counters.inc("re_prepare_headers_compared");
                }
                other => {
                    rep.violations.push(viol("C09", "C09 prepare-reply-kind".into(), format!("second PREPARE answered by {:?}", other).chars().take(200).collect(), d()));
                    return;
                }
            }
        }
        match &dec.resps[3] {
            Resp::Parts(parts) => match parts.first() {
                Some(Part::Rows { cols, .. }) => {
                    if let Err((k, e)) = cmp_cols("resultset column definition", cols, &rcols) {
                        rep.violations.push(viol("C09", format!("C09 resultset-{}-differs", k), e, d()));
                        return;
                    }
                    rep.counters.add("definitions_compared", cols.len() as u64);
                }
                other => {
                    rep.violations.push(viol("C09", "C09 resultset-header-missing".into(), format!("query answered by {:?}", other).chars().take(200).collect(), d()));
                    return;
                }
            },
            _ => return,
        }
        // second opinion on every raw definition message (skip the 64 KiB ones for speed)
        for sp in [dec.spans[2], dec.spans[3]] {
            for m in &msgs[sp.0..sp.1] {
                let b = &m.payload;
                if b.len() > 20 && b.len() < 5000 && b.starts_with(b"\x03def") {
                    match (second::column(b), wire::parse_coldef(b, false)) {
                        (Ok((t, nme, ty, fl)), Ok(w)) => {
                            if (t, nme, ty, fl) != (w.table.clone(), w.name.clone(), w.typ, w.flags) {
                                rep.inconclusive.push("wire and mysql_common disagree on a column definition".into());
                            } else {
                                rep.counters.inc("definitions_cross_checked");
                            }
                        }
                        (Err(e), Ok(w)) => {
                            // mysql_common refuses type codes it does not know; only known ones count
                            if ColumnType::try_from(w.typ).is_ok() {
                                rep.violations.push(viol("C09", "C09 definition-rejected-by-client-parser".into(), format!("mysql_common's Column parser rejects a definition: {}", e), d()));
                                return;
                            }
                        }
                        _ => {}
                    }
                }
            }
        }
    });
    rep.merge(r);
    // ---- metadata replies behind commands that must not be answered (long data for an id that was
    //      closed or never prepared, long data for an out-of-range parameter, CLOSE of unknown ids):
    //      whatever the server does with the connection, every PREPARE reply and resultset header
    //      that does reach the client is the one of ITS command
    let n = if ctx.miri { 2 } else { ctx.n(400, 10_000) };
    let r = par_cases(ctx, "C09", "after-stray-commands", n, |rng, i, rep| {
        let warm = gen_cols(rng, 2, false);
        let (n1, n2, n3, n4, n5) = (rng.below(3) as usize, rng.range(1, 3) as usize, rng.below(3) as usize, rng.range(1, 4) as usize, rng.range(1, 4) as usize);
        let a_params = gen_cols(rng, n1, false);
        let a_cols = gen_cols(rng, n2, false);
        let b_params = gen_cols(rng, n3, false);
        let b_cols = gen_cols(rng, n4, false);
        let c_cols = gen_cols(rng, n5, false);
        let mut cmds = vec![Cmd::prepare(b"warm")];
        let mut scripts = vec![Script::PrepOk { id: 7, params: vec![], cols: warm.clone() }];
        let stray = rng.below(4);
        let sname = match stray {
            0 => {
                cmds.push(Cmd::close(7));
                cmds.push(Cmd::long_data(7, 0, b"late chunk"));
                "long data for a statement closed just before"
            }
            1 => {
                cmds.push(Cmd::long_data(4242, 0, b"for nobody"));
                "long data for an id never prepared"
            }
            2 => {
                cmds.push(Cmd::long_data(7, 9, b"beyond the parameters"));
                "long data for an out-of-range parameter"
            }
            _ => {
                cmds.push(Cmd::close(99));
                cmds.push(Cmd::close(7));
                cmds.push(Cmd::close(7));
                "CLOSE of unknown and already closed ids"
            }
        };
        let first = cmds.len();
        cmds.push(Cmd::prepare(b"A"));
        scripts.push(Script::PrepOk { id: 1001, params: a_params.clone(), cols: a_cols.clone() });
        cmds.push(Cmd::prepare(b"B"));
        scripts.push(Script::PrepOk { id: 2002, params: b_params.clone(), cols: b_cols.clone() });
        cmds.push(Cmd::query(b"C"));
        scripts.push(Script::Q(QProg { colsets: vec![c_cols.clone()], ops: vec![QOp::Start(0), QOp::Finish], on_err: OnErr::Drop }));
        let mut case = Case::new(cmds, scripts);
        if rng.bool() {
            case.arrival = Arrival::Pipelined(1);
        }
        let obs = run_case(&case);
        rep.evaluations += 1;
        if harness_panic(&obs, rep) {
            return;
        }
        rep.counters.class(format!("metadata replies after {} -> {}", sname, obs.outcome.class()));
        let d = || J::obj().set("stray", sname).set("arrival", format!("{:?}", case.arrival)).set("outcome", obs.outcome.describe());
        if i == 0 {
            rep.sample(d());
        }
        let Ok((_, _, dec)) = decode_output(&obs) else { return };
        // exchanges: greeting, auth, warm, [stray commands: no reply], A, B, C
        let mut ri = 3;
        for (k, cmd) in case.cmds.iter().enumerate().skip(first) {
            let Some(r) = dec.resps.get(ri) else { break };
            ri += 1;
            let (want_id, wp, wc): (u32, &Vec<Column>, &Vec<Column>) = if k == first { (1001, &a_params, &a_cols) } else if k == first + 1 { (2002, &b_params, &b_cols) } else { (0, &c_cols, &c_cols) };
            match (cmd.kind, r) {
                (crate::wire::Kind::Prepare, Resp::PrepareOk { id, params, cols, .. }) => {
                    if *id != want_id || cmp_cols("parameter definition", params, wp).is_err() || cmp_cols("column definition", cols, wc).is_err() {
                        rep.violations.push(viol("C09", "C09 reply-belongs-to-another-command".into(), format!("after {}: the reply to PREPARE #{} carries statement id {} with {} parameters and {} columns; the shim declared id {} with {} and {}", sname, k - first, id, params.len(), cols.len(), want_id, wp.len(), wc.len()), d()));
                        return;
                    }
                    rep.counters.inc("prepare_ok_headers_compared");
                }
                (crate::wire::Kind::Query, Resp::Parts(parts)) => {
                    match parts.first() {
                        Some(Part::Rows { cols, .. }) if cmp_cols("column definition", cols, wc).is_ok() => rep.counters.inc("resultset_headers_compared"),
                        other => {
                            rep.violations.push(viol("C09", "C09 reply-belongs-to-another-command".into(), format!("after {}: the reply to the query is {:?}, not the declared resultset header", sname, other.map(|p| match p { Part::Ok(_) => "OK", Part::Err(_) => "ERR", Part::Rows { .. } => "another resultset" })), d()));
                            return;
                        }
                    }
                }
                (kind, other) => {
                    rep.violations.push(viol("C09", "C09 reply-belongs-to-another-command".into(), format!("after {}: {:?} was answered by {}", sname, kind, format!("{:?}", other).chars().take(80).collect::<String>()), d()));
                    return;
                }
            }
        }
        rep.counters.inc("conversations_with_stray_commands_judged");
    });
    rep.merge(r);
    // ---- after connections that went away holding tens of thousands of open statements (one dies of
    //      an execute of an unknown id, one is cut inside a packet, one leaves politely without
    //      closing anything): what one connection held says nothing about the next one's PREPARE,
    //      which gets its reply with exactly the declared metadata
    if !ctx.miri {
        let r = par_cases(ctx, "C09", "after-statement-hoarders", 3, |rng, i, rep| {
            let hoard = 20_000u32;
            let pc = simple_col("p", ColumnType::MYSQL_TYPE_LONG);
            let mut cmds = Vec::with_capacity(hoard as usize + 2);
            let mut scripts = Vec::with_capacity(hoard as usize);
            for id in 0..hoard {
                cmds.push(Cmd::prepare(b"h"));
                scripts.push(Script::PrepOk { id, params: vec![pc.clone()], cols: vec![] });
            }
            let mut h = Case::new(cmds, scripts);
            h.no_predecessors = true;
            h.no_interloper = true;
            h.log_reads = false;
            match i {
                0 => h.cmds.push(Cmd::execute(0x7777_0000, &[], false)),
                1 => {
                    h.cmds.push(Cmd::query(b"cut off in the middle"));
                    let (inp, _) = h.input();
                    h.fault.eof_after = Some(inp.len() - 5);
                }
                _ => h.cmds.push(Cmd::quit()),
            }
            let ho = run_case(&h);
            rep.counters.add("statements_left_open_by_earlier_connections", hoard as u64);
            let params = gen_cols(rng, 3, false);
            let pcols = gen_cols(rng, 2, false);
            let case = Case::new(vec![Cmd::prepare(b"p"), Cmd::ping()], vec![Script::PrepOk { id: 5, params: params.clone(), cols: pcols.clone() }]);
            let obs = run_case(&case);
            rep.evaluations += 1;
            if harness_panic(&obs, rep) {
                return;
            }
            let d = || J::obj().set("earlier_connection", format!("{} statements prepared and never closed, then {}", hoard, ["an execute of an unknown id", "the stream cut inside a packet", "QUIT"][i as usize])).set("its_outcome", ho.outcome.describe()).set("outcome", obs.outcome.describe());
            rep.sample(d());
            rep.counters.class(format!("after a connection that held {} statements and ended by {}", hoard, ["error", "cut", "quit"][i as usize]));
            let dec = match decode_output(&obs) {
                Ok(x) => x.2,
                Err(e) => {
                    rep.violations.push(viol("C09", "C09 bad-framing".into(), e, d()));
                    return;
                }
            };
            match dec.resps.get(2) {
                Some(Resp::PrepareOk { id, params: gp, cols: gc, .. }) if *id == 5 => {
                    for (what, g, w) in [("parameter definition", gp, &params), ("prepare column definition", gc, &pcols)] {
                        if let Err((k, e)) = cmp_cols(what, g, w) {
                            rep.violations.push(viol("C09", format!("C09 prepare-{}-differs", k), e, d()));
                            return;
                        }
                        rep.counters.add("definitions_compared", g.len() as u64);
                    }
                    rep.counters.inc("prepares_after_statement_hoarders_compared");
                }
                other => {
                    rep.violations.push(viol("C09", "C09 prepare-reply-kind".into(), format!("after a connection that left {} statements open, PREPARE is answered by {:?}", hoard, other).chars().take(300).collect(), d()));
                }
            }
        });
        rep.merge(r);
    }

    // ---- several headers in one reply, text and binary: resultsets with no rows at all, left by
    //      finish_one / finish / drop, a completion or an error behind them; and a PREPARE that announced
    //      other columns than the execution then starts (a backend may only know the exact types once it
    //      runs the statement): the client must get, for every resultset that was started, exactly the
    //      definitions handed to start(), in order
    let n = if ctx.miri { 2 } else { ctx.n(1500, 40_000) };
    let r = par_cases(ctx, "C09", "chains", n, |rng, i, rep| {
        let bin = rng.bool();
        let nsets = rng.range(1, 4) as usize;
        let sets: Vec<Vec<Column>> = (0..nsets)
            .map(|_| {
                let nc = rng.range(1, 5) as usize;
                (0..nc)
                    .map(|c| {
                        let (tl, sl) = (rng.below(6) as usize, rng.below(4) as usize);
                        Column {
                        table: name_of(rng, tl),
                        column: format!("c{}{}", c, String::from_utf8_lossy(&rng.ascii(sl))),
                        coltype: *rng.pick(&[ColumnType::MYSQL_TYPE_LONG, ColumnType::MYSQL_TYPE_LONGLONG, ColumnType::MYSQL_TYPE_SHORT, ColumnType::MYSQL_TYPE_VAR_STRING, ColumnType::MYSQL_TYPE_TINY]),
                        colflags: if rng.bool() { ColumnFlags::UNSIGNED_FLAG } else { ColumnFlags::empty() } | if rng.chance(1, 4) { ColumnFlags::ZEROFILL_FLAG } else { ColumnFlags::empty() },
                    }})
                    .collect()
            })
            .collect();
        // what PREPARE announced for the statement: nothing, the first set exactly, or the same number
        // of columns with other types and signedness
        let announced: Vec<Column> = match rng.below(3) {
            0 => vec![],
            1 => sets[0].clone(),
            _ => sets[0].iter().map(|c| Column { table: c.table.clone(), column: c.column.clone(), coltype: if c.coltype == ColumnType::MYSQL_TYPE_LONGLONG { ColumnType::MYSQL_TYPE_LONG } else { ColumnType::MYSQL_TYPE_LONGLONG }, colflags: c.colflags ^ ColumnFlags::UNSIGNED_FLAG }).collect(),
        };
        let mut ops = Vec::new();
        let mut shape = String::new();
        for (k, cols) in sets.iter().enumerate() {
            let last = k + 1 == nsets;
            ops.push(QOp::Start(k));
            let nrows = if rng.bool() { 0 } else { rng.range(1, 2) as usize };
            for r in 0..nrows {
                ops.push(QOp::Row(
                    cols.iter().map(|c| if c.coltype == ColumnType::MYSQL_TYPE_VAR_STRING { Cell::val(V::Str(format!("v{}", r))) } else if c.colflags.contains(ColumnFlags::UNSIGNED_FLAG) { Cell::val(V::U8(r as u8 + 1)) } else { Cell::val(V::I8(r as i8 + 1)) }).collect(),
                    RowForm::Owned,
                ));
            }
            shape.push_str(&format!("R{}x{} ", cols.len(), nrows));
            if !last {
                ops.push(QOp::FinishOne);
            } else {
                match rng.below(5) {
                    0 => {
                        ops.push(QOp::Finish);
                        shape.push_str("finish");
                    }
                    1 => {
                        ops.push(QOp::DropRow);
                        shape.push_str("drop");
                    }
                    2 => {
                        ops.push(QOp::FinishOne);
                        ops.push(QOp::Error(1064, b"the next statement failed".to_vec()));
                        shape.push_str("finish_one+error");
                    }
                    3 => {
                        ops.push(QOp::FinishOne);
                        ops.push(QOp::Completed(3, 4));
                        shape.push_str("finish_one+completed");
                    }
                    _ => {
                        ops.push(QOp::FinishErr(1105, b"failed while producing rows".to_vec()));
                        shape.push_str("finish_error");
                    }
                }
            }
        }
        let cmds = vec![Cmd::prepare(b"p"), if bin { Cmd::execute(1, &[], false) } else { Cmd::query(b"q") }, Cmd::ping()];
        let scripts = vec![Script::PrepOk { id: 1, params: vec![], cols: announced.clone() }, Script::Q(QProg { colsets: sets.clone(), ops, on_err: OnErr::Drop })];
        let obs = run_case(&varied_case(rng, cmds, scripts));
        rep.evaluations += 1;
        if harness_panic(&obs, rep) {
            return;
        }
        rep.counters.class(format!("chain of {} headers, {} ({})", nsets, shape.split(' ').last().unwrap_or(""), if bin { "bin" } else { "text" }));
        let d = || J::obj().set("mode", if bin { "binary" } else { "text" }).set("chain (RcXr = resultset of c columns and r rows)", shape.clone()).set("prepare_announced_columns", announced.len()).set("outcome", obs.outcome.describe());
        if i == 0 {
            rep.sample(d());
        }
        let dec = match decode_output(&obs) {
            Ok(x) => x.2,
            Err(e) => {
                rep.violations.push(viol("C09", "C09 bad-framing".into(), e, d()));
                return;
            }
        };
        let Some(Resp::Parts(parts)) = dec.resps.get(3) else {
            rep.violations.push(viol("C09", "C09 undecodable-response".into(), format!("the reply with {} resultset headers does not decode: {:?}", nsets, dec.stop), d()));
            return;
        };
        let heads: Vec<&Vec<ColDef>> = parts.iter().filter_map(|p| if let Part::Rows { cols, .. } = p { Some(cols) } else { None }).collect();
        if heads.len() != nsets {
            rep.violations.push(viol("C09", "C09 chain-header-count".into(), format!("{} resultsets were started, the client sees {} headers", nsets, heads.len()), d()));
            return;
        }
        for (k, (g, w)) in heads.iter().zip(sets.iter()).enumerate() {
            if let Err((kind, e)) = cmp_cols(&format!("header {} of the reply", k), g, w) {
                rep.violations.push(viol("C09", format!("C09 chain-{}-differs", kind), e, d()));
                return;
            }
            rep.counters.add("definitions_compared", g.len() as u64);
            rep.counters.inc("chained_headers_compared");
        }
    });
    rep.merge(r);
    rep.merge(super::mega::run(ctx, "C09", 1500, 60000));
    if ctx.strict() {
        rep.require("definitions_compared", 1000);
        rep.require("prepare_ok_headers_compared", 100);
        rep.require("re_prepare_headers_compared", 100);
        rep.require("definitions_cross_checked", 100);
    }
    rep
}
