//! C05 — response sequence ids continue the request's and wrap modulo 256.
//! Direct check on every outbound packet header; exchanges are delimited by the client script.
use super::c03::rich_case;
use super::common::*;
use crate::core::*;
use crate::shim::*;
use crate::util::*;
use crate::wire::{self, Kind, MAXP};
use msql_srv::{ColumnFlags, ColumnType};

fn check(obs: &Obs, rep: &mut Report, d: &dyn Fn() -> J) {
    if harness_panic(obs, rep) {
        return;
    }
    if let Outcome::Panic { file, line, msg } = &obs.outcome {
        rep.violations.push(viol("C05", format!("C05 {}", panic_signature(file, *line, msg)), format!("run_on panicked while continuing the sequence: {}", obs.outcome.describe()), d()));
        return;
    }
    let (pkts, msgs, dec) = match decode_output(obs) {
        Ok(x) => x,
        // framing is C04's business; without packets there is nothing to judge here
        Err(e) => {
            rep.notes.push(format!("skipped a case whose output is not well-framed (C04's concern): {}", trunc(&e, 100)));
            rep.counters.inc("skipped_bad_framing");
            return;
        }
    };
    if dec.stop.is_some() || obs.outcome != Outcome::Ok {
        rep.counters.inc("skipped_nonconformant");
        rep.notes.push(format!("skipped a case whose responses do not decode (C03's concern); outcome {}", obs.outcome.describe()));
        return;
    }
    rep.counters.add("outbound_packets_checked", pkts.len() as u64);
    for (i, k) in obs.kinds.iter().enumerate() {
        if k.expects_reply() && i > 0 {
            let id = obs.ends[i - 1].1;
            rep.counters.class(format!("{:?} request-id={}", k, match id { 0 => "0", 1 => "1", 255 => "255", 254 => "254", 128..=253 => "128-253", _ => "2-127" }));
        }
    }
    // longest response in packets
    for &(a, b) in &dec.spans {
        let n: usize = msgs[a..b].iter().map(|m| m.npkts).sum();
        rep.counters.max("max_response_packets", n as u64);
        if n > 256 {
            rep.counters.inc("responses_wrapping_around");
        }
    }
    let v = seq_violations(obs, &pkts, &msgs, &dec);
    if let Some(first) = v.first() {
        rep.violations.push(viol("C05", "C05 wrong-sequence-id".into(), first.clone(), d()));
    }
}

pub fn run(ctx: &Ctx) -> Report {
    let mut rep = Report::default();
    rep.rule = "cases = conversations with chosen request sequence ids; a class is a (command kind, request-id class) pair plus response-length classes; non-trivial = every outbound packet id was compared with (previous id + 1) mod 256 starting from the last request packet's id + 1".into();
    // ---- (a) every request id 0..255 for every reply-expecting command kind, and for the handshake
    let n = if ctx.miri { 4 } else { 256 * 2 };
    let r = par_cases(ctx, "C05", "ids", n, |rng, i, rep| {
        let id = if ctx.miri { [0u8, 1, 254, 255][i as usize % 4] } else { (i % 256) as u8 };
        let hs = i >= 256;
        let cols = vec![simple_col("a", ColumnType::MYSQL_TYPE_LONG)];
        let prog = QProg { colsets: vec![cols.clone()], ops: vec![QOp::Start(0), QOp::Row(vec![Cell::val(V::I32(1))], RowForm::Owned), QOp::Finish], on_err: OnErr::Drop };
        let cmds = vec![
            Cmd::prepare(b"p").seq(id),
            Cmd::query(b"q").seq(id),
            Cmd::execute(9, &[], false).seq(id),
            Cmd::ping().seq(id),
            Cmd::init_db(b"d").seq(id),
            Cmd::field_list(b"t\0").seq(id),
            Cmd::query(b"SELECT @@max_allowed_packet").seq(id),
            Cmd::close(9).seq(id),
            Cmd::ping().seq(id.wrapping_add(rng.below(256) as u8)),
        ];
        let scripts = vec![Script::PrepOk { id: 9, params: vec![], cols: cols.clone() }, Script::Q(prog.clone()), Script::Q(prog), Script::InitOk];
        let mut case = Case::new(cmds, scripts);
        if hs {
            case.hs_seq = id;
        }
        let obs = run_case(&case);
        rep.evaluations += 1;
        let d = || J::obj().set("request_id", id).set("handshake_id", case.hs_seq).set("outcome", obs.outcome.describe());
        if i == 255 {
            rep.sample(d());
        }
        if hs {
            rep.counters.class(format!("handshake id={}", match id { 255 => "255", 0 => "0", 1 => "1", _ => "other" }));
        }
        check(&obs, rep, &d);
    });
    rep.merge(r);

    // ---- (a') a client that asks for TLS from a shim that offers none (in the build without the
    //      library's tls feature that refusal is code of its own): whatever the server sends after
    //      its greeting continues the id of the client's packet. (The unchanged library refuses
    //      without a word; the clause is there for a library that says why.)
    let n = if ctx.miri { 4 } else { ctx.n(400, 4000) };
    let r = par_cases(ctx, "C05", "tls-requested-not-offered", n, |rng, i, rep| {
        let (case, label) = ssl_refusal_case(rng, i);
        let obs = run_case(&case);
        rep.evaluations += 1;
        rep.counters.class(label.clone());
        let d = || ssl_refusal_detail(&case, &obs, &label);
        if harness_panic(&obs, rep) {
            return;
        }
        let out = obs.output();
        let (pkts, rest) = wire::packets_prefix(&out);
        if rest != out.len() || pkts.is_empty() {
            rep.counters.inc("skipped_bad_framing");
            return;
        }
        if pkts.len() == 1 {
            rep.counters.inc("tls_refusals_without_a_reply");
            return;
        }
        let req = obs.ends.first().map(|e| e.1).unwrap_or(case.hs_seq);
        for (k, p) in pkts[1..].iter().enumerate() {
            rep.counters.inc("outbound_packets_checked");
            let want = req.wrapping_add(1 + k as u8);
            if p.seq != want {
                rep.violations.push(viol("C05", "C05 wrong-sequence-id".into(), format!("packet #{} after the greeting (reply to a TLS request under id {}) carries id {}, expected {}", k, req, p.seq, want), d()));
                return;
            }
        }
        rep.counters.inc("tls_refusals_with_a_reply_checked");
    });
    rep.merge(r);

    // ---- a backend that produces its rows slowly: real pauses (650 ms; 1.6 s in the thorough tier)
    //      between rows, before the first and before the end of the reply. Whatever the library does
    //      in the meantime (a timer that flushes what there is, say), the ids of the reply run on
    if !ctx.miri {
        let n = if ctx.thorough { 12 } else { 4 };
        let r = par_cases(ctx, "C05", "slow-backend", n, |rng, i, rep| {
            let id = [0u8, 250, 255, 7][i as usize % 4];
            let cols = vec![simple_col("a", ColumnType::MYSQL_TYPE_LONG)];
            let pause = if ctx.thorough { 1600 } else { 650 };
            let mut ops = vec![QOp::Start(0)];
            if i % 3 == 1 {
                ops.push(QOp::Pause(pause));
            }
            for k in 0..3 + rng.below(3) {
                ops.push(QOp::Row(vec![Cell::val(V::I32(k as i32))], RowForm::Owned));
                if k == 1 || (k == 2 && i % 2 == 0) {
                    ops.push(QOp::Pause(pause));
                }
            }
            ops.push(QOp::Finish);
            let bin = i % 2 == 1;
            let cmds = vec![Cmd::prepare(b"p"), if bin { Cmd::execute_plain(1, &[], false).seq(id) } else { Cmd::query(b"slow").seq(id) }, Cmd::ping().seq(id.wrapping_add(3))];
            let scripts = vec![Script::PrepOk { id: 1, params: vec![], cols: cols.clone() }, Script::Q(QProg { colsets: vec![cols.clone()], ops, on_err: OnErr::Drop })];
            let case = Case::new(cmds, scripts);
            let obs = run_case(&case);
            rep.evaluations += 1;
            rep.counters.class(format!("slow backend, request id {}", id));
            rep.counters.inc("replies_with_real_pauses_of_the_backend");
            let d = || J::obj().set("request_id", id).set("pause_ms", pause).set("protocol", if bin { "binary" } else { "text" }).set("outcome", obs.outcome.describe());
            check(&obs, rep, &d);
        });
        rep.merge(r);
    }

    // ---- (a'') the backend's callback returns its own error after part of the reply has gone out (rows,
    //      then `?`): the connection ends, but every packet the server still sends in that exchange -
    //      what the writers' destructors add, and anything the library itself may add - continues the
    //      ids of the reply it belongs to
    let n = if ctx.miri { 2 } else { ctx.n(512, 6000) };
    let r = par_cases(ctx, "C05", "backend-gives-up-in-mid-reply", n, |rng, i, rep| {
        let id = (i % 256) as u8;
        let cols = vec![simple_col("a", ColumnType::MYSQL_TYPE_LONG), simple_col("b", ColumnType::MYSQL_TYPE_LONG)];
        let nrows = (i / 256) % 4;
        let mut ops = Vec::new();
        let site = rng.below(5);
        match site {
            // nothing written yet
            0 => {}
            // header and rows, the row writer still held
            1 | 2 => {
                ops.push(QOp::Start(0));
                for k in 0..nrows {
                    ops.push(QOp::Row(vec![Cell::val(V::I32(k as i32)), Cell::val(V::I32(7))], RowForm::Owned));
                }
                if site == 2 {
                    ops.push(QOp::Col(Cell::val(V::I32(1))));
                }
            }
            // a finished first set, then the error
            3 => {
                ops.push(QOp::Start(0));
                ops.push(QOp::Row(vec![Cell::val(V::I32(1)), Cell::val(V::I32(2))], RowForm::Owned));
                ops.push(QOp::FinishOne);
            }
            _ => ops.push(QOp::CompleteOne(3, 4)),
        }
        ops.push(QOp::Bail(1000 + i));
        let prog = QProg { colsets: vec![cols.clone()], ops, on_err: OnErr::Drop };
        let bin = rng.bool();
        let cmds = vec![Cmd::prepare(b"p").seq(id.wrapping_add(9)), Cmd::ping().seq(id.wrapping_mul(3)), if bin { Cmd::execute_plain(5, &[], false).seq(id) } else { Cmd::query(b"q").seq(id) }];
        let scripts = vec![Script::PrepOk { id: 5, params: vec![], cols: cols.clone() }, Script::Q(prog)];
        let mut case = Case::new(cmds, scripts);
        if rng.bool() {
            case.write_limit = *rng.pick(&[1usize, 7, 100, 4096]);
        }
        let obs = run_case(&case);
        rep.evaluations += 1;
        rep.counters.class(format!("backend gives up: {}, request id {}", ["before any reply", "after header and rows", "in mid-row", "after a finished set", "after a completion"][site as usize], match id { 0 => "0", 255 => "255", 254 => "254", _ => "other" }));
        let d = || J::obj().set("request_id", id).set("protocol", if bin { "binary" } else { "text" }).set("gives_up", ["before any reply", "after header and rows", "in mid-row", "after a finished set", "after a completion"][site as usize]).set("rows_before", nrows).set("outcome", obs.outcome.describe());
        if harness_panic(&obs, rep) {
            return;
        }
        if let Outcome::Panic { file, line, msg } = &obs.outcome {
            rep.violations.push(viol("C05", format!("C05 {}", panic_signature(file, *line, msg)), format!("run_on panicked while the backend gave up: {}", obs.outcome.describe()), d()));
            return;
        }
        let out = obs.output();
        let (pkts, used) = wire::packets_prefix(&out);
        if used != out.len() {
            rep.counters.inc("skipped_bad_framing");
            return;
        }
        // greeting (id 0), auth reply, PREPARE reply (decoded to know where it ends), PING reply, then the
        // exchange in question: every packet from there on
        let (msgs, _) = wire::messages_prefix(&out, &pkts);
        let dec = wire::decode_all(&obs.kinds, &msgs);
        if dec.spans.len() < 4 {
            rep.counters.inc("skipped_nonconformant");
            return;
        }
        let first_msg = dec.spans[3].1;
        let first_pkt = match msgs.get(first_msg) {
            Some(m) => m.first,
            None => {
                rep.counters.inc("gave_up_without_a_packet");
                return;
            }
        };
        for (k, p) in pkts[first_pkt..].iter().enumerate() {
            rep.counters.inc("outbound_packets_checked");
            let want = id.wrapping_add(1 + k as u8);
            if p.seq != want {
                rep.violations.push(viol("C05", "C05 wrong-sequence-id".into(), format!("packet #{} of the reply to the request with id {} carries id {}, expected {} (the backend's callback returned its own error {})", k, id, p.seq, want, ["before any reply", "after header and rows", "in mid-row", "after a finished set", "after a completion"][site as usize]), d()));
                return;
            }
        }
        rep.counters.inc("abandoned_replies_whose_ids_were_checked");
    });
    rep.merge(r);

    // ---- (a3) packets that are not commands of this library between commands that are: a zero-length
    //      packet, a command byte it does not know (COM_RESET_CONNECTION, COM_STMT_RESET, COM_SET_OPTION),
    //      under ids chosen so that a counter left over from the exchange before would show. The
    //      unchanged library ends the connection there; one that answers instead numbers its answer
    //      after the packet it answers
    let n = if ctx.miri { 2 } else { ctx.n(600, 10_000) };
    let r = par_cases(ctx, "C05", "packets-that-are-not-commands", n, |rng, i, rep| {
        let cols = vec![simple_col("a", ColumnType::MYSQL_TYPE_LONG)];
        let mut cmds = Vec::new();
        let mut scripts = Vec::new();
        for k in 0..rng.below(3) {
            match rng.below(2) {
                0 => cmds.push(Cmd::ping().seq(rng.below(256) as u8)),
                _ => {
                    cmds.push(Cmd::query(b"q").seq(rng.below(256) as u8));
                    let mut ops = vec![QOp::Start(0)];
                    for r in 0..rng.below(6) {
                        ops.push(QOp::Row(vec![Cell::val(V::I32((k * 10 + r) as i32))], RowForm::Owned));
                    }
                    ops.push(QOp::Finish);
                    scripts.push(Script::Q(QProg { colsets: vec![cols.clone()], ops, on_err: OnErr::Drop }));
                }
            }
        }
        let foreign: Vec<u8> = match i % 5 {
            0 | 1 => vec![],
            2 => vec![0x1f],
            3 => vec![0x1a, 1, 0, 0, 0],
            _ => vec![0x1b, 0, 0],
        };
        let fid = [0u8, 17, 100, 254, 255][(i / 5 % 5) as usize];
        let mut tail = wire::raw_packet(&foreign, fid);
        let pid = fid.wrapping_add(rng.range(1, 200) as u8);
        tail.extend(wire::raw_packet(&[wire::COM_PING], pid));
        let mut case = Case::new(cmds, scripts);
        case.raw_tail = tail;
        let obs = run_case(&case);
        rep.evaluations += 1;
        rep.counters.class(format!("a packet that is not a command ({}) under id {}", if foreign.is_empty() { "zero-length".to_string() } else { format!("command byte {:#04x}", foreign[0]) }, match fid { 0 => "0", 255 => "255", 254 => "254", _ => "other" }));
        let d = || J::obj().set("commands_before", kinds_summary(&case.cmds)).set("packet", hex(&foreign)).set("its_id", fid).set("ping_behind_it_has_id", pid).set("outcome", obs.outcome.describe());
        if harness_panic(&obs, rep) {
            return;
        }
        let out = obs.output();
        let (pkts, used) = wire::packets_prefix(&out);
        if used != out.len() {
            rep.counters.inc("skipped_bad_framing");
            return;
        }
        let (msgs, _) = wire::messages_prefix(&out, &pkts);
        let dec = wire::decode_all(&obs.kinds, &msgs);
        if dec.stop.is_some() {
            rep.counters.inc("skipped_nonconformant");
            return;
        }
        let (nchk, v) = raw_tail_reply_ids(&obs, &pkts, &msgs, &dec);
        rep.counters.add("outbound_packets_checked", nchk);
        if let Some(v) = v {
            rep.violations.push(viol("C05", "C05 wrong-sequence-id".into(), v, d()));
            return;
        }
        rep.counters.inc(if nchk == 0 { "packets_that_are_not_commands_left_unanswered" } else { "answers_to_packets_that_are_not_commands_checked" });
    });
    rep.merge(r);

    // ---- (b) long responses: the counter must wrap (at least twice) without stalling or repeating
    let n = if ctx.miri { 1 } else { ctx.n(24, 200) };
    let r = par_cases(ctx, "C05", "long", n, |rng, i, rep| {
        let id = rng.below(256) as u8;
        let mode = i % 3;
        let (ncols, nrows, nsets) = if ctx.miri {
            (2, 3, 1)
        } else {
            match mode {
                0 => (300usize, 2usize, 1usize),
                // one case of the group: a reply of more than 2^16 packets (the id wraps 256 times and
                // more; anything that counts the packets of a reply passes 65 535)
                1 if i == 1 => (1, 70_000 + rng.below(2000) as usize, 1),
                1 => (2, rng.range(520, 700) as usize, 1),
                _ => (3, rng.range(60, 120) as usize, 6),
            }
        };
        let bin = rng.bool();
        let cols: Vec<_> = (0..ncols).map(|c| simple_col(&format!("c{}", c), ColumnType::MYSQL_TYPE_LONG)).collect();
        let mut prog = QProg { colsets: vec![cols.clone()], ops: vec![], on_err: OnErr::Drop };
        for s in 0..nsets {
            prog.ops.push(QOp::Start(0));
            for r in 0..nrows {
                prog.ops.push(QOp::Row((0..ncols).map(|c| Cell::val(V::I32((r * ncols + c) as i32))).collect(), RowForm::Owned));
            }
            prog.ops.push(if s + 1 == nsets { QOp::Finish } else { QOp::FinishOne });
        }
        let cmds = vec![Cmd::prepare(b"p").seq(id), if bin { Cmd::execute(1, &[], false).seq(id) } else { Cmd::query(b"q").seq(id) }, Cmd::ping().seq(id)];
        let scripts = vec![Script::PrepOk { id: 1, params: vec![], cols: cols.clone() }, Script::Q(prog)];
        let case = Case::new(cmds, scripts);
        let obs = run_case(&case);
        rep.evaluations += 1;
        rep.counters.class(format!("long response: {} cols x {} rows x {} sets {}", if ncols > 255 { ">255" } else { "few" }, if nrows > 255 { ">255" } else { "<=255" }, nsets, if bin { "bin" } else { "text" }));
        let d = || J::obj().set("request_id", id).set("cols", ncols).set("rows", nrows).set("sets", nsets).set("outcome", obs.outcome.describe());
        if i == 0 {
            rep.sample(d());
        }
        check(&obs, rep, &d);
    });
    rep.merge(r);

    // ---- (c) random rich conversations with random ids everywhere
    let n = if ctx.miri { 3 } else { ctx.n(3000, 100_000) };
    let r = par_cases(ctx, "C05", "random", n, |rng, i, rep| {
        let sent = rng.bool();
        let (mut case, _) = rich_case(rng, 10, sent);
        for c in case.cmds.iter_mut() {
            c.seq = match rng.below(4) {
                0 => 0,
                1 => 255 - rng.below(3) as u8,
                _ => rng.below(256) as u8,
            };
        }
        if rng.chance(1, 4) {
            case.hs_seq = rng.below(256) as u8;
        }
        // a quarter of the conversations meet one transient transport error (Interrupted / WouldBlock /
        // TimedOut): if the server carries on and run_on returns Ok, every id must still be right
        let transient = !ctx.miri && i % 4 == 2;
        if transient {
            let dry = run_case(&case);
            case.fault.err_at = Some(rng.below(dry.world.nops.max(1)));
            case.fault.persistent = false;
            case.fault.err_kind = 100 + (i / 4 % 3) as u8;
        }
        let obs = run_case(&case);
        rep.evaluations += 1;
        if transient {
            if obs.outcome != Outcome::Ok {
                rep.counters.inc("transient_error_ended_the_connection");
                return;
            }
            rep.counters.inc("transient_error_survived_ids_judged");
        }
        let d = || J::obj().set("commands", kinds_summary(&case.cmds)).set("ids", case.cmds.iter().map(|c| J::from(c.seq)).collect::<Vec<_>>()).set("handshake_id", case.hs_seq).set("transient_fault", format!("{:?} kind {}", case.fault.err_at, case.fault.err_kind)).set("outcome", obs.outcome.describe());
        if i == 0 {
            rep.sample(d());
        }
        check(&obs, rep, &d);
    });
    rep.merge(r);

    // ---- (c2) responses whose last packets are written by destructors (writers dropped without
    //      finish), with one transient error at EVERY transport operation in turn: if run_on returns
    //      Ok, the ids are still right
    if !ctx.miri {
        let mut variants: Vec<(bool, u8)> = Vec::new();
        for bin in [false, true] {
            for v in 0..4u8 {
                variants.push((bin, v));
            }
        }
        let r = par_cases(ctx, "C05", "destructor-paths-under-transient-errors", variants.len() as u64, |_rng, i, rep| {
            let (bin, v) = variants[i as usize];
            let cols: Vec<_> = (0..2).map(|c| simple_col(&format!("c{}", c), ColumnType::MYSQL_TYPE_LONG)).collect();
            let row = |k: i32| QOp::Row(vec![Cell::val(V::I32(k)), Cell::val(V::I32(k + 1))], RowForm::Owned);
            let ops = match v {
                0 => vec![QOp::Start(0), row(1), row(2), QOp::DropRow],
                1 => vec![QOp::Start(0), row(1), QOp::Col(Cell::val(V::I32(5))), QOp::Col(Cell::val(V::I32(6)))],
                2 => vec![QOp::Start(0), row(1), QOp::FinishOne, QOp::CompleteOne(1, 2), QOp::DropResult],
                _ => vec![QOp::CompleteOne(3, 4), QOp::Start(0), QOp::DropRow],
            };
            let vname = ["row writer dropped after rows", "row writer dropped with a complete un-ended row", "result writer dropped after chained sets", "row writer dropped right after the header of a second set"][v as usize];
            let prog = QProg { colsets: vec![cols.clone()], ops, on_err: OnErr::Drop };
            let mk = || Case::new(vec![Cmd::prepare(b"p"), if bin { Cmd::execute(1, &[], false).seq(7) } else { Cmd::query(b"q").seq(7) }, Cmd::ping().seq(200)], vec![Script::PrepOk { id: 1, params: vec![], cols: cols.clone() }, Script::Q(prog.clone())]);
            let dry = run_case(&mk());
            for k in 0..dry.world.nops {
                for kind in [100u8, 101, 102] {
                    let mut case = mk();
                    case.fault.err_at = Some(k);
                    case.fault.persistent = false;
                    case.fault.err_kind = kind;
                    let obs = run_case(&case);
                    rep.evaluations += 1;
                    if obs.outcome != Outcome::Ok {
                        rep.counters.inc("transient_error_ended_the_connection");
                        continue;
                    }
                    rep.counters.inc("transient_error_survived_ids_judged");
                    rep.counters.class(format!("{} ({}), transient error kind {} on {:?} survived", vname, if bin { "binary" } else { "text" }, kind, obs.world.fault_op));
                    let d = || J::obj().set("program", vname).set("mode", if bin { "binary" } else { "text" }).set("transient_fault", format!("kind {} at transport operation #{} ({:?})", kind, k, obs.world.fault_op)).set("outcome", obs.outcome.describe());
                    check(&obs, rep, &d);
                }
            }
        });
        rep.merge(r);
    }

    // ---- (d) multi-packet requests: the reply must start after the LAST fragment's id
    if !ctx.miri {
        let frags: Vec<(usize, u8)> = if ctx.thorough { vec![(MAXP, 0), (MAXP + 10, 250), (2 * MAXP + 3, 253), (2 * MAXP, 254), (MAXP, 255), (MAXP + 1, 254)] } else { vec![(MAXP + 10, 250), (MAXP, 255)] };
        let r = par_cases(ctx, "C05", "multipacket", frags.len() as u64, |_rng, i, rep| {
            let (plen, id) = frags[i as usize];
            let mut text = Vec::new();
            stream_fill(&mut text, ctx.seed, i, plen - 1, true);
            let cmds = vec![Cmd::query(&text).seq(id), Cmd::ping().seq(id)];
            let mut case = Case::new(cmds, vec![Script::Q(QProg::completed(1, 1))]);
            // a read ends exactly where each full fragment ends: the fragment is completely buffered
            // while the terminating fragment has not arrived yet
            let (input, ends) = case.input();
            let cuts: Vec<usize> = layout(&input).iter().filter(|(o, l)| *l == MAXP && *o >= ends[0].0).map(|(o, l)| o + 4 + l).collect();
            case.sched = crate::transport::Sched { cuts, cycle: vec![1 << 20] };
            case.log_reads = false;
            let obs = run_case(&case);
            rep.evaluations += 1;
            rep.counters.inc("multi_packet_requests");
            rep.counters.class(format!("multi-packet request of {} fragments starting at id {}", plen / MAXP + 1, id));
            let d = || J::obj().set("request_payload", plen).set("first_fragment_id", id).set("last_fragment_id", obs.ends.get(1).map(|e| e.1).unwrap_or(0)).set("outcome", obs.outcome.describe());
            if i == 0 {
                rep.sample(d());
            }
            check(&obs, rep, &d);
        });
        rep.merge(r);
    }
    // ---- (e) responses in which one message spans several packets (a row of 16 MiB or more)
    if !ctx.miri {
        let sizes: Vec<(usize, u8)> = if ctx.thorough { vec![(MAXP - 1, 0), (MAXP, 3), (MAXP + 1, 250), (2 * MAXP, 252), (2 * MAXP + 7, 254), (MAXP + 100, 255)] } else { vec![(MAXP, 250), (MAXP + 100, 3)] };
        let r = par_cases(ctx, "C05", "bigrow", sizes.len() as u64, |_rng, i, rep| {
            let (cell, id) = sizes[i as usize];
            let cols = vec![simple_col("big", ColumnType::MYSQL_TYPE_LONG_BLOB)];
            let prog = QProg {
                colsets: vec![cols.clone()],
                ops: vec![QOp::Start(0), QOp::Row(vec![Cell::val(V::Bytes(b"before".to_vec()))], RowForm::Owned), QOp::Col(Cell::val(V::Stream(ctx.seed, i, cell))), QOp::EndRow, QOp::Row(vec![Cell::val(V::Bytes(b"after".to_vec()))], RowForm::Owned), QOp::Finish],
                on_err: OnErr::Drop,
            };
            let mut case = Case::new(vec![Cmd::query(b"q").seq(id), Cmd::ping().seq(id)], vec![Script::Q(prog)]);
            case.log_reads = false;
            let obs = run_case(&case);
            rep.evaluations += 1;
            rep.counters.inc("responses_with_multi_packet_message");
            rep.counters.class(format!("row of {} bytes inside a multi-row response, request id {}", len_class(cell), id));
            let d = || J::obj().set("request_id", id).set("big_cell_bytes", cell).set("outcome", obs.outcome.describe());
            if i == 0 {
                rep.sample(d());
            }
            check(&obs, rep, &d);
        });
        rep.merge(r);
        if ctx.strict() {
            rep.require("responses_with_multi_packet_message", 1);
        }
    }
    // ---- backends that go on after a refused writer call (props/recover.rs): ids of the reply
    rep.merge(super::recover::group(ctx, "C05", super::recover::Clause::SeqIds, None, 1000, 10_000));
    rep.merge(super::mega::run(ctx, "C05", 1500, 60000));
    // ---- (f) TLS upgrade: the reply to the handshake response sent INSIDE TLS continues that packet's id
    if !ctx.miri {
        if let Ok(m) = crate::tls::TlsMaterial::generate() {
            let pairs: Vec<(u8, u8)> = vec![(1, 2), (1, 9), (1, 1), (1, 255), (200, 7), (255, 0), (0, 1), (3, 3)];
            let mref = &m;
            let r = par_cases(ctx, "C05", "tls-handshake-ids", pairs.len() as u64, |rng, i, rep| {
                let seqs = pairs[i as usize];
                let id = rng.below(256) as u8;
                let c = super::c18::TlsCase { tls13: rng.bool(), with_cert: false, server_mode: 0, user: b"u".to_vec(), cmds: vec![Cmd::ping().seq(id), Cmd::quit()], scripts: vec![], first_cut: 0, cycle: vec![], write_limit: usize::MAX, close_notify: true, raw_limit: None, hs_variant: 0, app_override: None, seqs, auth_reject: None, record_per_command: false, write_fault: None, buffer_writes: rng.bool(), eager_close: false };
                let o = match super::c18::run_tls(mref, &c) {
                    Ok(o) => o,
                    Err(e) => {
                        rep.inconclusive.push(format!("TLS harness error: {}", e));
                        return;
                    }
                };
                rep.evaluations += 1;
                rep.counters.class(format!("tls handshake ids ssl={} response={}", seqs.0, seqs.1));
                let d = || J::obj().set("ssl_request_id", seqs.0).set("handshake_response_id_inside_tls", seqs.1).set("ping_id", id).set("outcome", o.outcome.describe());
                if let Outcome::Panic { file, line, msg } = &o.outcome {
                    rep.violations.push(viol("C05", format!("C05 {}", panic_signature(file, *line, msg)), format!("run_on panicked: {}", o.outcome.describe()), d()));
                    return;
                }
                let (pk, _) = wire::packets_prefix(&o.world.app_in);
                if pk.len() < 2 || o.outcome != Outcome::Ok {
                    rep.notes.push(format!("TLS id case skipped: outcome {} with {} decrypted packets", o.outcome.describe(), pk.len()));
                    rep.counters.inc("skipped_nonconformant");
                    return;
                }
                rep.counters.inc("tls_handshake_replies_checked");
                if pk[0].seq != seqs.1.wrapping_add(1) {
                    rep.violations.push(viol("C05", "C05 wrong-sequence-id tls-auth-reply".into(), format!("the reply to the in-TLS handshake response (id {}) carries id {}, expected {}", seqs.1, pk[0].seq, seqs.1.wrapping_add(1)), d()));
                } else if pk[1].seq != id.wrapping_add(1) {
                    rep.violations.push(viol("C05", "C05 wrong-sequence-id".into(), format!("PING with id {} over TLS answered with id {}", id, pk[1].seq), d()));
                }
            });
            rep.merge(r);
        }
    }
    if ctx.strict() {
        if cfg!(feature = "tls") {
            rep.require("tls_handshake_replies_checked", 4);
        }
        rep.require("outbound_packets_checked", 1000);
        rep.require("responses_wrapping_around", 2);
        rep.require("multi_packet_requests", 1);
    }
    let _ = (ColumnFlags::empty(), Kind::Ping, wire::MAXP);
    rep
}
