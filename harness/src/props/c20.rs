//! C20 — no client byte sequence can crash or wedge a connection.
//! Panic hook + catch_unwind + operation budgets over (a) exhaustive short inputs, (b) grammar-aware
//! mutations of valid conversations, (c) random bytes. The outcome must be a conformant reply or an
//! error return; the output must always be well-framed.
use super::common::*;
use crate::core::*;
use crate::shim::*;
use crate::tls::{self, TlsMaterial};
use crate::transport::Sched;
use crate::util::*;
use crate::wire::{self, Kind, PVal, Param, MAXP};

const ALPHA14: [u8; 14] = [0x01, 0x02, 0x03, 0x04, 0x0e, 0x16, 0x17, 0x18, 0x19, 0x00, 0xFF, b'S', b'@', b' '];
const ALPHA6: [u8; 6] = [0x00, 0x01, 0x04, 0xFF, 0x85, 0x0a];

fn std_scripts() -> Vec<Script> {
    // generous: whatever reaches the shim gets a sensible answer
    let mut v = Vec::new();
    for _ in 0..6 {
        v.push(Script::PrepOk { id: 1, params: param_cols(2), cols: vec![] });
    }
    v
}

/// Judge one run. `what` names the generator/mutation for the class and signature.
fn judge(obs: &Obs, what: &str, rep: &mut Report, d: &dyn Fn() -> J) {
    if harness_panic(obs, rep) {
        return;
    }
    rep.counters.inc(&format!("outcome_{}", obs.outcome.class().to_lowercase()));
    match &obs.outcome {
        Outcome::Panic { file, line, msg } => {
            rep.counters.class(format!("{} -> panic", what));
            rep.violations.push(viol("C20", format!("C20 {}", panic_signature(file, *line, msg)), format!("client bytes ({}) made run_on panic: {}", what, obs.outcome.describe()), d()));
            return;
        }
        Outcome::Io { kind, .. } => rep.counters.class(format!("{} -> Err({:?})", what, kind)),
        Outcome::Token(_) => rep.counters.class(format!("{} -> Err(shim)", what)),
        Outcome::Ok => rep.counters.class(format!("{} -> Ok", what)),
    }
    if obs.world.wedged {
        rep.violations.push(viol("C20", format!("C20 wedge {}", what), format!("run_on exceeded its operation budget ({} transport operations for {} input bytes, {} reads at end of stream)", obs.world.nops, obs.world.input.len(), obs.world.eof_reads), d()));
        return;
    }
    // COM_QUIT ends the conversation: a server that goes back to reading after it has taken the QUIT
    // waits for a client that has nothing more to say - and a client that keeps its socket open until
    // the server hangs up (connection pools and proxies do) waits for the server: a wedge
    if let Some(q) = obs.kinds.iter().position(|k| *k == wire::Kind::Quit) {
        if let Some(&(quit_end, _)) = obs.ends.get(q - 1) {
            if let Some(r) = obs.world.read_log.iter().find(|r| r.pos >= quit_end) {
                rep.violations.push(viol("C20", format!("C20 read-after-quit {}", what), format!("the server called read() at input offset {} although the COM_QUIT that ends at offset {} had been handed over: it waits for a client that is waiting for it", r.pos, quit_end), d()));
                return;
            }
            rep.counters.inc("conversations_ended_by_quit_without_a_further_read");
        }
    }
    let out = obs.output();
    // once the client has asked for TLS and the server offers it, everything after the greeting is
    // TLS records, not MySQL packets
    let tls_phase = obs.tls_upgrade_requested;
    if tls_phase {
        let (pkts, used) = wire::packets_prefix(&out);
        if pkts.is_empty() {
            rep.violations.push(viol("C20", format!("C20 bad-framing {}", what), "no greeting packet".into(), d()));
            return;
        }
        let after = &out[pkts[0].off + 4 + pkts[0].len..];
        let _ = used;
        if let Err(e) = tls::tls_records(after) {
            rep.violations.push(viol("C20", format!("C20 not-tls-after-upgrade {}", what), format!("bytes sent after the TLS upgrade are not TLS records: {}", e), d()));
        } else {
            rep.counters.inc("tls_phase_outputs_checked");
        }
        return;
    }
    match wire::packets(&out) {
        Err(e) => {
            rep.violations.push(viol("C20", format!("C20 bad-framing {}", what), e, d()));
        }
        Ok(pkts) => {
            let (msgs, _) = wire::messages_prefix(&out, &pkts);
            let dec = wire::decode_all(&obs.kinds, &msgs);
            if let Some(wire::Stop::Bad(i, e)) = &dec.stop {
                rep.violations.push(viol("C20", format!("C20 nonconformant-reply {}", what), format!("exchange #{} ({:?}) was answered by something that is not a conformant reply: {}", i, obs.kinds.get(*i), e), d()));
            } else {
                // a conformant reply carries the ids of its request: whatever the server says to a command -
                // well-formed or not, known to it or not - starts one above that command's last id.
                // (Only where the harness framed the input itself and therefore knows those ids.)
                if obs.ends.len() + 1 >= obs.kinds.len() && !obs.ends.is_empty() {
                    let sv = seq_violations(obs, &pkts, &msgs, &dec);
                    if let Some(first) = sv.first() {
                        rep.violations.push(viol("C20", format!("C20 reply-with-foreign-sequence-id {}", what), first.clone(), d()));
                        return;
                    }
                    rep.counters.add("replies_whose_ids_were_checked", dec.spans.len().saturating_sub(2) as u64);
                }
                // and what the server says to the bytes the harness appended raw (malformed, unknown,
                // truncated commands - `raw_tail`): whatever it is, each reply starts one above the id of
                // a packet of that tail, in the tail's order, and runs on from there
                if let (Some(&(tail_at, _)), Some(&(_, last_msg))) = (obs.ends.last(), dec.spans.last()) {
                    if dec.spans.len() == obs.kinds.iter().filter(|k| k.expects_reply()).count() && tail_at < obs.world.input.len() {
                        let (tp, _) = wire::packets_prefix(&obs.world.input[tail_at..]);
                        if let Some(m) = msgs.get(last_msg) {
                            let mut j = 0;
                            let mut prev: Option<u8> = None;
                            for (k, p) in pkts[m.first..].iter().enumerate() {
                                rep.counters.inc("packets_sent_in_reply_to_raw_input_whose_ids_were_checked");
                                if prev.map_or(false, |pv| p.seq == pv.wrapping_add(1)) {
                                    prev = Some(p.seq);
                                    continue;
                                }
                                let mut found = false;
                                while j < tp.len() {
                                    let r = tp[j].seq;
                                    j += 1;
                                    if p.seq == r.wrapping_add(1) {
                                        found = true;
                                        break;
                                    }
                                }
                                if !found {
                                    rep.violations.push(viol("C20", format!("C20 reply-with-foreign-sequence-id {}", what), format!("packet #{} of what the server sent in reply to the raw part of the input carries id {}, which neither continues the packet before it nor is one above the id of any (remaining) request packet {:?}", k, p.seq, tp.iter().map(|p| p.seq).collect::<Vec<_>>()), d()));
                                    return;
                                }
                                prev = Some(p.seq);
                            }
                        }
                    }
                }
                rep.counters.add("inputs_answered_conformantly", dec.resps.len().saturating_sub(2) as u64);
            }
        }
    }
}

fn valid_execute() -> Vec<u8> {
    wire::com_execute(
        1,
        0,
        1,
        &[Param { typ: wire::T_LONG, unsigned: false, value: Some(PVal::Int(7)), long: false }, Param { typ: wire::T_VAR_STRING, unsigned: false, value: Some(PVal::Bytes(b"abc".to_vec())), long: false }],
        true,
    )
}

/// Valid command payloads used as mutation seeds: (name, needs_prepare, payload)
fn seeds() -> Vec<(&'static str, Vec<u8>)> {
    vec![
        ("query", wire::com_text(wire::COM_QUERY, b"select 1")),
        ("use", wire::com_text(wire::COM_QUERY, b"USE `db`;")),
        ("select@@", wire::com_text(wire::COM_QUERY, b"SELECT @@max_allowed_packet")),
        ("init_db", wire::com_text(wire::COM_INIT_DB, b"db")),
        ("field_list", wire::com_text(wire::COM_FIELD_LIST, b"t\0")),
        ("prepare", wire::com_text(wire::COM_STMT_PREPARE, b"select ?")),
        ("execute", valid_execute()),
        ("long_data", wire::com_long_data(1, 0, b"data")),
        ("close", wire::com_close(1)),
        ("ping", vec![wire::COM_PING]),
        ("quit", vec![wire::COM_QUIT]),
    ]
}

fn conv_with(payload: Vec<u8>, seq: u8, prepared: bool) -> Case {
    let mut cmds = Vec::new();
    if prepared {
        cmds.push(Cmd::prepare(b"select ?"));
    }
    let mut case = Case::new(cmds, std_scripts());
    // the mutated packet goes in raw (its kind is unknown to the decoder), followed by a PING
    let mut tail = wire::raw_packet(&payload, seq);
    tail.extend(wire::raw_packet(&[wire::COM_PING], 0));
    case.raw_tail = tail;
    case
}

pub fn run(ctx: &Ctx) -> Report {
    let mut rep = Report::default();
    rep.rule = "cases = client byte strings: (a) exhaustive: every command payload of length <= 3 over a 14-symbol alphabet and every raw stream of <= 4 bytes over a 6-symbol alphabet in place of the handshake; (b) grammar-aware mutations of valid conversations (truncation/extension at every byte, every command byte, every parameter type code x flag, count/bitmap/type-table/value inconsistencies, reuse with nothing bound, every sequence id, zero-length packets, both handshake layouts cut at every byte, SSLRequest followed by garbage / truncated ClientHello / plaintext); (c) random bytes; a class is a (generator or mutation operator, outcome signature) pair; non-trivial = the run ended (budgeted) and its outcome, panics and output framing were judged".into();
    let tlsm = if ctx.miri { None } else { TlsMaterial::generate().ok() };

    // ---- (a1) all short payloads as first command
    let mut payloads: Vec<Vec<u8>> = vec![vec![]];
    for a in ALPHA14 {
        payloads.push(vec![a]);
        for b in ALPHA14 {
            payloads.push(vec![a, b]);
            for c in ALPHA14 {
                payloads.push(vec![a, b, c]);
            }
        }
    }
    if ctx.miri {
        payloads.truncate(10);
    }
    let per = 32usize;
    let pl = &payloads;
    let r = par_cases(ctx, "C20", "short-commands", ((payloads.len() + per - 1) / per) as u64, |_rng, i, rep| {
        for p in pl.iter().skip(i as usize * per).take(per) {
            for prepared in [false, true] {
                let case = conv_with(p.clone(), 0, prepared);
                let obs = run_case(&case);
                rep.evaluations += 1;
                let what = format!("short command len={} first=0x{:02x}", p.len(), p.first().copied().unwrap_or(0));
                let d = || J::obj().set("generator", "exhaustive short command payloads").set("payload", hex(p)).set("statement_prepared", prepared).set("outcome", obs.outcome.describe());
                if rep.samples.is_empty() {
                    rep.sample(d());
                }
                judge(&obs, &what, rep, &d);
            }
        }
    });
    rep.merge(r);
    rep.notes.push(format!("exhaustive: {} command payloads of length <= 3 over a 14-symbol alphabet, each with and without a prepared statement", payloads.len()));

    // ---- (a2) all short raw streams in place of the handshake
    let mut streams: Vec<Vec<u8>> = vec![vec![]];
    for a in ALPHA6 {
        streams.push(vec![a]);
        for b in ALPHA6 {
            streams.push(vec![a, b]);
            for c in ALPHA6 {
                streams.push(vec![a, b, c]);
                for e in ALPHA6 {
                    streams.push(vec![a, b, c, e]);
                }
            }
        }
    }
    if ctx.miri {
        streams.truncate(10);
    }
    let st = &streams;
    let r = par_cases(ctx, "C20", "short-streams", ((streams.len() + per - 1) / per) as u64, |_rng, i, rep| {
        for s in st.iter().skip(i as usize * per).take(per) {
            let mut case = Case::new(vec![], vec![]);
            case.raw_input = Some(s.clone());
            let obs = run_case(&case);
            rep.evaluations += 1;
            let d = || J::obj().set("generator", "exhaustive short raw streams instead of the handshake").set("stream", hex(s)).set("outcome", obs.outcome.describe());
            judge(&obs, &format!("raw stream len={}", s.len()), rep, &d);
        }
    });
    rep.merge(r);
    rep.notes.push(format!("exhaustive: {} raw streams of <= 4 bytes over a 6-symbol alphabet", streams.len()));

    // ---- (b) grammar-aware mutations
    #[derive(Clone)]
    struct M {
        what: String,
        case: Case,
    }
    let mut muts: Vec<M> = Vec::new();
    for (name, payload) in seeds() {
        // truncation at every byte, extension by 1..3 bytes
        for cut in 0..payload.len() {
            muts.push(M { what: format!("truncate {}", name), case: conv_with(payload[..cut].to_vec(), 0, true) });
        }
        for ext in [&[0u8][..], &[0xFF], &[0, 0, 0], &[0xFF; 9]] {
            let mut p = payload.clone();
            p.extend_from_slice(ext);
            muts.push(M { what: format!("extend {}", name), case: conv_with(p, 0, true) });
        }
        // every sequence id
        for id in 0..=255u8 {
            if ctx.miri && id % 64 != 63 {
                continue;
            }
            muts.push(M { what: format!("seq id {}", name), case: conv_with(payload.clone(), id, true) });
        }
    }
    // every command byte with three bodies
    for b in 0..=255u8 {
        for body in [&b""[..], &b"\x01\x00\x00\x00"[..], &b"\x01\x00\x00\x00\x00\x01\x00\x00\x00\x00\x00\x01\x03\x00\x07\x00\x00\x00"[..]] {
            let mut p = vec![b];
            p.extend_from_slice(body);
            muts.push(M { what: "command byte".into(), case: conv_with(p, 0, true) });
        }
    }
    // every parameter type code x flag, with 0, 1, 4, 9 value bytes
    for t in 0..=255u8 {
        for flag in [0u8, 0x80, 0x01, 0xFF] {
            for vb in [0usize, 1, 4, 9] {
                if ctx.miri && (t % 32 != 1 || vb != 4) {
                    continue;
                }
                let mut p = vec![wire::COM_STMT_EXECUTE, 1, 0, 0, 0, 0, 1, 0, 0, 0];
                p.push(0); // null bitmap for 2 params
                p.push(1); // new params bound
                p.extend_from_slice(&[t, flag, wire::T_LONG, 0]);
                p.extend(std::iter::repeat(3u8).take(vb));
                muts.push(M { what: "parameter type code".into(), case: conv_with(p, 0, true) });
            }
        }
    }
    // count / bitmap / type-table / value inconsistencies for a 2-parameter statement
    {
        let hdr = vec![wire::COM_STMT_EXECUTE, 1, 0, 0, 0, 0, 1, 0, 0, 0];
        let variants: Vec<(&str, Vec<u8>)> = vec![
            ("no bitmap", vec![]),
            ("bitmap only", vec![0]),
            ("flag 1 without types", vec![0, 1]),
            ("half type table", vec![0, 1, 3, 0]),
            ("types without values", vec![0, 1, 3, 0, 3, 0]),
            ("one value of two", vec![0, 1, 3, 0, 3, 0, 1, 0, 0, 0]),
            ("reuse flag with nothing bound", vec![0, 0, 1, 0, 0, 0, 2, 0, 0, 0]),
            ("reuse flag, no values", vec![0, 0]),
            ("all null", vec![0x03, 1, 3, 0, 3, 0]),
            ("null bits beyond count", vec![0xFF, 1, 3, 0, 3, 0]),
            ("string length beyond packet", vec![0, 1, 0xfd, 0, 3, 0, 0xFC, 0xFF, 0xFF, b'x']),
            ("string length 0xFF prefix", vec![0, 1, 0xfd, 0, 3, 0, 0xFF, 1, 2, 3]),
            ("string length 2^64-1", vec![0, 1, 0xfd, 0, 3, 0, 0xFE, 0xFF, 0xFF, 0xFF, 0xFF, 0xFF, 0xFF, 0xFF, 0xFF]),
            ("date length 200", vec![0, 1, 0x0a, 0, 3, 0, 200, 1, 2]),
            ("time length 3", vec![0, 1, 0x0b, 0, 3, 0, 3, 1, 2, 3, 9, 0, 0, 0]),
            ("flag byte 2", vec![0, 2, 3, 0, 3, 0, 1, 0, 0, 0, 2, 0, 0, 0]),
        ];
        // a length-encoded value whose multi-byte length prefix (0xfc + 2, 0xfd + 3, 0xfe + 8 bytes)
        // is itself cut short by the end of the packet, for every length-encoded type code, as the
        // first and as the last parameter
        let mut variants = variants;
        let mut owned: Vec<(String, Vec<u8>)> = Vec::new();
        for t in [0x00u8, 0x0f, 0xf5, 0xf6, 0xf7, 0xf8, 0xf9, 0xfa, 0xfb, 0xfc, 0xfd, 0xfe, 0xff, 0x10] {
            for pre in [vec![0xfcu8], vec![0xfc, 1], vec![0xfd], vec![0xfd, 1], vec![0xfd, 1, 2], vec![0xfe], vec![0xfe, 1, 2, 3], vec![0xfe, 1, 2, 3, 4, 5, 6, 7], vec![0xfb], vec![0xff]] {
                let mut first = vec![0, 1, t, 0, 3, 0];
                first.extend(&pre);
                owned.push((format!("type 0x{:02x} first, length prefix cut short after {} bytes (0x{:02x})", t, pre.len(), pre[0]), first));
                let mut last = vec![0, 1, 3, 0, t, 0, 1, 0, 0, 0];
                last.extend(&pre);
                owned.push((format!("type 0x{:02x} last, length prefix cut short after {} bytes (0x{:02x})", t, pre.len(), pre[0]), last));
            }
        }
        let variants: Vec<(String, Vec<u8>)> = variants.drain(..).map(|(n, b)| (n.to_string(), b)).chain(owned).collect();
        for (name, tailb) in variants {
            let mut p = hdr.clone();
            p.extend(tailb);
            muts.push(M { what: format!("execute: {}", name), case: conv_with(p.clone(), 0, true) });
            // the same for a statement id that was never prepared, and executed twice
            let mut c2 = conv_with(p.clone(), 0, true);
            let mut t2 = wire::raw_packet(&p, 0);
            t2.extend(c2.raw_tail.clone());
            c2.raw_tail = t2;
            muts.push(M { what: format!("execute twice: {}", name), case: c2 });
        }
        // valid execute that binds, then a reuse with truncated values
        let mut c = conv_with(vec![wire::COM_STMT_EXECUTE, 1, 0, 0, 0, 0, 1, 0, 0, 0, 0, 0, 9], 0, true);
        let mut t = wire::raw_packet(&valid_execute(), 0);
        t.extend(c.raw_tail.clone());
        c.raw_tail = t;
        muts.push(M { what: "execute: reuse after bind, truncated values".into(), case: c });
        // execute for a statement with 300 parameters but a short block
        let mut c = Case::new(vec![Cmd::prepare(b"many")], vec![Script::PrepOk { id: 1, params: param_cols(300), cols: vec![] }]);
        c.raw_tail = wire::raw_packet(&[wire::COM_STMT_EXECUTE, 1, 0, 0, 0, 0, 1, 0, 0, 0, 0, 0, 0, 1], 0);
        muts.push(M { what: "execute: 300 declared parameters, short block".into(), case: c });
        // long data / execute / close for unknown ids, long data with short header
        for p in [vec![wire::COM_STMT_SEND_LONG_DATA, 9, 0, 0, 0, 0, 0, b'x'], vec![wire::COM_STMT_SEND_LONG_DATA, 1, 0], vec![wire::COM_STMT_CLOSE, 9, 9, 9, 9], vec![wire::COM_STMT_EXECUTE, 9, 0, 0, 0, 0, 1, 0, 0, 0]] {
            muts.push(M { what: "statement command for unknown id / short header".into(), case: conv_with(p, 0, false) });
        }
    }
    // structured and random parameter blocks for statements whose parameter count sits on either
    // side of a NULL-bitmap byte boundary
    for np in [1usize, 7, 8, 9, 16, 17] {
        let bm = (np + 7) / 8;
        let hdr = vec![wire::COM_STMT_EXECUTE, 1, 0, 0, 0, 0, 1, 0, 0, 0];
        let mut blocks: Vec<(String, Vec<u8>)> = Vec::new();
        // well-formed: all TINY values
        let mut ok = vec![0u8; bm];
        ok.push(1);
        for _ in 0..np {
            ok.extend_from_slice(&[wire::T_TINY, 0]);
        }
        ok.extend(std::iter::repeat(7u8).take(np));
        blocks.push(("well-formed".into(), ok.clone()));
        // bitmap one byte short / long
        blocks.push(("bitmap one byte short".into(), ok[1..].to_vec()));
        let mut l = vec![0xFFu8];
        l.extend_from_slice(&ok);
        blocks.push(("bitmap one byte long".into(), l));
        // all-ones bitmap followed by a type table that is valid only under a shifted layout
        let mut sh = vec![0xFFu8; bm];
        sh.push(1);
        for k in 0..np {
            sh.extend_from_slice(&[if k == 1 { 0x50 } else { wire::T_TINY }, 1]);
        }
        blocks.push(("all-NULL bitmap, unknown type code in slot 1".into(), sh.clone()));
        let mut sh2 = vec![0xFFu8; bm];
        sh2.extend_from_slice(&[1, 1, 1, 0x50, 1]);
        for _ in 0..np {
            sh2.extend_from_slice(&[wire::T_TINY, 1]);
        }
        blocks.push(("flag and types shifted by one byte".into(), sh2));
        // types present, values missing / one short
        let mut t = vec![0u8; bm];
        t.push(1);
        for _ in 0..np {
            t.extend_from_slice(&[wire::T_LONG, 0]);
        }
        blocks.push(("types without values".into(), t.clone()));
        t.extend(std::iter::repeat(9u8).take(4 * np - 1));
        blocks.push(("last value one byte short".into(), t));
        for (bname, b) in blocks {
            let mut p = hdr.clone();
            p.extend(b);
            let mut c = Case::new(vec![Cmd::prepare(b"np")], vec![Script::PrepOk { id: 1, params: param_cols(np), cols: vec![] }]);
            let mut tail = wire::raw_packet(&p, 0);
            tail.extend(wire::raw_packet(&[wire::COM_PING], 0));
            c.raw_tail = tail;
            muts.push(M { what: format!("execute block for {} parameters: {}", np, bname), case: c });
        }
    }
    // valid UTF-8 text with a multi-byte character starting at every offset 0..10 (string slicing at
    // fixed byte offsets must not assume ASCII)
    for ch in ["\u{e9}", "\u{20ac}", "\u{1F600}", "\u{6570}"] {
        for off in 0..10usize {
            for (cmd, name) in [(wire::COM_QUERY, "query"), (wire::COM_STMT_PREPARE, "prepare"), (wire::COM_INIT_DB, "init_db")] {
                for prefix in ["", "USE", "use ", "SELECT @", "SELECT @@", "sel"] {
                    let mut t = String::from(prefix);
                    t.push_str(&"a".repeat(off));
                    t.push_str(ch);
                    t.push_str("bc");
                    muts.push(M { what: format!("multi-byte character in {} text", name), case: conv_with(wire::com_text(cmd, t.as_bytes()), 0, false) });
                }
            }
        }
    }
    // histories: long data, a well-formed execute, then malformed executes (state left behind by one
    // command must not make the validation of the next one disagree with the iterator)
    {
        let good = wire::com_execute(
            1,
            0,
            1,
            &[Param { typ: wire::T_BLOB, unsigned: false, value: None, long: true }, Param { typ: wire::T_LONG, unsigned: false, value: Some(PVal::Int(5)), long: false }],
            true,
        );
        let inline2 = wire::com_execute(
            1,
            0,
            1,
            &[Param { typ: wire::T_VAR_STRING, unsigned: false, value: Some(PVal::Bytes(b"abc".to_vec())), long: false }, Param { typ: wire::T_LONG, unsigned: false, value: Some(PVal::Int(6)), long: false }],
            true,
        );
        let reuse = {
            let mut p = vec![wire::COM_STMT_EXECUTE, 1, 0, 0, 0, 0, 1, 0, 0, 0, 0, 0];
            p.extend_from_slice(&[3, b'x', b'y', b'z', 7, 0, 0, 0]);
            p
        };
        for (hname, first_chunks) in [("long data", vec![b"chunk".to_vec()]), ("empty long data", vec![vec![]]), ("two chunks", vec![b"a".to_vec(), b"b".to_vec()])] {
            for (sname, second) in [("inline execute", &inline2), ("reuse execute", &reuse), ("same execute", &good)] {
                for cut in 10..=second.len() {
                    let mut c = Case::new(vec![Cmd::prepare(b"two params")], std_scripts());
                    let mut t = Vec::new();
                    for ch in &first_chunks {
                        t.extend(wire::raw_packet(&wire::com_long_data(1, 0, ch), 0));
                    }
                    t.extend(wire::raw_packet(&good, 0));
                    t.extend(wire::raw_packet(&second[..cut], 0));
                    t.extend(wire::raw_packet(&[wire::COM_PING], 0));
                    c.raw_tail = t;
                    muts.push(M { what: format!("history: {} + execute, then {} cut short", hname, sname), case: c });
                }
            }
        }
    }
    // zero-length packets in various places
    for n in 1..4 {
        let mut c = Case::new(vec![Cmd::ping()], vec![]);
        let mut t = Vec::new();
        for k in 0..n {
            t.extend(wire::raw_packet(&[], k as u8));
        }
        t.extend(wire::raw_packet(&[wire::COM_PING], 0));
        c.raw_tail = t;
        muts.push(M { what: "zero-length packet".into(), case: c });
    }
    // handshakes of both layouts cut at every byte: (i) payload truncated but well framed, (ii) stream truncated
    let h41 = wire::handshake41(0x003f_a685, 1 << 24, 0x21, b"user", b"\x14aaaaaaaaaaaaaaaaaaaadb\0mysql_native_password\0");
    let h320 = wire::handshake320(0x0005, 1 << 20, b"olduser", b"pw\0");
    for (lname, h) in [("4.1", &h41), ("3.20", &h320)] {
        for cut in 0..=h.len() {
            let mut c = Case::new(vec![], vec![]);
            let mut s = wire::raw_packet(&h[..cut], 1);
            s.extend(wire::raw_packet(&[wire::COM_PING], 0));
            c.raw_input = Some(s);
            muts.push(M { what: format!("handshake {} payload truncated", lname), case: c });
            let mut c = Case::new(vec![], vec![]);
            let full = wire::raw_packet(h, 1);
            c.raw_input = Some(full[..(cut + 4).min(full.len())].to_vec());
            muts.push(M { what: format!("handshake {} stream truncated", lname), case: c });
        }
        // header claims more than is sent / a huge length
        let mut c = Case::new(vec![], vec![]);
        let mut s = vec![0xFF, 0xFF, 0x00, 1];
        s.extend_from_slice(h);
        c.raw_input = Some(s);
        muts.push(M { what: format!("handshake {} header claims 65535 bytes", lname), case: c });
    }
    // SSLRequest followed by garbage / truncated ClientHello / plaintext handshake response
    {
        let hello: Vec<u8> = match &tlsm {
            Some(m) => {
                let cfg = m.client_config(true, false).unwrap();
                let mut conn = rustls::ClientConnection::new(cfg, tls::server_name()).unwrap();
                let mut v = Vec::new();
                let _ = conn.write_tls(&mut v);
                v
            }
            None => vec![0x16, 0x03, 0x01, 0x00, 0x05, 1, 0, 0, 1, 0],
        };
        let sslreq = wire::ssl_request(0x003f_a685, 1 << 24, 0x21);
        for offer in [false, true] {
            let mut tails: Vec<(&str, Vec<u8>)> = vec![("nothing", vec![]), ("garbage", vec![0xde, 0xad, 0xbe, 0xef, 0x00, 0x01, 0x02, 0x03, 0x04, 0x05]), ("plaintext handshake response", wire::raw_packet(&h41, 2)), ("http", b"GET / HTTP/1.1\r\n\r\n".to_vec()), ("tls alert", vec![0x15, 0x03, 0x03, 0x00, 0x02, 0x02, 0x28]), ("oversized tls record header", vec![0x16, 0x03, 0x03, 0xFF, 0xFF, 1, 2, 3])];
            let step = if ctx.miri { 97 } else { 1 };
            for cut in (0..hello.len()).step_by(step) {
                tails.push(("truncated ClientHello", hello[..cut].to_vec()));
            }
            let mut corrupt = hello.clone();
            if corrupt.len() > 50 {
                corrupt[43] ^= 0xFF;
                corrupt[9] ^= 0x55;
            }
            tails.push(("corrupted ClientHello", corrupt));
            for (tname, t) in tails {
                let mut c = Case::new(vec![], vec![]);
                c.handshake = sslreq.clone();
                c.raw_tail = t;
                if offer {
                    c.tls = tlsm.as_ref().map(|m| m.server_optional.clone());
                    if c.tls.is_none() {
                        continue;
                    }
                }
                muts.push(M { what: format!("SSLRequest then {} (tls {})", tname, if offer { "offered" } else { "not offered" }), case: c });
            }
        }
    }
    if ctx.miri {
        // Miri costs ~1 s per command: keep a seeded sample of ~40 mutations
        let k = (muts.len() / 25).max(1);
        let off = (ctx.seed as usize) % k;
        muts = muts.into_iter().enumerate().filter(|(i, _)| i % k == off).map(|(_, m)| m).collect();
    }
    let mref = &muts;
    let r = par_cases(ctx, "C20", "mutations", ((muts.len() + per - 1) / per) as u64, |_rng, i, rep| {
        for (mi, m) in mref.iter().enumerate().skip(i as usize * per).take(per) {
            // each mutation under two read schedules
            for sched in 0..2 {
                let mut case = m.case.clone();
                if sched == 1 {
                    case.sched = Sched::fixed(1 + (mi % 5));
                }
                let obs = run_case(&case);
                rep.evaluations += 1;
                let d = || {
                    let (inp, _) = case.input();
                    J::obj().set("generator", "grammar-aware mutation").set("mutation", m.what.clone()).set("client_bytes_tail", hex(&inp[inp.len().saturating_sub(64)..])).set("client_bytes", inp.len()).set("sched", case.sched.describe()).set("outcome", obs.outcome.describe())
                };
                if mi % 997 == 5 && sched == 0 {
                    rep.sample(d());
                }
                judge(&obs, &m.what, rep, &d);
            }
        }
    });
    rep.merge(r);
    rep.notes.push(format!("{} grammar-aware mutations, each under two read schedules", muts.len()));

    // ---- fragment sequence ids (needs >= 16 MiB requests): in order, out of order, wrapping
    if !ctx.miri {
        let idsets: Vec<Vec<u8>> = if ctx.thorough { vec![vec![0, 1], vec![0, 0], vec![0, 2], vec![5, 4], vec![255, 0], vec![255, 255], vec![254, 255, 0], vec![0, 1, 1], vec![7, 8, 10], vec![1, 0], vec![0, 2, 3]] } else { vec![vec![0, 0], vec![0, 2], vec![255, 0]] };
        let r = par_cases(ctx, "C20", "fragment-ids", idsets.len() as u64, |_rng, i, rep| {
            let ids = &idsets[i as usize];
            let plen = if ids.len() == 3 { 2 * MAXP + 10 } else { MAXP + 10 };
            let mut text = vec![wire::COM_QUERY];
            stream_fill(&mut text, ctx.seed, i, plen - 1, true);
            let mut case = Case::new(vec![], vec![Script::Q(QProg::completed(1, 1))]);
            let mut t = wire::frame_ids(&text, ids);
            t.extend(wire::raw_packet(&[wire::COM_PING], 0));
            case.raw_tail = t;
            case.sched = Sched { cuts: vec![], cycle: vec![1 << 20] };
            case.log_reads = false;
            let obs = run_case(&case);
            rep.evaluations += 1;
            let consecutive = ids.windows(2).all(|w| w[1] == w[0].wrapping_add(1));
            let what = format!("fragment ids {}", if consecutive { "consecutive" } else { "out of order" });
            let d = || J::obj().set("generator", "multi-packet request with chosen fragment sequence ids").set("fragment_ids", ids.iter().map(|&x| J::from(x)).collect::<Vec<_>>()).set("payload", plen).set("outcome", obs.outcome.describe());
            rep.sample(d());
            judge(&obs, &what, rep, &d);
            if consecutive && obs.outcome != Outcome::Ok {
                rep.violations.push(viol("C20", "C20 consecutive-fragments-refused".into(), format!("a multi-packet request with consecutive fragment ids {:?} made run_on return {}", ids, obs.outcome.describe()), d()));
            }
        });
        rep.merge(r);
    }

    // ---- well-formed requests of 16 MiB and more, by the length of the trailing fragment and the
    //      way the transport hands the bytes over (all at once, the tail in small pieces, a read
    //      that ends just behind the full fragment, ...): any byte sequence includes these
    if !ctx.miri {
        let tails: Vec<usize> = if ctx.thorough { vec![0, 1, 10, 1000, 3000, 4091, 4092, 4093, 4096, 5000, 8192, 70_000, MAXP - 1, MAXP + 7] } else { vec![0, 3000, 5000, 4093, 70_000] };
        let nsched = 5usize;
        let r = par_cases(ctx, "C20", "multi-packet-chunkings", (tails.len() * nsched) as u64, |rng, i, rep| {
            let tail = tails[i as usize / nsched];
            let sk = i as usize % nsched;
            let plen = MAXP + tail;
            let mut text = Vec::new();
            stream_fill(&mut text, ctx.seed, 900 + i, plen - 1, true);
            let mut case = Case::new(vec![Cmd::query(&text), Cmd::ping(), Cmd::query(b"after")], vec![Script::Q(QProg::completed(1, 1)), Script::Q(QProg::completed(2, 2))]);
            let (input, ends) = case.input();
            let start = ends[0].0; // first byte of the big command
            let frag2 = start + 4 + MAXP;
            case.sched = match sk {
                0 => Sched { cuts: vec![], cycle: vec![1 << 26] },
                // the first fragment in one read, then the tail in pieces of 1000 bytes (at most 20 of them)
                1 => Sched { cuts: (0..20).map(|k| frag2 + k * 1000).filter(|&c| c < input.len()).collect(), cycle: vec![1 << 26] },
                2 => Sched { cuts: vec![frag2 + 4 + rng.below(tail.max(1) as u64) as usize], cycle: vec![1 << 26] },
                3 => Sched { cuts: vec![frag2 - 1, frag2 + 3], cycle: vec![(1 << 20) + 13] },
                _ => Sched { cuts: vec![start + 3, frag2 + 1 + rng.below(3) as usize], cycle: vec![(1 << 22) + rng.range(1, 5000) as usize, 4096, 100] },
            };
            case.log_reads = false;
            let obs = run_case(&case);
            rep.evaluations += 1;
            let what = format!("well-formed multi-packet request, tail {}, read pattern {}", len_class(tail), sk);
            let d = || J::obj().set("generator", "well-formed request of 2^24-1 + tail payload bytes").set("tail_bytes", tail).set("input_bytes", input.len()).set("sched", case.sched.describe()).set("outcome", obs.outcome.describe());
            if i == 0 {
                rep.sample(d());
            }
            judge(&obs, &what, rep, &d);
            if !matches!(obs.outcome, Outcome::Panic { .. }) {
                let served = obs.log.cbs.iter().filter(|c| matches!(c.kind, CbKind::Query(_))).count();
                if obs.outcome != Outcome::Ok || served != 2 {
                    rep.violations.push(viol("C20", "C20 well-formed-multi-packet-request-refused".into(), format!("a well-formed request of {} payload bytes made run_on return {} ({} of 2 queries served)", plen, obs.outcome.describe(), served), d()));
                } else {
                    rep.counters.inc("well_formed_multi_packet_requests_served");
                }
            }
        });
        rep.merge(r);
    }

    // ---- well-formed requests whose reply has exactly N packets, for N around 256 and 512, with a
    //      client that sends its next command only after the reply: the outcome of a request is a
    //      reply or an error return, never silence
    if !ctx.miri {
        let counts: Vec<usize> = (252..=260).chain(508..=516).collect();
        let r = par_cases(ctx, "C20", "reply-packet-counts-in-lock-step", counts.len() as u64, |_rng, i, rep| {
            let packets = counts[i as usize];
            let rows = packets - 4;
            let cols = vec![simple_col("a", msql_srv::ColumnType::MYSQL_TYPE_LONG)];
            let mut ops = vec![QOp::Start(0)];
            for r in 0..rows {
                ops.push(QOp::Row(vec![Cell::val(V::I32(r as i32))], RowForm::Owned));
            }
            ops.push(QOp::Finish);
            let mut case = Case::new(vec![Cmd::query(b"q"), Cmd::ping(), Cmd::query(b"q2"), Cmd::ping()], vec![Script::Q(QProg { colsets: vec![cols.clone()], ops: ops.clone(), on_err: OnErr::Drop }), Script::Q(QProg { colsets: vec![cols], ops, on_err: OnErr::Drop })]);
            case.arrival = Arrival::Pipelined(1);
            let obs = run_case(&case);
            rep.evaluations += 1;
            let what = format!("well-formed query, reply of {} packets, lock-step", packets);
            let d = || J::obj().set("generator", "well-formed COM_QUERY answered with a one-column resultset").set("reply_packets", packets).set("arrival", "lock-step").set("outcome", obs.outcome.describe());
            judge(&obs, &what, rep, &d);
            if let Some(r) = &obs.world.deadlock {
                rep.violations.push(viol("C20", "C20 request-never-answered".into(), format!("the server waits for input at offset {} although a complete request has no (flushed) reply: {} bytes written and not flushed", r.pos, r.pending), d()));
            } else if obs.outcome == Outcome::Ok {
                rep.counters.inc("lock_step_replies_of_chosen_packet_count_delivered");
            }
        });
        rep.merge(r);
    }

    // ---- the commands the library answers by itself, in every legal spelling, from a client that
    //      waits for each reply before it sends the next command: COM_FIELD_LIST (table, NUL,
    //      optional field wildcard matching everything, something or nothing; no NUL; non-ASCII),
    //      SELECT @@ variables of every name, PING, COM_INIT_DB and USE with odd names - always a
    //      reply or an error return, never silence
    let n = if ctx.miri { 3 } else { ctx.n(1500, 40_000) };
    let r = par_cases(ctx, "C20", "built-ins-in-lock-step", n, |rng, i, rep| {
        let mut cmds = Vec::new();
        let mut scripts = Vec::new();
        let mut shape = String::new();
        for _ in 0..rng.range(1, 4) {
            match rng.below(6) {
                0 | 1 => {
                    let arg = field_list_arg(rng);
                    shape.push_str(&format!("FIELD_LIST({}) ", show(&arg)));
                    cmds.push(Cmd::field_list(&arg));
                }
                2 => {
                    let var: &[u8] = *rng.pick(&[&b"max_allowed_packet"[..], b"version_comment", b"last_insert_id", b"identity", b"session.auto_increment_increment", b"x", b"", b"global.time_zone, @@session.time_zone", b"tx_isolation LIMIT 1", "caf\u{e9}".as_bytes()]);
                    let mut q = if rng.bool() { b"SELECT @@".to_vec() } else { b"select @@".to_vec() };
                    q.extend_from_slice(var);
                    shape.push_str(&format!("{} ", show(&q)));
                    cmds.push(Cmd::query(&q));
                }
                3 => {
                    shape.push_str("PING ");
                    cmds.push(Cmd::ping());
                }
                4 => {
                    let name: &[u8] = *rng.pick(&[&b"db"[..], b"", b"a b", b"`q`", "sch\u{e9}ma".as_bytes(), b"x;y", b"0"]);
                    shape.push_str(&format!("INIT_DB({}) ", show(name)));
                    cmds.push(Cmd::init_db(name));
                    scripts.push(Script::InitOk);
                }
                _ => {
                    shape.push_str("USE ");
                    cmds.push(Cmd::query(b"USE `shop`;"));
                    scripts.push(Script::InitOk);
                }
            }
        }
        cmds.push(Cmd::ping());
        // any request sequence id: a conformant reply continues the id of its own request
        let ids_varied = rng.bool();
        if ids_varied {
            for c in cmds.iter_mut() {
                c.seq = *rng.pick(&[0u8, 1, 2, 7, 100, 250, 254, 255]);
            }
        }
        let mut case = Case::new(cmds, scripts);
        case.arrival = Arrival::Pipelined(1);
        let obs = run_case(&case);
        rep.evaluations += 1;
        let d = || J::obj().set("commands", shape.clone()).set("request_ids", if ids_varied { "varied" } else { "0" }).set("arrival", "lock-step").set("outcome", obs.outcome.describe());
        if i == 0 {
            rep.sample(d());
        }
        let before = rep.violations.len();
        judge(&obs, "built-in commands in lock-step", rep, &d);
        if rep.violations.len() == before && obs.outcome == Outcome::Ok {
            if let Ok((pkts, msgs, dec)) = decode_output(&obs) {
                if dec.stop.is_none() {
                    if let Some(v) = seq_violations(&obs, &pkts, &msgs, &dec).into_iter().next() {
                        rep.violations.push(viol("C20", "C20 nonconformant-reply sequence-id".into(), format!("a command the library answers itself, sent with its own sequence id, got a reply that does not continue it: {} ({})", v, shape), d()));
                        return;
                    }
                    rep.counters.inc("built_in_replies_id_checked");
                }
            }
        }
        if let Some(r) = &obs.world.deadlock {
            rep.violations.push(viol("C20", "C20 request-never-answered".into(), format!("the server waits for input at offset {} although a complete request has no (flushed) reply: {} bytes written and not flushed ({})", r.pos, r.pending, shape), d()));
        } else if obs.outcome == Outcome::Ok {
            rep.counters.inc("built_ins_answered_in_lock_step");
        }
    });
    rep.merge(r);

    // ---- malformed input INSIDE an established TLS session (the second handshake parse of init())
    if let Some(m) = &tlsm {
        let caps = 0x003f_a685 | wire::CLIENT_SSL;
        let h41 = wire::handshake41(caps, 1 << 24, 0x21, b"tlsuser", b"\x00");
        let mut apps: Vec<(String, Vec<u8>)> = vec![("nothing (close right after the TLS handshake)".into(), vec![])];
        for cut in 0..=h41.len() {
            apps.push(("handshake response payload truncated".into(), wire::raw_packet(&h41[..cut], 2)));
            let full = wire::raw_packet(&h41, 2);
            apps.push(("handshake response stream truncated".into(), full[..(cut + 4).min(full.len())].to_vec()));
        }
        apps.push(("3.20 layout after TLS".into(), wire::raw_packet(&wire::handshake320(0x0005, 1 << 20, b"old", b""), 2)));
        apps.push(("random bytes".into(), vec![0x17, 0x03, 0x03, 0x00, 0x01, 0xFF, 0x00, 0x09, 0x99]));
        let mut ok_then_bad = wire::raw_packet(&h41, 2);
        ok_then_bad.extend(wire::raw_packet(&[], 0));
        apps.push(("valid handshake then an empty packet".into(), ok_then_bad));
        let mut ok_then_trunc = wire::raw_packet(&h41, 2);
        ok_then_trunc.extend_from_slice(&[0x05, 0x00, 0x00, 0x00, 0x03, b's']);
        apps.push(("valid handshake then a truncated command".into(), ok_then_trunc));
        if ctx.miri {
            apps.clear();
        }
        let aref = &apps;
        let r = par_cases(ctx, "C20", "inside-tls", apps.len() as u64, |rng, i, rep| {
            let (what, app) = &aref[i as usize];
            let c = super::c18::TlsCase { tls13: rng.bool(), with_cert: false, server_mode: 0, user: b"tlsuser".to_vec(), cmds: vec![], scripts: vec![], first_cut: 0, cycle: if rng.bool() { vec![] } else { vec![rng.range(1, 50) as usize] }, write_limit: usize::MAX, close_notify: rng.bool(), raw_limit: None, hs_variant: 0, app_override: Some(app.clone()), seqs: (1, 2), auth_reject: None, record_per_command: false, write_fault: None, buffer_writes: rng.bool(), eager_close: false };
            let o = match super::c18::run_tls(m, &c) {
                Ok(o) => o,
                Err(e) => {
                    rep.inconclusive.push(format!("TLS harness error: {}", e));
                    return;
                }
            };
            rep.evaluations += 1;
            let d = || J::obj().set("generator", "malformed plaintext inside an established TLS session").set("mutation", what.clone()).set("plaintext", hex(&app[..app.len().min(80)])).set("outcome", o.outcome.describe());
            if i == 0 {
                rep.sample(d());
            }
            rep.counters.inc(&format!("outcome_{}", o.outcome.class().to_lowercase()));
            match &o.outcome {
                Outcome::Panic { file, line, msg } if !is_harness_file(file) => {
                    rep.counters.class(format!("inside TLS: {} -> panic", what));
                    rep.violations.push(viol("C20", format!("C20 {}", panic_signature(file, *line, msg)), format!("client bytes inside TLS ({}) made run_on panic: {}", what, o.outcome.describe()), d()));
                }
                Outcome::Panic { file, line, msg } => rep.inconclusive.push(format!("harness panic at {}:{}: {}", file, line, trunc(msg, 100))),
                other => rep.counters.class(format!("inside TLS: {} -> {}", what, other.class())),
            }
            if o.world.wedged {
                rep.violations.push(viol("C20", format!("C20 wedge inside TLS: {}", what), "operation budget exhausted".into(), d()));
            }
            if let Err(e) = tls::tls_records(&o.world.server_raw_after) {
                rep.violations.push(viol("C20", format!("C20 not-tls-after-upgrade inside TLS: {}", what), e, d()));
            } else {
                rep.counters.inc("tls_phase_outputs_checked");
            }
        });
        rep.merge(r);
    }

    // ---- (b6) histories of executions on one statement - bind, reuse, bind other types (narrower,
    //      wider, of variable length), reuse - closed by an execution whose value block is cut short,
    //      too long, or laid out for the types of an EARLIER binding: whatever the server remembers
    //      about the statement (types, widths, lengths), a block that does not fit the current binding
    //      is refused, never a panic
    let n = if ctx.miri { 3 } else { ctx.n(3000, 80_000) };
    let r = par_cases(ctx, "C20", "execute-histories", n, |rng, i, rep| {
        let np = rng.range(1, 3) as usize;
        let mut case = Case::new(vec![Cmd::prepare(b"select ?")], vec![Script::PrepOk { id: 1, params: param_cols(np), cols: vec![] }]);
        let fixed = [wire::T_TINY, wire::T_SHORT, wire::T_LONG, wire::T_LONGLONG, wire::T_FLOAT, wire::T_DOUBLE];
        let var = [wire::T_VAR_STRING, wire::T_BLOB];
        let mut bindings: Vec<Vec<(u8, bool)>> = Vec::new();
        let mut shape = String::new();
        let steps = rng.range(1, 5);
        for st in 0..steps {
            let rebind = st == 0 || rng.bool();
            if rebind {
                let tys: Vec<(u8, bool)> = (0..np).map(|_| (if rng.chance(1, 4) { *rng.pick(&var) } else { *rng.pick(&fixed) }, rng.bool())).collect();
                bindings.push(tys);
                shape.push('B');
            } else {
                shape.push('r');
            }
            let tys = bindings.last().unwrap().clone();
            let params: Vec<Param> = tys.iter().map(|&(t, u)| gen_param_of(rng, t, u, false)).collect();
            case.cmds.push(Cmd::execute_plain(1, &params, rebind));
            case.scripts.push(Script::Q(QProg::completed(st, 0)));
        }
        // the closing execution omits the types; its values follow the current or an earlier binding,
        // and the block may be cut or padded
        let tys = if bindings.len() > 1 && rng.bool() { bindings[rng.usize(bindings.len() - 1)].clone() } else { bindings.last().unwrap().clone() };
        let params: Vec<Param> = tys.iter().map(|&(t, u)| gen_param_of(rng, t, u, false)).collect();
        let mut last = wire::com_execute(1, 0, 1, &params, false);
        let what = match rng.below(4) {
            0 => {
                let cut = rng.range(1, 9) as usize;
                let keep = last.len().saturating_sub(cut).max(10 + (np + 7) / 8);
                last.truncate(keep);
                "reuse, values cut short"
            }
            1 => {
                let pad = rng.range(1, 9) as usize;
                last.extend(rng.bytes(pad));
                "reuse, values padded"
            }
            2 => "reuse, values laid out for an earlier binding",
            _ => {
                last.truncate(10 + (np + 7) / 8 + 1);
                "reuse, no values at all"
            }
        };
        shape.push_str(" + ");
        shape.push_str(what);
        let mut tail = wire::raw_packet(&last, 0);
        tail.extend(wire::raw_packet(&[wire::COM_PING], 0));
        case.raw_tail = tail;
        case.scripts.push(Script::Q(QProg::completed(99, 0)));
        let obs = run_case(&case);
        rep.evaluations += 1;
        let d = || J::obj().set("history (B = execute that binds types, r = reuse)", shape.clone()).set("parameters", np).set("last_execute", hex(&last[..last.len().min(48)])).set("outcome", obs.outcome.describe());
        if i == 0 {
            rep.sample(d());
        }
        judge(&obs, "execute history", rep, &d);
    });
    rep.merge(r);

    // ---- (b7) well-formed commands that are entitled to NO reply (long data, close) aimed at statements
    //      that are live, closed, never prepared or at parameter indexes out of range, with ordinary
    //      commands behind them: the outcome is an error return or replies to exactly the commands that
    //      have one - a byte more is a reply nobody asked for, and every later reply is then read as
    //      the answer to the wrong command
    let n = if ctx.miri { 3 } else { ctx.n(1500, 40_000) };
    let r = par_cases(ctx, "C20", "no-reply-commands", n, |rng, i, rep| {
        let mut cmds = vec![Cmd::prepare(b"select ?")];
        let mut scripts = vec![Script::PrepOk { id: 1, params: param_cols(2), cols: vec![] }];
        let mut shape = String::new();
        let mut closed = false;
        for _ in 0..rng.range(1, 5) {
            match rng.below(7) {
                0 => {
                    cmds.push(Cmd::long_data(1, rng.below(2) as u16, &rng.bytes(5)));
                    shape.push_str(if closed { "L(closed) " } else { "L(live) " });
                }
                1 => {
                    cmds.push(Cmd::long_data(1, *rng.pick(&[2u16, 3, 255, 256, 65_535]), &rng.bytes(3)));
                    shape.push_str("L(index out of range) ");
                }
                2 => {
                    cmds.push(Cmd::long_data(*rng.pick(&[0u32, 2, 77, u32::MAX]), 0, &rng.bytes(4)));
                    shape.push_str("L(never prepared) ");
                }
                3 => {
                    cmds.push(Cmd::close(1));
                    closed = true;
                    shape.push_str("C(1) ");
                }
                4 => {
                    cmds.push(Cmd::close(*rng.pick(&[0u32, 2, 999, u32::MAX])));
                    shape.push_str("C(unknown) ");
                }
                5 => {
                    cmds.push(Cmd::query(b"q"));
                    scripts.push(Script::Q(QProg::completed(1, 2)));
                    shape.push_str("Q ");
                }
                _ => {
                    cmds.push(Cmd::ping());
                    shape.push_str("P ");
                }
            }
        }
        cmds.push(Cmd::query(b"last"));
        scripts.push(Script::Q(QProg::completed(3, 4)));
        cmds.push(Cmd::ping());
        let mut case = Case::new(cmds, scripts);
        if rng.bool() {
            case.arrival = Arrival::Pipelined(1);
        }
        let obs = run_case(&case);
        rep.evaluations += 1;
        let what = "no-reply commands";
        let d = || J::obj().set("commands", shape.clone()).set("outcome", obs.outcome.describe());
        if i == 0 {
            rep.sample(d());
        }
        let before = rep.violations.len();
        judge(&obs, what, rep, &d);
        if rep.violations.len() > before || matches!(obs.outcome, Outcome::Panic { .. }) {
            return;
        }
        // exactly one reply per command that has one, among the commands the server got to
        if let Ok((_, msgs, dec)) = decode_output(&obs) {
            if dec.used < msgs.len() && dec.stop.is_none() {
                rep.violations.push(viol("C20", "C20 unsolicited-reply".into(), format!("{} message(s) left over after every reply-expecting command had its reply (first leftover starts 0x{:02x}): a command that has no reply was answered", msgs.len() - dec.used, msgs[dec.used].payload.first().copied().unwrap_or(0)), d()));
                return;
            }
            let owed = obs.kinds.iter().filter(|k| k.expects_reply()).count();
            if matches!(obs.outcome, Outcome::Ok) && dec.resps.len() != owed {
                rep.violations.push(viol("C20", "C20 reply-count".into(), format!("run_on returned Ok; {} replies for {} commands that have one", dec.resps.len(), owed), d()));
                return;
            }
            rep.counters.inc("no_reply_conversations_checked");
        }
    });
    rep.merge(r);

    // ---- a login over TLS that the backend refuses, and one it accepts, under any pair of sequence ids
    //      (SSLRequest, handshake response inside TLS): the answer is a conformant reply - an ERR or
    //      an OK that continues the id of the packet it answers - or an error return
    if let Some(m) = &tlsm {
        let n = if ctx.miri { 0 } else { ctx.n(40, 1000) };
        let r = par_cases(ctx, "C20", "tls-login-replies", n, |rng, i, rep| {
            let reject = i % 2 == 0;
            let seqs = if rng.bool() { (1u8, 2u8) } else { (rng.below(256) as u8, rng.below(256) as u8) };
            let c = super::c18::TlsCase { tls13: rng.bool(), with_cert: false, server_mode: 0, user: b"tlsuser".to_vec(), cmds: vec![Cmd::ping()], scripts: vec![], first_cut: 0, cycle: if rng.bool() { vec![] } else { vec![rng.range(1, 200) as usize] }, write_limit: usize::MAX, close_notify: true, raw_limit: None, hs_variant: 0, app_override: None, seqs, auth_reject: if reject { Some(77) } else { None }, record_per_command: rng.bool(), write_fault: None, buffer_writes: rng.bool(), eager_close: false };
            let o = match super::c18::run_tls(m, &c) {
                Ok(o) => o,
                Err(e) => {
                    rep.inconclusive.push(format!("TLS harness error: {}", e));
                    return;
                }
            };
            rep.evaluations += 1;
            let d = || J::obj().set("login", if reject { "refused by the backend" } else { "accepted" }).set("ids (SSLRequest, response inside TLS)", format!("{:?}", seqs)).set("outcome", o.outcome.describe());
            if i == 0 {
                rep.sample(d());
            }
            if let Outcome::Panic { file, line, msg } = &o.outcome {
                rep.violations.push(viol("C20", format!("C20 {}", panic_signature(file, *line, msg)), format!("a TLS login made run_on panic: {}", o.outcome.describe()), d()));
                return;
            }
            let (pk, _) = wire::packets_prefix(&o.world.app_in);
            let first = pk.first().map(|p| (p.seq, o.world.app_in[p.off + 4..p.off + 4 + p.len].to_vec()));
            let want = seqs.1.wrapping_add(1);
            let ok = match &first {
                Some((seq, payload)) => *seq == want && if reject { wire::parse_err(payload).is_ok() } else { wire::parse_ok(payload).is_ok() },
                None => false,
            };
            if ok {
                rep.counters.inc("tls_login_replies_checked");
            } else if o.world.client_error.is_none() {
                rep.violations.push(viol("C20", "C20 nonconformant-reply tls-login".into(), format!("the reply to a handshake response with id {} inside TLS is {:?} (an {} with id {} is the conformant one)", seqs.1, first.map(|(s, p)| format!("id {} {}", s, show(&p[..p.len().min(24)]))), if reject { "ERR" } else { "OK" }, want), d()));
            }
        });
        rep.merge(r);
    }

    // ---- statement texts: everything the near-miss pool of C02 holds (comments terminated and not,
    //      stacked, version comments, the built-in prefixes in every disguise, NUL bytes, punctuation
    //      next to the prefixes) as COM_QUERY, COM_STMT_PREPARE and COM_INIT_DB, alone and pipelined:
    //      a reply or an error return - and progress (a parser that spins on a text never touches the
    //      transport again; the stuck-case watchdog and its isolated re-run are what decides that)
    let n = if ctx.miri { 4 } else { super::c02::NEAR_MISS.len() as u64 * 6 };
    let r = par_cases(ctx, "C20", "statement-texts", n, |rng, i, rep| {
        let base = super::c02::NEAR_MISS[(i / 6) as usize % super::c02::NEAR_MISS.len()].as_bytes().to_vec();
        let mut text = base.clone();
        match i % 6 {
            3 => text.extend_from_slice(b" "),
            4 => {
                let mut t = b"  ".to_vec();
                t.extend_from_slice(&text);
                text = t;
            }
            5 => {
                let mut t = b"/* a */ ".to_vec();
                t.extend_from_slice(&text);
                text = t;
            }
            _ => {}
        }
        let mut cmds = Vec::new();
        let mut scripts = Vec::new();
        match i % 3 {
            0 => {
                cmds.push(Cmd::query(&text));
                scripts.push(Script::Q(QProg::completed(1, 0)));
            }
            1 => {
                cmds.push(Cmd::prepare(&text));
                scripts.push(Script::PrepOk { id: 1, params: vec![], cols: vec![] });
            }
            _ => {
                cmds.push(Cmd::init_db(&text));
                scripts.push(Script::InitOk);
            }
        }
        cmds.push(Cmd::ping());
        let mut case = Case::new(cmds, scripts);
        if rng.bool() {
            case.arrival = Arrival::Pipelined(1);
        }
        let obs = run_case(&case);
        rep.evaluations += 1;
        let d = || J::obj().set("text", show(&text)).set("sent_as", ["COM_QUERY", "COM_STMT_PREPARE", "COM_INIT_DB"][(i % 3) as usize]).set("outcome", obs.outcome.describe());
        if i < 2 {
            rep.sample(d());
        }
        judge(&obs, "statement-text", rep, &d);
    });
    rep.merge(r);

    // ---- conversations that a client ends with COM_QUIT and then keeps its socket open until the
    //      server hangs up (pools and proxies do): QUIT alone, behind commands in the same read, in
    //      lock-step, with or without commands behind it. After the QUIT the server does not read again.
    let n = if ctx.miri { 3 } else { ctx.n(600, 10_000) };
    let r = par_cases(ctx, "C20", "quit-and-wait", n, |rng, i, rep| {
        let mut cmds = Vec::new();
        let mut scripts = Vec::new();
        for k in 0..rng.below(4) {
            match rng.below(3) {
                0 => cmds.push(Cmd::ping()),
                1 => {
                    cmds.push(Cmd::query(format!("q{}", k).as_bytes()));
                    scripts.push(Script::Q(QProg::completed(k, 0)));
                }
                _ => {
                    cmds.push(Cmd::prepare(b"p"));
                    scripts.push(Script::PrepOk { id: k as u32, params: vec![], cols: vec![] });
                }
            }
        }
        cmds.push(Cmd::quit().seq(if rng.bool() { 0 } else { rng.below(256) as u8 }));
        if rng.chance(1, 4) {
            cmds.push(Cmd::ping());
        }
        let mut case = Case::new(cmds, scripts);
        match i % 3 {
            0 => {}
            1 => case.arrival = Arrival::Pipelined(1),
            _ => {
                let (input, _) = case.input();
                let sk = *rng.pick(&[SchedKind::OneByte, SchedKind::HeaderCuts, SchedKind::Random, SchedKind::Boundaries]);
                case.sched = make_sched(rng, sk, &input);
            }
        }
        let obs = run_case(&case);
        rep.evaluations += 1;
        let d = || J::obj().set("commands", kinds_summary(&case.cmds)).set("arrival", format!("{:?}", case.arrival)).set("reads", obs.world.read_log.len()).set("outcome", obs.outcome.describe());
        if i < 2 {
            rep.sample(d());
        }
        judge(&obs, "quit-and-wait", rep, &d);
        if !matches!(obs.outcome, Outcome::Ok | Outcome::Panic { .. }) {
            rep.violations.push(viol("C20", "C20 quit-not-a-clean-end".into(), format!("a well-formed conversation ended by COM_QUIT made run_on return {}", obs.outcome.describe()), d()));
        }
    });
    rep.merge(r);

    // ---- (c) random bytes
    let n = if ctx.miri { 6 } else { ctx.n(20_000, 2_000_000) };
    let r = par_cases(ctx, "C20", "random", n, |rng, i, rep| {
        let mode = i % 4;
        let mut case = Case::new(vec![], std_scripts());
        let what;
        match mode {
            0 => {
                // random stream from the start
                let n = rng.range(0, 200) as usize;
                case.raw_input = Some(rng.bytes(n));
                what = "random stream";
            }
            1 => {
                // valid handshake, then random bytes
                let n = rng.range(0, 300) as usize;
                case.raw_tail = rng.bytes(n);
                what = "random bytes after handshake";
            }
            2 => {
                // valid handshake + prepare (random parameter count), then well-framed packets with random payloads
                case.cmds.push(Cmd::prepare(b"p"));
                let np = *rng.pick(&[0usize, 1, 2, 2, 7, 8, 9, 16]);
                case.scripts[0] = Script::PrepOk { id: 1, params: param_cols(np), cols: vec![] };
                let mut t = Vec::new();
                for _ in 0..rng.range(1, 6) {
                    let n = rng.range(0, 40) as usize;
                    let mut p = rng.bytes(n);
                    if !p.is_empty() && rng.chance(3, 4) {
                        p[0] = *rng.pick(&[0x03u8, 0x16, 0x17, 0x17, 0x17, 0x18, 0x19, 0x02, 0x04]);
                        if p[0] == 0x17 && p.len() > 4 && rng.bool() {
                            p[1..5].copy_from_slice(&1u32.to_le_bytes());
                        }
                    }
                    t.extend(wire::raw_packet(&p, rng.below(256) as u8));
                }
                case.raw_tail = t;
                what = "random framed payloads";
            }
            _ => {
                // bit flips in a valid conversation
                let mut c = Case::new(vec![Cmd::prepare(b"select ?"), Cmd::new(Kind::Execute, valid_execute()), Cmd::query(b"select 1"), Cmd::close(1), Cmd::ping()], std_scripts());
                let (mut inp, _) = c.input();
                for _ in 0..rng.range(1, 4) {
                    let k = rng.usize(inp.len());
                    inp[k] ^= 1 << rng.below(8);
                }
                c.cmds.clear();
                c.raw_input = Some(inp);
                case = c;
                what = "bit flips in a valid conversation";
            }
        }
        if rng.bool() {
            case.sched = Sched::fixed(rng.range(1, 9) as usize);
        }
        let obs = run_case(&case);
        rep.evaluations += 1;
        let d = || {
            let (inp, _) = case.input();
            J::obj().set("generator", what).set("client_bytes", hex(&inp[..inp.len().min(400)])).set("sched", case.sched.describe()).set("outcome", obs.outcome.describe())
        };
        if i < 2 {
            rep.sample(d());
        }
        judge(&obs, what, rep, &d);
    });
    rep.merge(r);
    if ctx.strict() {
        rep.require("outcome_err", 1000);
        rep.require("outcome_ok", 100);
        rep.require("inputs_answered_conformantly", 1000);
    }
    rep
}
