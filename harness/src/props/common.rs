//! Helpers shared by the property monitors.
use crate::core::*;
use crate::shim::*;
use crate::transport::Sched;
use crate::util::*;
use crate::wire::{self, Kind};
use msql_srv::{Column, ColumnFlags, ColumnType};

/// (header offset, payload length) of every packet in a client byte stream
pub fn layout(input: &[u8]) -> Vec<(usize, usize)> {
    wire::packets_prefix(input).0.iter().map(|p| (p.off, p.len)).collect()
}

#[derive(Clone, Copy, Debug, PartialEq, Eq)]
pub enum SchedKind {
    OneByte,
    Fixed,
    Random,
    HeaderCuts,
    Boundaries,
    All,
    RandomCuts,
}
pub const SCHED_KINDS: [SchedKind; 7] =
    [SchedKind::OneByte, SchedKind::Fixed, SchedKind::Random, SchedKind::HeaderCuts, SchedKind::Boundaries, SchedKind::All, SchedKind::RandomCuts];

/// Build a read schedule of the given kind for this input.
pub fn make_sched(rng: &mut Rng, kind: SchedKind, input: &[u8]) -> Sched {
    let lay = layout(input);
    match kind {
        SchedKind::OneByte => Sched::fixed(1),
        SchedKind::Fixed => Sched::fixed(rng.range(2, 9) as usize),
        SchedKind::Random => {
            let r = *rng.pick(&[3u64, 17, 100, 5000]);
            Sched { cuts: vec![], cycle: (0..97).map(|_| rng.range(1, r) as usize).collect() }
        }
        SchedKind::HeaderCuts => {
            // a read ends after 1, 2 or 3 header bytes of every packet
            let mut cuts = Vec::new();
            let mode = rng.below(4);
            for (off, _) in &lay {
                match mode {
                    0 => cuts.push(off + 1),
                    1 => cuts.push(off + 2),
                    2 => cuts.push(off + 3),
                    _ => {
                        cuts.push(off + 1 + rng.below(3) as usize);
                    }
                }
                if rng.chance(1, 3) {
                    cuts.push(off + 4);
                }
            }
            cuts.sort_unstable();
            cuts.dedup();
            Sched { cuts, cycle: vec![] }
        }
        SchedKind::Boundaries => {
            let mut cuts: Vec<usize> = lay.iter().map(|(o, l)| o + 4 + l).collect();
            cuts.dedup();
            Sched { cuts, cycle: vec![] }
        }
        SchedKind::All => Sched::all(),
        SchedKind::RandomCuts => {
            let n = rng.range(1, 12) as usize;
            let mut cuts: Vec<usize> = (0..n).map(|_| rng.usize(input.len().max(1))).filter(|&c| c > 0).collect();
            cuts.sort_unstable();
            cuts.dedup();
            Sched { cuts, cycle: if rng.bool() { vec![] } else { vec![rng.range(1, 4096) as usize] } }
        }
    }
}

/// Classify where every read ended relative to the packet structure of the input; returns counters.
pub fn classify_reads(obs: &Obs, cnt: &mut Counters) -> Vec<&'static str> {
    let lay = layout(&obs.world.input);
    let mut classes = Vec::new();
    let ends: Vec<usize> = obs.ends.iter().map(|e| e.0).collect();
    for r in &obs.world.read_log {
        if r.n == 0 {
            continue;
        }
        cnt.inc("reads");
        cnt.add("bytes_delivered", r.n as u64);
        let end = r.pos + r.n;
        // which packet contains offset `end` (as the position of the next undelivered byte)
        let i = lay.partition_point(|(o, _)| *o <= end);
        let cls = if end == obs.world.input.len() && (i == 0 || lay[i - 1].0 + 4 + lay[i - 1].1 == end) {
            "end_on_boundary"
        } else if i == 0 {
            "end_in_payload"
        } else {
            let (o, l) = lay[i - 1];
            let rel = end - o;
            if rel == 0 {
                "end_on_boundary"
            } else if rel < 4 {
                ["", "end_in_header_1", "end_in_header_2", "end_in_header_3"][rel]
            } else if rel == 4 + l {
                "end_on_boundary"
            } else {
                "end_in_payload"
            }
        };
        cnt.inc(cls);
        if !classes.contains(&cls) {
            classes.push(cls);
        }
        // number of exchange ends inside (pos, end]
        let k = ends.iter().filter(|&&e| e > r.pos && e <= end).count();
        if k > 1 {
            cnt.inc("reads_delivering_several_commands");
            if !classes.contains(&"several_commands") {
                classes.push("several_commands");
            }
        }
    }
    classes
}

pub fn len_class(n: usize) -> &'static str {
    match n {
        0 => "0",
        1 => "1",
        2..=10 => "2-10",
        11..=250 => "11-250",
        251..=4075 => "251-4075",
        4076..=4116 => "~4096",
        4117..=8171 => "4117-8171",
        8172..=8212 => "~8192",
        8213..=65515 => "8213-65515",
        65516..=65556 => "~65536",
        65557..=16_777_212 => "65557-16M",
        16_777_213 => "2^24-3",
        16_777_214 => "2^24-2",
        16_777_215 => "2^24-1",
        16_777_216 => "2^24",
        16_777_217..=33_554_428 => "16M-32M",
        33_554_429 => "2*(2^24-1)-1",
        33_554_430 => "2*(2^24-1)",
        33_554_431 => "2*(2^24-1)+1",
        _ => ">32M",
    }
}

/// Decode the whole output against the exchange kinds. Err = not conformant.
pub fn decode_output(obs: &Obs) -> Result<(Vec<wire::Pkt>, Vec<wire::Msg>, wire::Decoded), String> {
    let out = obs.output();
    let (pkts, msgs) = wire::messages(&out)?;
    let d = wire::decode_all(&obs.kinds, &msgs);
    Ok((pkts, msgs, d))
}

pub fn simple_col(name: &str, t: ColumnType) -> Column {
    Column { table: "t".into(), column: name.into(), coltype: t, colflags: ColumnFlags::empty() }
}

pub fn outcome_j(o: &Outcome) -> J {
    J::s(o.describe())
}

pub fn cb_summary(cb: &Cb) -> String {
    match &cb.kind {
        CbKind::Auth { user, certs } => format!("after_authentication(user={:?}, certs={:?})", user.as_ref().map(|u| show(u)), certs.as_ref().map(|c| c.len())),
        CbKind::Query(q) => format!("on_query({})", show(q)),
        CbKind::Prepare(q) => format!("on_prepare({})", show(q)),
        CbKind::Execute { id, params } => format!("on_execute({}, {} params)", id, params.len()),
        CbKind::Close(id) => format!("on_close({})", id),
        CbKind::Init(n) => format!("on_init({})", show(n)),
    }
}

pub fn kinds_summary(cmds: &[Cmd]) -> String {
    cmds.iter()
        .map(|c| match c.kind {
            Kind::Query => "Q",
            Kind::Prepare => "P",
            Kind::Execute => "E",
            Kind::LongData => "L",
            Kind::Close => "C",
            Kind::InitDb => "I",
            Kind::FieldList => "F",
            Kind::Ping => "p",
            Kind::Quit => "X",
            _ => "?",
        })
        .collect::<Vec<_>>()
        .join("")
}

/// If the run panicked inside the harness, that is a harness bug, never a verdict.
pub fn harness_panic(obs: &Obs, rep: &mut Report) -> bool {
    if let Outcome::Panic { file, line, msg } = &obs.outcome {
        if is_harness_file(file) {
            rep.inconclusive.push(format!("harness panic at {}:{}: {}", file, line, trunc(msg, 120)));
            return true;
        }
    }
    false
}

pub fn first_diff(a: &[u8], b: &[u8]) -> Option<usize> {
    let n = a.len().min(b.len());
    for i in 0..n {
        if a[i] != b[i] {
            return Some(i);
        }
    }
    if a.len() != b.len() {
        Some(n)
    } else {
        None
    }
}
