//! Helpers shared by the property monitors.
use crate::core::*;
use crate::shim::*;
use crate::transport::Sched;
use crate::util::*;
use crate::wire::{self, Kind};
use msql_srv::{Column, ColumnFlags, ColumnType};

/// (header offset, payload length) of every packet in a client byte stream
pub fn layout(input: &[u8]) -> Vec<(usize, usize)> {
    wire::packets_prefix(input).0.iter().map(|p| (p.off, p.len)).collect()
}

#[derive(Clone, Copy, Debug, PartialEq, Eq)]
pub enum SchedKind {
    OneByte,
    Fixed,
    Random,
    HeaderCuts,
    Boundaries,
    All,
    RandomCuts,
}
pub const SCHED_KINDS: [SchedKind; 7] =
    [SchedKind::OneByte, SchedKind::Fixed, SchedKind::Random, SchedKind::HeaderCuts, SchedKind::Boundaries, SchedKind::All, SchedKind::RandomCuts];

/// Build a read schedule of the given kind for this input.
pub fn make_sched(rng: &mut Rng, kind: SchedKind, input: &[u8]) -> Sched {
    let lay = layout(input);
    match kind {
        SchedKind::OneByte => Sched::fixed(1),
        SchedKind::Fixed => Sched::fixed(rng.range(2, 9) as usize),
        SchedKind::Random => {
            let r = *rng.pick(&[3u64, 17, 100, 5000]);
            Sched { cuts: vec![], cycle: (0..97).map(|_| rng.range(1, r) as usize).collect() }
        }
        SchedKind::HeaderCuts => {
            // a read ends after 1, 2 or 3 header bytes of every packet
            let mut cuts = Vec::new();
            let mode = rng.below(4);
            for (off, _) in &lay {
                match mode {
                    0 => cuts.push(off + 1),
                    1 => cuts.push(off + 2),
                    2 => cuts.push(off + 3),
                    _ => {
                        cuts.push(off + 1 + rng.below(3) as usize);
                    }
                }
                if rng.chance(1, 3) {
                    cuts.push(off + 4);
                }
            }
            cuts.sort_unstable();
            cuts.dedup();
            Sched { cuts, cycle: vec![] }
        }
        SchedKind::Boundaries => {
            let mut cuts: Vec<usize> = lay.iter().map(|(o, l)| o + 4 + l).collect();
            cuts.dedup();
            Sched { cuts, cycle: vec![] }
        }
        SchedKind::All => Sched::all(),
        SchedKind::RandomCuts => {
            let n = rng.range(1, 12) as usize;
            let mut cuts: Vec<usize> = (0..n).map(|_| rng.usize(input.len().max(1))).filter(|&c| c > 0).collect();
            cuts.sort_unstable();
            cuts.dedup();
            Sched { cuts, cycle: if rng.bool() { vec![] } else { vec![rng.range(1, 4096) as usize] } }
        }
    }
}

/// Classify where every read ended relative to the packet structure of the input; returns counters.
pub fn classify_reads(obs: &Obs, cnt: &mut Counters) -> Vec<&'static str> {
    let lay = layout(&obs.world.input);
    let mut classes = Vec::new();
    let ends: Vec<usize> = obs.ends.iter().map(|e| e.0).collect();
    for r in &obs.world.read_log {
        if r.n == 0 {
            continue;
        }
        cnt.inc("reads");
        cnt.add("bytes_delivered", r.n as u64);
        let end = r.pos + r.n;
        // which packet contains offset `end` (as the position of the next undelivered byte)
        let i = lay.partition_point(|(o, _)| *o <= end);
        let cls = if end == obs.world.input.len() && (i == 0 || lay[i - 1].0 + 4 + lay[i - 1].1 == end) {
            "end_on_boundary"
        } else if i == 0 {
            "end_in_payload"
        } else {
            let (o, l) = lay[i - 1];
            let rel = end - o;
            if rel == 0 {
                "end_on_boundary"
            } else if rel < 4 {
                ["", "end_in_header_1", "end_in_header_2", "end_in_header_3"][rel]
            } else if rel == 4 + l {
                "end_on_boundary"
            } else {
                "end_in_payload"
            }
        };
        cnt.inc(cls);
        if !classes.contains(&cls) {
            classes.push(cls);
        }
        // number of exchange ends inside (pos, end]
        let k = ends.iter().filter(|&&e| e > r.pos && e <= end).count();
        if k > 1 {
            cnt.inc("reads_delivering_several_commands");
            if !classes.contains(&"several_commands") {
                classes.push("several_commands");
            }
        }
    }
    classes
}

pub fn len_class(n: usize) -> &'static str {
    match n {
        0 => "0",
        1 => "1",
        2..=10 => "2-10",
        11..=250 => "11-250",
        251..=4075 => "251-4075",
        4076..=4116 => "~4096",
        4117..=8171 => "4117-8171",
        8172..=8212 => "~8192",
        8213..=65515 => "8213-65515",
        65516..=65556 => "~65536",
        65557..=16_777_212 => "65557-16M",
        16_777_213 => "2^24-3",
        16_777_214 => "2^24-2",
        16_777_215 => "2^24-1",
        16_777_216 => "2^24",
        16_777_217..=33_554_428 => "16M-32M",
        33_554_429 => "2*(2^24-1)-1",
        33_554_430 => "2*(2^24-1)",
        33_554_431 => "2*(2^24-1)+1",
        _ => ">32M",
    }
}

/// Decode the whole output against the exchange kinds. Err = not conformant.
pub fn decode_output(obs: &Obs) -> Result<(Vec<wire::Pkt>, Vec<wire::Msg>, wire::Decoded), String> {
    let out = obs.output();
    let (pkts, msgs) = wire::messages(&out)?;
    let d = wire::decode_all(&obs.kinds, &msgs);
    Ok((pkts, msgs, d))
}

pub fn simple_col(name: &str, t: ColumnType) -> Column {
    Column { table: "t".into(), column: name.into(), coltype: t, colflags: ColumnFlags::empty() }
}

pub fn outcome_j(o: &Outcome) -> J {
    J::s(o.describe())
}

pub fn cb_summary(cb: &Cb) -> String {
    match &cb.kind {
        CbKind::Auth { user, certs } => format!("after_authentication(user={:?}, certs={:?})", user.as_ref().map(|u| show(u)), certs.as_ref().map(|c| c.len())),
        CbKind::Query(q) => format!("on_query({})", show(q)),
        CbKind::Prepare(q) => format!("on_prepare({})", show(q)),
        CbKind::Execute { id, params } => format!("on_execute({}, {} params)", id, params.len()),
        CbKind::Close(id) => format!("on_close({})", id),
        CbKind::Init(n) => format!("on_init({})", show(n)),
    }
}

pub fn kinds_summary(cmds: &[Cmd]) -> String {
    cmds.iter()
        .map(|c| match c.kind {
            Kind::Query => "Q",
            Kind::Prepare => "P",
            Kind::Execute => "E",
            Kind::LongData => "L",
            Kind::Close => "C",
            Kind::InitDb => "I",
            Kind::FieldList => "F",
            Kind::Ping => "p",
            Kind::Quit => "X",
            _ => "?",
        })
        .collect::<Vec<_>>()
        .join("")
}

/// If the run panicked inside the harness, that is a harness bug, never a verdict.
pub fn harness_panic(obs: &Obs, rep: &mut Report) -> bool {
    if let Outcome::Panic { file, line, msg } = &obs.outcome {
        if is_harness_file(file) {
            rep.inconclusive.push(format!("harness panic at {}:{}: {}", file, line, trunc(msg, 120)));
            return true;
        }
    }
    false
}

pub fn first_diff(a: &[u8], b: &[u8]) -> Option<usize> {
    let n = a.len().min(b.len());
    for i in 0..n {
        if a[i] != b[i] {
            return Some(i);
        }
    }
    if a.len() != b.len() {
        Some(n)
    } else {
        None
    }
}

// ------------------------------------------------------------------------------------------------
// model-driven conversations

use crate::model::{Exp, ExpCb, ExpParam, ExpVal, MCmd, Model};
use crate::wire::{PVal, Param};

#[derive(Default, Clone)]
pub struct Conv {
    pub m: Vec<MCmd>,
    pub scripts: Vec<Script>,
    pub exp: Vec<Exp>,
    pub model: Model,
}

pub fn encode(m: &MCmd) -> Cmd {
    match m {
        MCmd::Query(q) => Cmd::query(q),
        MCmd::Prepare(q) => Cmd::prepare(q),
        MCmd::Init(n) => Cmd::init_db(n),
        MCmd::FieldList(a) => Cmd::field_list(a),
        MCmd::Ping => Cmd::ping(),
        MCmd::Quit => Cmd::quit(),
        MCmd::Close(id) => Cmd::close(*id),
        MCmd::LongData { id, param, data } => Cmd::long_data(*id, *param, data),
        MCmd::Execute { id, params, send_types } => Cmd::execute(*id, params, *send_types),
    }
}

impl Conv {
    pub fn over(&self) -> bool {
        self.model.over
    }
    /// Append a command. `script` is queued only if the model says the command reaches a scripted
    /// callback (query / prepare / execute / init).
    pub fn push(&mut self, c: MCmd, script: Option<Script>) -> Exp {
        let e = self.model.step(&c, script.as_ref());
        if let Exp::Cb(cb) = &e {
            if !matches!(cb, ExpCb::Close(_)) {
                self.scripts.push(script.unwrap_or_else(|| match cb {
                    ExpCb::Prepare(_) => Script::PrepOk { id: 1, params: vec![], cols: vec![] },
                    ExpCb::Init(_) => Script::InitOk,
                    _ => Script::Q(QProg::completed(0, 0)),
                }));
            }
        }
        self.m.push(c);
        self.exp.push(e.clone());
        e
    }
    pub fn cmds(&self) -> Vec<Cmd> {
        self.m.iter().map(encode).collect()
    }
    pub fn case(&self) -> Case {
        Case::new(self.cmds(), self.scripts.clone())
    }
    pub fn summary(&self) -> String {
        kinds_summary(&self.cmds())
    }
}

pub fn inner_matches(i: &Inner, e: &ExpVal) -> bool {
    match (i, e) {
        (Inner::Null, ExpVal::Null) => true,
        (Inner::Int(a), ExpVal::Int(b)) => a == b,
        (Inner::UInt(a), ExpVal::UInt(b)) => a == b,
        (Inner::Double(a), ExpVal::Double(b)) => a == b,
        (Inner::Bytes(a), ExpVal::Bytes(b)) => a == b,
        (Inner::Date(a), ExpVal::Date(b)) => a == b,
        (Inner::Time(a), ExpVal::Time(b)) => a == b,
        (Inner::Datetime(a), ExpVal::Datetime(b)) => a == b,
        _ => false,
    }
}

pub fn show_inner(i: &Inner) -> String {
    match i {
        Inner::Bytes(b) => format!("Bytes({})", show(b)),
        o => format!("{:?}", o),
    }
}
pub fn show_expval(e: &ExpVal) -> String {
    match e {
        ExpVal::Bytes(b) => format!("Bytes({})", show(b)),
        ExpVal::Double(b) => format!("Double({:?})", f64::from_bits(*b)),
        o => format!("{:?}", o),
    }
}

/// Compare one observed callback with the expected one. Returns Err(class, description).
pub fn cb_matches(cb: &Cb, e: &ExpCb) -> Result<(), (String, String)> {
    let mism = |what: &str| Err((format!("wrong-callback"), format!("expected {} but the shim saw {}", what, cb_summary(cb))));
    match (e, &cb.kind) {
        (ExpCb::Query(t), CbKind::Query(g)) => {
            if t != g {
                return Err(("query-text-altered".into(), format!("on_query got {} but the client sent {}", show(g), show(t))));
            }
            Ok(())
        }
        (ExpCb::Prepare(t), CbKind::Prepare(g)) => {
            if t != g {
                return Err(("prepare-text-altered".into(), format!("on_prepare got {} but the client sent {}", show(g), show(t))));
            }
            Ok(())
        }
        (ExpCb::Init(t), CbKind::Init(g)) => {
            if t != g {
                return Err(("schema-name-altered".into(), format!("on_init got {} but the bare schema name is {}", show(g), show(t))));
            }
            Ok(())
        }
        (ExpCb::Close(a), CbKind::Close(b)) => {
            if a != b {
                return Err(("close-id-altered".into(), format!("on_close got {} but the client closed {}", b, a)));
            }
            Ok(())
        }
        (ExpCb::Execute { id, params }, CbKind::Execute { id: gid, params: gp }) => {
            if id != gid {
                return Err(("execute-id-altered".into(), format!("on_execute got id {} but the client executed {}", gid, id)));
            }
            // the positions this execution's callback looked at (all of them unless the script said otherwise)
            let n = params.len();
            let want: Vec<usize> = match cb.params_consumed {
                None => (0..n).collect(),
                Some("ignored") | Some("counted") => return Ok(()),
                Some("first") => (0..n.min(1)).collect(),
                Some("nth1") => (1..n.max(1).min(2)).collect(),
                Some("skip1") => (1..n.max(1)).collect(),
                Some("step2") => (0..n).step_by(2).collect(),
                Some("last") => (n.saturating_sub(1)..n).collect(),
                Some(_) => (2..n.max(2)).collect(),
            };
            if want.len() != gp.len() {
                return Err(("param-count".into(), format!("on_execute saw {} parameters{}, statement declares {} (positions looked at: {:?})", gp.len(), cb.params_consumed.map(|m| format!(" through `{}`", m)).unwrap_or_default(), n, want)));
            }
            for (i, (e, g)) in want.iter().map(|&k| (k, &params[k])).zip(gp.iter()).map(|((k, e), g)| (k, (e, g))) {
                if e.typ != g.coltype {
                    return Err(("param-type".into(), format!("parameter {}: coltype 0x{:02x}, client bound 0x{:02x}", i, g.coltype, e.typ)));
                }
                if g.is_null != matches!(g.inner, Inner::Null) {
                    return Err(("param-value".into(), format!("parameter {}: Value::is_null() says {}, into_inner() yields {}", i, g.is_null, show_inner(&g.inner))));
                }
                if !inner_matches(&g.inner, &e.val) {
                    return Err((
                        "param-value".into(),
                        format!("parameter {} (type 0x{:02x}{}): shim saw {}, client sent {}", i, e.typ, if e.unsigned { " unsigned" } else { "" }, show_inner(&g.inner), show_expval(&e.val)),
                    ));
                }
            }
            Ok(())
        }
        (ExpCb::Query(_), _) => mism("on_query"),
        (ExpCb::Prepare(_), _) => mism("on_prepare"),
        (ExpCb::Init(_), _) => mism("on_init"),
        (ExpCb::Close(_), _) => mism("on_close"),
        (ExpCb::Execute { .. }, _) => mism("on_execute"),
    }
}

/// Full-log routing check: the ordered callback list (without after_authentication) must equal the
/// model's list, and run_on's outcome must match the model's connection outcome.
/// Returns the violations as (signature-suffix, description).
pub fn routing_violations(obs: &Obs, conv: &Conv) -> Vec<(String, String)> {
    let mut out = Vec::new();
    let got: Vec<&Cb> = obs.log.cbs.iter().filter(|c| !matches!(c.kind, CbKind::Auth { .. })).collect();
    let mut gi = 0;
    let mut end: Option<&Exp> = None;
    for (ci, e) in conv.exp.iter().enumerate() {
        match e {
            Exp::Cb(cb) => {
                match got.get(gi) {
                    None => {
                        out.push(("missing-callback".into(), format!("command #{} ({:?}-kind) never reached the shim", ci, exp_name(cb))));
                        return out;
                    }
                    Some(g) => {
                        if let Err((c, d)) = cb_matches(g, cb) {
                            out.push((c, format!("command #{}: {}", ci, d)));
                            return out;
                        }
                    }
                }
                gi += 1;
            }
            Exp::Builtin | Exp::Silent => {}
            Exp::Quit | Exp::ConnErr(_) => {
                end = Some(e);
                break;
            }
        }
    }
    if got.len() > gi {
        let why = match end {
            Some(Exp::ConnErr(w)) => format!(" although the connection had to end with an error ({})", w),
            Some(Exp::Quit) => " after COM_QUIT".to_string(),
            _ => String::new(),
        };
        out.push(("extra-callback".into(), format!("unexpected callback {}{}", cb_summary(got[gi]), why)));
        return out;
    }
    match end {
        Some(Exp::ConnErr(w)) => {
            if !obs.outcome.is_err() {
                out.push(("conn-not-ended-with-error".into(), format!("run_on returned {} but the connection had to end with an error: {}", obs.outcome.describe(), w)));
            }
        }
        _ => {
            if obs.outcome != Outcome::Ok {
                out.push(("run_on-not-ok".into(), format!("run_on returned {} for a conversation that ends at a command boundary", obs.outcome.describe())));
            }
        }
    }
    out
}

/// A legal plaintext handshake response in either layout, with a capability mask from several
/// classes (never the SSL bit), random max-packet/charset and trailing auth bytes. What the client
/// announced in its handshake must not change how later commands are answered.
pub fn random_handshake(rng: &mut Rng) -> (Vec<u8>, String) {
    let layout41 = !rng.chance(1, 4);
    let (caps, cc): (u32, &str) = match rng.below(6) {
        0 => (1u32 << rng.below(32), "single bit"),
        1 => (0xFFFF_FFFF, "all bits"),
        2 => (0x003f_a685 | 0x2000_0000, "typical client"),
        3 => (0, "none"),
        4 => (0x0000_0001, "long-password only"),
        _ => (rng.next() as u32, "random"),
    };
    let caps = caps & !wire::CLIENT_SSL;
    // behind the user name: arbitrary bytes, or what a real client sends there for the capabilities
    // it announces (authentication response in one of three layouts, default schema, plugin name,
    // connection attributes)
    let tail = if layout41 && rng.bool() {
        let al = *rng.pick(&[0usize, 1, 8, 20, 20, 32, 250, 251, 300]);
        let auth = rng.bytes(al);
        let db: &[u8] = *rng.pick(&[&b""[..], b"shop", b"d", b"my db", b"\xc3\xa9cole", b"information_schema"]);
        let plugin: &[u8] = *rng.pick(&[&b"mysql_native_password"[..], b"caching_sha2_password", b"", b"mysql_clear_password"]);
        let attrs: Vec<(&[u8], &[u8])> = match rng.below(3) {
            0 => vec![],
            1 => vec![(&b"_client_name"[..], &b"libmysql"[..]), (&b"_pid"[..], &b"4242"[..])],
            _ => vec![(&b"program_name"[..], &b"mysql"[..]), (&b"_os"[..], &b"Linux"[..]), (&b"k"[..], &b""[..])],
        };
        wire::handshake41_tail(caps, &auth, db, plugin, &attrs)
    } else {
        let tl = rng.below(40) as usize;
        rng.bytes(tl)
    };
    let ul = rng.range(0, 12) as usize;
    let user: Vec<u8> = rng.ascii(ul).into_iter().filter(|b| *b != 0).collect();
    let hs = if layout41 { wire::handshake41(caps, rng.next() as u32, rng.below(256) as u8, &user, &tail) } else { wire::handshake320((caps as u16) & !(wire::CLIENT_PROTOCOL_41 as u16), rng.next() as u32 & 0xFF_FFFF, &user, &tail) };
    (hs, format!("{} caps={}", if layout41 { "4.1" } else { "3.20" }, cc))
}

/// A case whose transport and connection phase are varied at random in every dimension that must
/// not matter for what the commands are answered with: short writes of many sizes, the handshake
/// layout and capabilities, the read schedule, the entry point. (Properties about values, metadata,
/// counts or errors are quantified "in all command sequences / over every transport".)
pub fn varied_case(rng: &mut Rng, cmds: Vec<Cmd>, scripts: Vec<Script>) -> Case {
    let mut case = Case::new(cmds, scripts);
    vary_transport(rng, &mut case);
    case
}

/// See `varied_case`; for a case that already exists (fields it sets are overwritten).
pub fn vary_transport(rng: &mut Rng, case: &mut Case) {
    let mut r = Rng::for_case(rng.next(), "vary", 0);
    // now and then the connection before this one on the same thread was the heavy one (see
    // `Case::heavy_predecessor`); left to the predecessors' own choice it is too rare to rely on
    if r.chance(1, 120) {
        case.heavy_predecessor = true;
    }
    if r.bool() {
        case.write_limit = *r.pick(&[65_536usize, 16_384, 4096, 1000, 100, 7, 1]);
    }
    if r.bool() {
        case.handshake = random_handshake(&mut r).0;
    }
    case.via_run_on_stream = r.chance(1, 5);
    // request sequence ids are the client's choice
    if r.chance(1, 4) {
        for c in case.cmds.iter_mut() {
            c.seq = match r.below(3) {
                0 => 255 - r.below(3) as u8,
                _ => r.below(256) as u8,
            };
        }
    }
    // an eighth of the cases talk in lock-step while another thread of the process serves another
    // connection in the middle of this one (behind the handshake or between two of the commands)
    if r.chance(1, 8) {
        case.arrival = Arrival::Pipelined(1);
        case.interloper_at = Some((2 + r.below(case.cmds.len() as u64 + 1), r.next()));
    }
    // every eighth case travels over a TLS upgrade (its own handshake; not under Miri: native crypto)
    let tls_one_in = if THOROUGH.load(std::sync::atomic::Ordering::Relaxed) { 100 } else { 8 };
    case.over_tls = !cfg!(miri) && r.chance(1, tls_one_in) && case.tls.is_none() && case.fault.err_at.is_none() && case.fault.eof_after.is_none();
    if r.chance(1, 3) {
        let (input, _) = case.input();
        if input.len() < 100_000 {
            let sk = *r.pick(&[SchedKind::Random, SchedKind::HeaderCuts, SchedKind::RandomCuts, SchedKind::Fixed]);
            case.sched = make_sched(&mut r, sk, &input);
        }
    }
}

/// COM_FIELD_LIST argument: table name, NUL, optional field wildcard (any LIKE pattern; also none,
/// no NUL at all, non-ASCII).
pub fn field_list_arg(rng: &mut Rng) -> Vec<u8> {
    let table: &[u8] = *rng.pick(&[&b"t"[..], b"t1", b"accounts", b"", "täble".as_bytes()]);
    let mut v = table.to_vec();
    if rng.chance(1, 8) {
        return v;
    }
    v.push(0);
    v.extend_from_slice(*rng.pick(&[&b""[..], b"", b"%", b"id%", b"x", b"not%", b"_", b"a_b%", b"%%", b"N%", b"\\%", b"id\0"]));
    v
}

/// Like `routing_violations` for a connection that ended early with an error: the callbacks seen
/// must be a prefix of the model's list (each one verbatim), nothing more is demanded.
pub fn routing_prefix_violations(obs: &Obs, conv: &Conv) -> Vec<(String, String)> {
    let mut out = Vec::new();
    let got: Vec<&Cb> = obs.log.cbs.iter().filter(|c| !matches!(c.kind, CbKind::Auth { .. })).collect();
    let mut gi = 0;
    for (ci, e) in conv.exp.iter().enumerate() {
        match e {
            Exp::Cb(cb) => {
                let Some(g) = got.get(gi) else { return out };
                if let Err((c, d)) = cb_matches(g, cb) {
                    out.push((c, format!("command #{}: {}", ci, d)));
                    return out;
                }
                gi += 1;
            }
            Exp::Builtin | Exp::Silent => {}
            Exp::Quit | Exp::ConnErr(_) => break,
        }
    }
    if got.len() > gi {
        out.push(("extra-callback".into(), format!("unexpected callback {}", cb_summary(got[gi]))));
    }
    out
}

fn exp_name(cb: &ExpCb) -> &'static str {
    match cb {
        ExpCb::Query(_) => "on_query",
        ExpCb::Prepare(_) => "on_prepare",
        ExpCb::Init(_) => "on_init",
        ExpCb::Execute { .. } => "on_execute",
        ExpCb::Close(_) => "on_close",
    }
}

// ------------------------------------------------------------------------------------------------
// parameter generators (client side)

pub const INT_TYPES: [u8; 6] = [wire::T_TINY, wire::T_SHORT, wire::T_YEAR, wire::T_INT24, wire::T_LONG, wire::T_LONGLONG];

pub fn int_range(typ: u8, unsigned: bool) -> (i128, i128) {
    let bits = 8 * wire::int_width(typ).unwrap() as u32;
    if unsigned {
        (0, (1i128 << bits) - 1)
    } else {
        (-(1i128 << (bits - 1)), (1i128 << (bits - 1)) - 1)
    }
}

pub fn gen_int_in(rng: &mut Rng, lo: i128, hi: i128) -> i128 {
    match rng.below(11) {
        8 | 9 | 10 => {
            // uniform in magnitude: a random bit length, then a random value of that length (so the
            // bands between two powers of two - 128..255, 32768..65535, 2^31..2^32-1 - are all met,
            // which a draw that is uniform over a 64-bit range never does)
            let k = rng.below(64) as u32;
            let m = (1i128 << k) + (((rng.next() as u128) % (1u128 << k)) as i128);
            let v = if rng.bool() { -m } else { m };
            v.max(lo).min(hi)
        }
        0 => lo,
        1 => hi,
        2 => 0.max(lo).min(hi),
        3 => (1i128).max(lo).min(hi),
        4 => (-1i128).max(lo).min(hi),
        5 => {
            // power of two +-1
            let k = rng.below(64) as u32;
            let v = (1i128 << k) + rng.range(0, 2) as i128 - 1;
            let v = if rng.bool() { -v } else { v };
            v.max(lo).min(hi)
        }
        _ => {
            let span = (hi - lo) as u128 + 1;
            let r = ((rng.next() as u128) << 64 | rng.next() as u128) % span;
            lo + r as i128
        }
    }
}

pub fn gen_bytes(rng: &mut Rng, max: usize) -> Vec<u8> {
    let n = match rng.below(10) {
        0 => 0,
        1 => 1,
        2 => 250,
        3 => 251,
        4 => 252,
        5 => rng.range(253, 600) as usize,
        _ => rng.range(0, 40) as usize,
    }
    .min(max);
    match rng.below(4) {
        0 => rng.bytes(n),
        1 => vec![*rng.pick(&[0u8, 0xFB, 0xFF, b'#', b'N']); n],
        _ => rng.ascii(n),
    }
}

pub fn gen_temporal(rng: &mut Rng, typ: u8) -> Vec<u8> {
    if typ == wire::T_TIME {
        let len = *rng.pick(&[0usize, 8, 12]);
        let mut b = Vec::new();
        if len >= 8 {
            b.push(0); // positive
            if rng.chance(1, 4) {
                // nothing but (possibly) a fraction
                b.extend_from_slice(&[0, 0, 0, 0, 0, 0, 0]);
            } else {
                b.extend_from_slice(&(rng.below(35) as u32).to_le_bytes());
                b.push(rng.below(24) as u8);
                b.push(rng.below(60) as u8);
                b.push(rng.below(60) as u8);
            }
        }
        if len == 12 {
            b.extend_from_slice(&(rng.range(1, 999_999) as u32).to_le_bytes());
        }
        b
    } else {
        let lens: &[usize] = if typ == wire::T_DATE { &[0, 4] } else { &[0, 4, 7, 11] };
        let len = *rng.pick(lens);
        let mut b = Vec::new();
        if len >= 4 {
            b.extend_from_slice(&(rng.range(1, 9999) as u16).to_le_bytes());
            b.push(rng.range(1, 12) as u8);
            b.push(rng.range(1, 28) as u8);
        }
        if len >= 7 {
            // midnight and the last second of the day as often as any other time: a time part of all
            // zeros with a fraction behind it is a moment like any other
            let (h, m, s) = match rng.below(4) {
                0 => (0u8, 0u8, 0u8),
                1 => (23, 59, 59),
                _ => (rng.below(24) as u8, rng.below(60) as u8, rng.below(60) as u8),
            };
            b.push(h);
            b.push(m);
            b.push(s);
        }
        if len == 11 {
            let us = match rng.below(4) {
                0 => 1u32,
                1 => 999_999,
                2 => 250_000,
                _ => rng.range(1, 999_999) as u32,
            };
            b.extend_from_slice(&us.to_le_bytes());
        }
        b
    }
}

/// All type codes msql-srv's parameter decoder supports.
pub fn param_types() -> Vec<u8> {
    let mut v = wire::STRINGISH.to_vec();
    v.extend_from_slice(&INT_TYPES);
    v.extend_from_slice(&[wire::T_FLOAT, wire::T_DOUBLE, wire::T_TIMESTAMP, wire::T_DATETIME, wire::T_DATE, wire::T_TIME]);
    // what clients bind an argument that is NULL as: a legal binding like any other (it has no value
    // bytes; a later rebind replaces it, a later reuse keeps it)
    v.push(wire::T_NULL);
    v
}

pub fn gen_param_of(rng: &mut Rng, typ: u8, unsigned: bool, null: bool) -> Param {
    let value = if null {
        None
    } else if typ == wire::T_NULL {
        // the NULL-bitmap bit set (what clients send) or clear: no bytes either way
        if rng.bool() {
            None
        } else {
            Some(PVal::Bytes(vec![]))
        }
    } else if wire::int_width(typ).is_some() {
        let (lo, hi) = int_range(typ, unsigned);
        Some(PVal::Int(gen_int_in(rng, lo, hi)))
    } else if typ == wire::T_FLOAT {
        // a parameter is four (eight) bytes of the client's: the infinities and (quiet) NaNs are
        // values like any other there
        Some(PVal::F32(if rng.chance(1, 8) { *rng.pick(&[0x7F80_0000u32, 0xFF80_0000, 0x7FC0_0000, 0xFFC0_0001]) } else { gen_f32_bits(rng) }))
    } else if typ == wire::T_DOUBLE {
        Some(PVal::F64(if rng.chance(1, 8) { *rng.pick(&[0x7FF0_0000_0000_0000u64, 0xFFF0_0000_0000_0000, 0x7FF8_0000_0000_0000, 0xFFF8_0000_0000_0001]) } else { gen_f64_bits(rng) }))
    } else if wire::is_stringish(typ) {
        Some(PVal::Bytes(gen_bytes(rng, 100_000)))
    } else {
        Some(PVal::Temporal(gen_temporal(rng, typ)))
    };
    Param { typ, unsigned, value, long: false }
}

pub fn gen_param(rng: &mut Rng) -> Param {
    let types = param_types();
    let typ = *rng.pick(&types);
    let unsigned = rng.bool();
    let null = rng.chance(1, 6);
    gen_param_of(rng, typ, unsigned, null)
}

pub fn gen_f32_bits(rng: &mut Rng) -> u32 {
    loop {
        let b = match rng.below(8) {
            0 => 0,
            1 => 0x8000_0000,
            2 => 1,                // smallest subnormal
            3 => 0x0080_0000,      // MIN_POSITIVE
            4 => 0x7F7F_FFFF,      // MAX
            5 => 0x3F80_0000,      // 1.0
            _ => rng.next() as u32,
        };
        if f32::from_bits(b).is_finite() {
            return b;
        }
    }
}
pub fn gen_f64_bits(rng: &mut Rng) -> u64 {
    loop {
        let b = match rng.below(8) {
            0 => 0,
            1 => 0x8000_0000_0000_0000,
            2 => 1,
            3 => 0x0010_0000_0000_0000,
            4 => 0x7FEF_FFFF_FFFF_FFFF,
            5 => 0x3FF0_0000_0000_0000,
            _ => rng.next(),
        };
        if f64::from_bits(b).is_finite() {
            return b;
        }
    }
}

/// What a backend declares for the parameters of a statement in its PREPARE reply. The declaration is
/// the backend's (a type and flags per parameter, often a guess); how an execution's parameters are
/// decoded is decided by the types the CLIENT binds. So the declarations vary - integer and other types,
/// UNSIGNED, ZEROFILL, NOT NULL, BINARY - and nothing the monitors compare may depend on them.
pub fn param_cols(n: usize) -> Vec<Column> {
    const TYPES: [ColumnType; 9] = [
        ColumnType::MYSQL_TYPE_VAR_STRING,
        ColumnType::MYSQL_TYPE_LONGLONG,
        ColumnType::MYSQL_TYPE_VAR_STRING,
        ColumnType::MYSQL_TYPE_LONG,
        ColumnType::MYSQL_TYPE_SHORT,
        ColumnType::MYSQL_TYPE_TINY,
        ColumnType::MYSQL_TYPE_DOUBLE,
        ColumnType::MYSQL_TYPE_BLOB,
        ColumnType::MYSQL_TYPE_DATETIME,
    ];
    (0..n)
        .map(|i| {
            let k = i + n * 3;
            let flags = match k % 7 {
                0 | 1 => ColumnFlags::empty(),
                2 => ColumnFlags::UNSIGNED_FLAG,
                3 => ColumnFlags::UNSIGNED_FLAG | ColumnFlags::ZEROFILL_FLAG,
                4 => ColumnFlags::NOT_NULL_FLAG,
                5 => ColumnFlags::BINARY_FLAG,
                _ => ColumnFlags::UNSIGNED_FLAG | ColumnFlags::NOT_NULL_FLAG,
            };
            Column { table: "t".into(), column: format!("p{}", i), coltype: TYPES[k % TYPES.len()], colflags: flags }
        })
        .collect()
}

/// Sequence-id check over the whole output (used by C05 and as a sanity layer elsewhere):
/// returns descriptions of packets whose id is not the expected one.
pub fn seq_violations(obs: &Obs, pkts: &[wire::Pkt], msgs: &[wire::Msg], d: &wire::Decoded) -> Vec<String> {
    let mut out = Vec::new();
    let mut ri = 0;
    for (j, k) in obs.kinds.iter().enumerate() {
        if !k.expects_reply() {
            continue;
        }
        let Some(&(m0, m1)) = d.spans.get(ri) else { break };
        ri += 1;
        let start = if j == 0 { 0u8 } else { obs.ends[j - 1].1.wrapping_add(1) };
        let p0 = msgs[m0].first;
        let p1 = msgs[m1 - 1].first + msgs[m1 - 1].npkts;
        for (n, p) in pkts[p0..p1].iter().enumerate() {
            let want = start.wrapping_add(n as u8);
            if p.seq != want {
                out.push(format!(
                    "exchange #{} ({:?}, request ended with id {}): response packet {} of {} carries id {}, expected {}",
                    j,
                    k,
                    if j == 0 { "none".to_string() } else { obs.ends[j - 1].1.to_string() },
                    n,
                    p1 - p0,
                    p.seq,
                    want
                ));
                break;
            }
        }
    }
    out
}

/// A client that asks for TLS (CLIENT_SSL in its first packet) from a server that offers none: the
/// bare 32-byte SSLRequest or a whole handshake response with the bit set, under any packet id, with
/// nothing, the start of a ClientHello or ordinary commands behind it, in one read or in pieces. The
/// shim of the case has no TLS configuration (and in the build without the library's `tls` feature
/// cannot have one). Returns the case and a label for the class counters.
pub fn ssl_refusal_case(rng: &mut Rng, i: u64) -> (Case, String) {
    let caps = match rng.below(3) {
        0 => 0x003f_a685 | 0x2000_0000,
        1 => rng.next() as u32 | wire::CLIENT_PROTOCOL_41,
        _ => 0xFFFF_FFFF,
    } | wire::CLIENT_SSL;
    let bare = i % 3 != 2;
    let hs = if bare {
        wire::ssl_request(caps, rng.next() as u32, rng.below(256) as u8)
    } else {
        let tail_len = rng.below(40) as usize;
        wire::handshake41(caps, 1 << 24, 0x21, b"secure", &rng.bytes(tail_len))
    };
    let behind = rng.below(4);
    let mut cmds = Vec::new();
    let mut scripts = Vec::new();
    let mut raw_tail = Vec::new();
    match behind {
        0 => {}
        1 => {
            // the first flight of a TLS client: a handshake record, version 3.1, a ClientHello
            let n = 40 + rng.below(300) as usize;
            raw_tail = vec![0x16, 0x03, 0x01, (n >> 8) as u8, n as u8, 0x01, 0x00, ((n - 4) >> 8) as u8, (n - 4) as u8, 0x03, 0x03];
            let keep = if rng.bool() { n - 6 } else { rng.below(n as u64 - 6) as usize };
            raw_tail.extend(rng.bytes(keep));
        }
        2 => {
            cmds.push(Cmd::ping());
            cmds.push(Cmd::query(b"SELECT 1"));
            scripts.push(Script::Q(QProg::completed(1, 0)));
        }
        _ => {
            let n = 1 + rng.below(12) as usize;
            raw_tail = rng.bytes(n);
        }
    }
    let mut case = Case::new(cmds, scripts);
    case.handshake = hs;
    case.hs_seq = match i % 4 {
        0 => 1,
        1 => [0u8, 2, 7, 127, 128, 200, 254, 255][(i / 4 % 8) as usize],
        _ => rng.below(256) as u8,
    };
    case.raw_tail = raw_tail;
    let (input, _) = case.input();
    let sk = match rng.below(5) {
        0 => SchedKind::OneByte,
        1 => SchedKind::HeaderCuts,
        2 => SchedKind::Random,
        3 => SchedKind::RandomCuts,
        _ => SchedKind::All,
    };
    case.sched = make_sched(rng, sk, &input);
    if behind == 0 && rng.bool() {
        case.arrival = Arrival::Pipelined(1);
    }
    let label = format!("tls requested, none offered: {} under id {}, behind it {}", if bare { "SSLRequest" } else { "whole response with the SSL bit" }, if case.hs_seq == 1 { "1".to_string() } else if case.hs_seq == 255 { "255".to_string() } else { "other".to_string() }, ["nothing", "a ClientHello (whole or cut)", "pipelined commands", "a few stray bytes"][behind as usize]);
    (case, label)
}

pub fn ssl_refusal_detail(case: &Case, o: &Obs, label: &str) -> J {
    let (input, _) = case.input();
    J::obj()
        .set("scenario", label)
        .set("first_packet_id", case.hs_seq)
        .set("client_bytes", hex(&input[..input.len().min(80)]))
        .set("client_bytes_total", input.len())
        .set("arrival", format!("{:?}", case.arrival))
        .set("server_bytes_flushed", o.world.visible.len()).set("server_bytes_written_but_never_flushed", o.world.pending.len())
        .set("outcome", o.outcome.describe())
}

/// What the server sends in reply to the raw part of an input (`Case::raw_tail`: packets the harness
/// appended without saying what they are - malformed, unknown, empty): whatever it is, each reply
/// starts one above the id of one of the tail's packets, in the tail's order, and runs on from there.
/// Returns (packets checked, first violation).
pub fn raw_tail_reply_ids(obs: &Obs, pkts: &[wire::Pkt], msgs: &[wire::Msg], dec: &wire::Decoded) -> (u64, Option<String>) {
    let (Some(&(tail_at, _)), Some(&(_, last_msg))) = (obs.ends.last(), dec.spans.last()) else { return (0, None) };
    if dec.spans.len() != obs.kinds.iter().filter(|k| k.expects_reply()).count() || tail_at >= obs.world.input.len() {
        return (0, None);
    }
    let (tp, _) = wire::packets_prefix(&obs.world.input[tail_at..]);
    let Some(m) = msgs.get(last_msg) else { return (0, None) };
    let mut j = 0;
    let mut prev: Option<u8> = None;
    let mut n = 0;
    for (k, p) in pkts[m.first..].iter().enumerate() {
        n += 1;
        if prev.map_or(false, |pv| p.seq == pv.wrapping_add(1)) {
            prev = Some(p.seq);
            continue;
        }
        let mut found = false;
        while j < tp.len() {
            let r = tp[j].seq;
            j += 1;
            if p.seq == r.wrapping_add(1) {
                found = true;
                break;
            }
        }
        if !found {
            return (n, Some(format!("packet #{} of what the server sent in reply to the raw part of the input carries id {}, which neither continues the packet before it nor is one above the id of any (remaining) request packet {:?}", k, p.seq, tp.iter().map(|p| p.seq).collect::<Vec<_>>())));
        }
        prev = Some(p.seq);
    }
    (n, None)
}
