//! C10 (statement-id lifecycle), C16 (bound types persist per statement), C17 (long data):
//! histories over several statements checked against the sequential reference model.
use super::c03::check_conformance;
use super::common::*;
use crate::core::*;
use crate::model::{Exp, ExpCb, MCmd};
use crate::shim::*;
use crate::util::*;
use crate::wire::{self, Kind, PVal, Param, MAXP};

fn sentinel_case(cv: &Conv) -> Case {
    // sentinel PING after every command up to the modelled end of the connection
    let mut cmds = Vec::new();
    for (c, e) in cv.cmds().into_iter().zip(cv.exp.iter()) {
        let ends = matches!(e, Exp::Quit | Exp::ConnErr(_));
        cmds.push(c);
        if !ends {
            cmds.push(Cmd::ping());
        }
    }
    let mut scripts = cv.scripts.clone();
    if cv.over() {
        // the connection has to be over: none of these may reach the shim or be answered
        cmds.push(Cmd::close(1));
        cmds.push(Cmd::prepare(b"after the end"));
        scripts.push(Script::PrepOk { id: 9, params: vec![], cols: vec![] });
        cmds.push(Cmd::query(b"after the end"));
        scripts.push(Script::Q(QProg::completed(0, 0)));
        cmds.push(Cmd::ping());
    }
    Case::new(cmds, scripts)
}

fn judge(prop: &'static str, obs: &Obs, cv: &Conv, rep: &mut Report, d: &dyn Fn() -> J, conformance: bool) {
    if harness_panic(obs, rep) {
        return;
    }
    let viols = routing_violations(obs, cv);
    for (sig, what) in &viols {
        let sig = if let Outcome::Panic { file, line, msg } = &obs.outcome { format!("{} {} via {}", prop, sig, panic_signature(file, *line, msg)) } else { format!("{} {}", prop, sig) };
        rep.violations.push(viol(prop, sig, what.clone(), d()));
    }
    if viols.is_empty() && conformance && !cv.over() {
        // "CLOSE / long data produce no reply": with sentinels any stray byte shifts the next reply
        check_conformance(prop, obs, &[], rep, d);
    }
}

// ------------------------------------------------------------------------------------------------
// C10

#[derive(Clone, Copy, Debug, PartialEq, Eq)]
enum A {
    P1,
    P2,
    Prej,
    E1,
    E2,
    L1,
    L2,
    C1,
    C2,
}
const ALPHA: [A; 9] = [A::P1, A::P2, A::Prej, A::E1, A::E2, A::L1, A::L2, A::C1, A::C2];

fn apply(cv: &mut Conv, a: A, uniq: &mut u64, live_params: &mut [Option<usize>; 3], p1_count: &mut usize, pend: &mut [bool; 3]) -> Exp {
    *uniq += 1;
    let u = *uniq;
    // a parameter supplied through long data carries no inline bytes
    let mk_params = |n: usize, u: u64, long0: bool| -> Vec<Param> {
        (0..n)
            .map(|i| {
                if i == 0 && long0 {
                    Param { typ: wire::T_BLOB, unsigned: false, value: None, long: true }
                } else {
                    Param { typ: wire::T_LONG, unsigned: false, value: Some(PVal::Int((u * 16 + i as u64) as i128)), long: false }
                }
            })
            .collect()
    };
    match a {
        A::P1 => {
            *p1_count += 1;
            let n = 1 + (*p1_count % 2);
            let e = cv.push(MCmd::Prepare(format!("p1-{}", u).into_bytes()), Some(Script::PrepOk { id: 1, params: param_cols(n), cols: vec![] }));
            live_params[1] = Some(n);
            pend[1] = false;
            e
        }
        A::P2 => {
            let e = cv.push(MCmd::Prepare(format!("p2-{}", u).into_bytes()), Some(Script::PrepOk { id: 2, params: param_cols(1), cols: vec![] }));
            live_params[2] = Some(1);
            pend[2] = false;
            e
        }
        A::Prej => cv.push(MCmd::Prepare(format!("rej-{}", u).into_bytes()), Some(Script::PrepErr(1064, b"rejected".to_vec()))),
        A::E1 | A::E2 => {
            let id = if a == A::E1 { 1 } else { 2 };
            let n = live_params[id as usize].unwrap_or(1);
            let long0 = pend[id as usize] && live_params[id as usize].is_some();
            pend[id as usize] = false;
            cv.push(MCmd::Execute { id, params: mk_params(n, u, long0), send_types: true }, Some(Script::Q(QProg::completed(u, 0))))
        }
        A::L1 | A::L2 => {
            let id = if a == A::L1 { 1 } else { 2 };
            if live_params[id as usize].is_some() {
                pend[id as usize] = true;
            }
            cv.push(MCmd::LongData { id, param: 0, data: format!("long-{}-", u).into_bytes() }, None)
        }
        A::C1 | A::C2 => {
            let id = if a == A::C1 { 1 } else { 2 };
            live_params[id as usize] = None;
            pend[id as usize] = false;
            cv.push(MCmd::Close(id), None)
        }
    }
}

fn enumerate(prefix: &mut Vec<A>, maxlen: usize, out: &mut Vec<Vec<A>>) {
    // replay the prefix to know whether it already ended
    let mut cv = Conv::default();
    let (mut u, mut lp, mut pc, mut pend) = (0u64, [None; 3], 0usize, [false; 3]);
    for &a in prefix.iter() {
        apply(&mut cv, a, &mut u, &mut lp, &mut pc, &mut pend);
    }
    if cv.over() || prefix.len() == maxlen {
        if !prefix.is_empty() {
            out.push(prefix.clone());
        }
        return;
    }
    for &a in &ALPHA {
        prefix.push(a);
        enumerate(prefix, maxlen, out);
        prefix.pop();
    }
}

pub fn run_c10(ctx: &Ctx) -> Report {
    let mut rep = Report::default();
    rep.rule = "cases = histories over {PREPARE id1 (alternating 2/1 params), PREPARE id2, PREPARE rejected, EXECUTE 1/2, LONG_DATA 1/2, CLOSE 1/2}; exhaustive up to the stated length (a history ends at its first illegal operation), plus random histories over 4 ids; sentinel PING after every command; a class is a distinct history; non-trivial = the full callback log and run_on's outcome were compared with the registry model".into();
    let maxlen = if ctx.miri { 2 } else if ctx.thorough { 6 } else { 5 };
    let mut hist = Vec::new();
    enumerate(&mut Vec::new(), maxlen, &mut hist);
    rep.notes.push(format!("exhaustive part: all {} histories of length <= {} over a 9-symbol alphabet", hist.len(), maxlen));
    let per = 64usize;
    let ncases = (hist.len() + per - 1) / per;
    let r = par_cases(ctx, "C10", "exhaustive", ncases as u64, |_rng, i, rep| {
        for h in hist.iter().skip(i as usize * per).take(per) {
            let mut cv = Conv::default();
            let (mut u, mut lp, mut pc, mut pend) = (0u64, [None; 3], 0usize, [false; 3]);
            for &a in h {
                let e = apply(&mut cv, a, &mut u, &mut lp, &mut pc, &mut pend);
                match (&e, a) {
                    (Exp::ConnErr(_), _) => rep.counters.inc("illegal_operations_expected_refused"),
                    (Exp::Cb(ExpCb::Close(_)), _) => rep.counters.inc("closes_expected"),
                    (Exp::Cb(ExpCb::Prepare(_)), A::P1) if pc > 1 => rep.counters.inc("re_prepares"),
                    _ => {}
                }
            }
            let case = sentinel_case(&cv);
            let obs = run_case(&case);
            rep.evaluations += 1;
            rep.counters.inc("distinct_histories");
            let d = || J::obj().set("history", format!("{:?}", h)).set("outcome", obs.outcome.describe());
            if rep.samples.is_empty() && h.len() == maxlen {
                rep.sample(d());
            }
            judge("C10", &obs, &cv, rep, &d, true);
        }
    });
    rep.merge(r);
    rep.exhaustive = false;
    for l in 1..=maxlen {
        rep.counters.class(format!("all histories of length {}", l));
    }

    // random longer histories over 4 ids with re-prepares that change the parameter count
    let n = if ctx.miri { 2 } else { ctx.n(3000, 150_000) };
    let r = par_cases(ctx, "C10", "random", n, |rng, i, rep| {
        let mut cv = Conv::default();
        let ids = [7u32, 0x0100_0007, 0xFFFF_FFFF, 0];
        let mut live: [Option<usize>; 4] = [None; 4];
        let mut pendl: [std::collections::BTreeSet<usize>; 4] = Default::default();
        let len = rng.range(1, 60);
        let mut shape = String::new();
        for step in 0..len {
            if cv.over() {
                break;
            }
            let k = rng.usize(4);
            let id = ids[k];
            // mostly-legal operations, with an occasional illegal one
            let legal = rng.chance(19, 20);
            let op = rng.below(10);
            match op {
                0..=2 => {
                    let n = rng.below(4) as usize;
                    if rng.chance(1, 6) {
                        cv.push(MCmd::Prepare(format!("r{}", step).into_bytes()), Some(Script::PrepErr(1064, b"no".to_vec())));
                        shape.push('r');
                    } else {
                        // (a statement's text is the backend's business, also when it reads like something
                        // the library answers itself for COM_QUERY)
                        let text = match rng.below(8) {
                            0 => b"SELECT @@max_allowed_packet".to_vec(),
                            1 => b"select @@session.x".to_vec(),
                            2 => b"USE db".to_vec(),
                            _ => format!("s{}", step).into_bytes(),
                        };
                        cv.push(MCmd::Prepare(text), Some(Script::PrepOk { id, params: param_cols(n), cols: vec![] }));
                        live[k] = Some(n);
                        pendl[k].clear();
                        shape.push('P');
                    }
                }
                3..=5 => {
                    if live[k].is_some() || !legal {
                        let n = live[k].unwrap_or(1);
                        let params: Vec<Param> = (0..n)
                            .map(|j| {
                                if live[k].is_some() && pendl[k].contains(&j) {
                                    Param { typ: wire::T_BLOB, unsigned: false, value: None, long: true }
                                } else {
                                    Param { typ: wire::T_LONGLONG, unsigned: false, value: Some(PVal::Int((step * 100 + j as u64) as i128)), long: false }
                                }
                            })
                            .collect();
                        pendl[k].clear();
                        // the backend may answer an execution with an error - also with one of the errors
                        // that are *about* prepared statements (unknown handler, needs re-prepare, too many
                        // statements, ...): that is an answer, not a CLOSE; the id stays usable until the
                        // client closes it
                        let answer = if live[k].is_some() && rng.chance(1, 6) {
                            let code = *rng.pick(&[1243u16, 1615, 1461, 1295, 1444, 1210, 1390, 1146, 1064, 1317]);
                            rep.counters.inc("executions_answered_with_an_error_about_statements_or_otherwise");
                            QProg { colsets: vec![], ops: vec![QOp::Error(code, b"from the backend".to_vec())], on_err: OnErr::Drop }
                        } else {
                            QProg::completed(step, 0)
                        };
                        cv.push(MCmd::Execute { id, params, send_types: true }, Some(Script::Q(answer)));
                        shape.push('E');
                    }
                }
                6..=7 => {
                    if live[k].is_some() || !legal {
                        let pi = rng.below(4) as usize;
                        if live[k].is_some() {
                            pendl[k].insert(pi);
                        }
                        cv.push(MCmd::LongData { id, param: pi as u16, data: format!("ld{}", step).into_bytes() }, None);
                        shape.push('L');
                    }
                }
                _ => {
                    live[k] = None;
                    pendl[k].clear();
                    cv.push(MCmd::Close(id), None);
                    shape.push('C');
                }
            }
        }
        if cv.m.is_empty() {
            return;
        }
        if cv.over() {
            rep.counters.inc("illegal_operations_expected_refused");
        }
        let case = sentinel_case(&cv);
        let obs = run_case(&case);
        rep.evaluations += 1;
        rep.counters.class(format!("random history {}", if shape.len() > 12 { format!("{}..({})", &shape[..12], shape.len()) } else { shape.clone() }));
        let d = || J::obj().set("history", shape.clone()).set("outcome", obs.outcome.describe());
        if i == 0 {
            rep.sample(d());
        }
        judge("C10", &obs, &cv, rep, &d, true);
    });
    rep.merge(r);

    // ---- commands the library does not know (COM_STMT_RESET, COM_STMT_FETCH, COM_RESET_CONNECTION,
    //      COM_SET_OPTION, COM_CHANGE_USER ... - a client may send them; the unchanged library ends the
    //      connection, a library that learns one of them goes on) in the middle of a statement history,
    //      addressed at live, closed and never-prepared ids. Whatever the library makes of the command
    //      itself, an id is usable from its PREPARE reply to its CLOSE and at no other time: an EXECUTE
    //      for an id that is dead by that rule never reaches the shim.
    let n = if ctx.miri { 2 } else { ctx.n(600, 20_000) };
    let r = par_cases(ctx, "C10", "foreign-commands", n, |rng, i, rep| {
        let ids = [3u32, 9, 0xFFFF_FFFF, 0, 0x0100_0003];
        let mut cmds = Vec::new();
        let mut scripts = Vec::new();
        let mut live = std::collections::BTreeSet::new();
        let mut expected_cbs = 1usize; // after_authentication
        // a legal prefix: prepares, executions of live ids, closes
        for step in 0..rng.range(1, 6) {
            let id = ids[rng.usize(ids.len())];
            match rng.below(3) {
                0 => {
                    cmds.push(Cmd::prepare(format!("s{}", step).as_bytes()));
                    scripts.push(Script::PrepOk { id, params: vec![], cols: vec![] });
                    live.insert(id);
                    expected_cbs += 1;
                }
                1 if live.contains(&id) => {
                    cmds.push(Cmd::execute_plain(id, &[], false));
                    scripts.push(Script::Q(QProg::completed(1, 0)));
                    expected_cbs += 1;
                }
                _ if live.contains(&id) => {
                    cmds.push(Cmd::close(id));
                    live.remove(&id);
                    expected_cbs += 1;
                }
                _ => {}
            }
        }
        let dead: Vec<u32> = ids.iter().copied().filter(|x| !live.contains(x)).collect();
        if dead.is_empty() {
            rep.counters.inc("foreign_command_cases_without_a_dead_id");
            return;
        }
        let target = if rng.chance(2, 3) { dead[rng.usize(dead.len())] } else { ids[rng.usize(ids.len())] };
        let (fname, mut payload): (&str, Vec<u8>) = match i % 7 {
            0 | 1 => ("COM_STMT_RESET", vec![0x1a]),
            2 => ("COM_STMT_FETCH", vec![0x1c]),
            3 => ("COM_RESET_CONNECTION", vec![0x1f]),
            4 => ("COM_SET_OPTION", vec![0x1b, 0x00, 0x00]),
            5 => ("COM_CHANGE_USER", vec![0x11, b'u', 0, 0, b'd', 0]),
            _ => ("COM_DEBUG", vec![0x0d]),
        };
        if matches!(payload[0], 0x1a | 0x1c) {
            payload.extend_from_slice(&target.to_le_bytes());
            if payload[0] == 0x1c {
                payload.extend_from_slice(&1u32.to_le_bytes());
            }
        }
        cmds.push(Cmd::new(Kind::Ping, payload));
        // behind it: the dead ids are used
        for _ in 0..rng.range(1, 3) {
            let id = dead[rng.usize(dead.len())];
            if rng.bool() {
                cmds.push(Cmd::long_data(id, 0, b"late"));
            }
            cmds.push(Cmd::execute_plain(id, &[], false));
            scripts.push(Script::Q(QProg::completed(2, 0)));
        }
        let mut case = Case::new(cmds, scripts);
        vary_transport(rng, &mut case);
        case.over_tls = false;
        let obs = run_case(&case);
        rep.evaluations += 1;
        rep.counters.class(format!("foreign command {} addressed at a {} id", fname, if live.contains(&target) { "live" } else { "dead" }));
        if harness_panic(&obs, rep) {
            return;
        }
        let d = || J::obj().set("commands", kinds_summary(&case.cmds)).set("foreign_command", fname).set("addressed_at", target).set("dead_ids", format!("{:?}", dead)).set("callbacks", obs.log.cbs.iter().map(|c| J::s(cb_summary(c))).collect::<Vec<_>>()).set("outcome", obs.outcome.describe());
        if i < 2 {
            rep.sample(d());
        }
        if let Outcome::Panic { file, line, msg } = &obs.outcome {
            rep.violations.push(viol("C10", format!("C10 {}", panic_signature(file, *line, msg)), format!("panic in a statement history with a command the library does not know: {}", obs.outcome.describe()), d()));
            return;
        }
        for c in obs.log.cbs.iter().skip(expected_cbs) {
            if let CbKind::Execute { id, .. } = &c.kind {
                if dead.contains(id) {
                    rep.violations.push(viol("C10", "C10 dead-id-executed".into(), format!("on_execute({}) reached the shim although that id was {} when the EXECUTE arrived (behind a {})", id, if ids.contains(id) { "closed or never prepared" } else { "unknown" }, fname), d()));
                    return;
                }
            }
        }
        if obs.outcome.is_err() {
            rep.counters.inc("foreign_command_histories_ended_with_an_error");
        } else {
            rep.counters.inc("foreign_command_histories_that_went_on");
        }
    });
    rep.merge(r);

    // ---- many statements open at once (50-600, ids anywhere in the 32-bit range incl. its edges),
    //      closed, re-prepared and executed in random order: the registry must behave like a map
    //      however full it is and in whatever order entries leave it
    if !ctx.miri {
        let n = ctx.n(60, 2000);
        let r = par_cases(ctx, "C10", "many-statements", n, |rng, i, rep| {
            let mut cv = Conv::default();
            let nst = rng.range(50, 600) as usize;
            let mut ids: Vec<u32> = Vec::new();
            let mut seen = std::collections::BTreeSet::new();
            for e in [0u32, 1, u32::MAX, u32::MAX - 1, 0x8000_0000] {
                if rng.bool() && seen.insert(e) {
                    ids.push(e);
                }
            }
            while ids.len() < nst {
                // dense runs and scattered ids
                let id = if rng.bool() { rng.below(2000) as u32 } else { rng.next() as u32 };
                if seen.insert(id) {
                    ids.push(id);
                }
            }
            let mut live: std::collections::BTreeMap<u32, usize> = std::collections::BTreeMap::new();
            for (k, &id) in ids.iter().enumerate() {
                let np = k % 3;
                cv.push(MCmd::Prepare(format!("s{}", k).into_bytes()), Some(Script::PrepOk { id, params: param_cols(np), cols: vec![] }));
                live.insert(id, np);
            }
            let steps = rng.range(100, 1500);
            for step in 0..steps {
                if cv.over() {
                    break;
                }
                let id = ids[rng.usize(ids.len())];
                match rng.below(10) {
                    0..=3 => {
                        if let Some(&np) = live.get(&id) {
                            let params: Vec<Param> = (0..np).map(|j| Param { typ: wire::T_LONGLONG, unsigned: false, value: Some(PVal::Int((step * 10 + j as u64) as i128)), long: false }).collect();
                            cv.push(MCmd::Execute { id, params, send_types: true }, Some(Script::Q(QProg::completed(step, 0))));
                        }
                    }
                    4..=6 => {
                        live.remove(&id);
                        cv.push(MCmd::Close(id), None);
                    }
                    7 => {
                        let np = rng.below(3) as usize;
                        cv.push(MCmd::Prepare(format!("again{}", step).into_bytes()), Some(Script::PrepOk { id, params: param_cols(np), cols: vec![] }));
                        live.insert(id, np);
                    }
                    8 => {
                        if live.contains_key(&id) {
                            cv.push(MCmd::LongData { id, param: 7, data: b"x".to_vec() }, None);
                        }
                    }
                    _ => {
                        // now and then (rarely) an execute of a closed id: the connection must end there
                        if !live.contains_key(&id) && rng.chance(1, 40) {
                            cv.push(MCmd::Execute { id, params: vec![], send_types: false }, None);
                        }
                    }
                }
            }
            let mut case = cv.case();
            if rng.bool() {
                let (input, _) = case.input();
                case.sched = make_sched(rng, SchedKind::Random, &input);
            }
            let obs = run_case(&case);
            rep.evaluations += 1;
            rep.counters.class(format!("{} statements open at once, {} operations", len_class(nst), len_class(steps as usize)));
            rep.counters.inc("many_statement_histories");
            let d = || J::obj().set("statements_prepared", nst).set("operations", cv.m.len()).set("outcome", obs.outcome.describe());
            if i == 0 {
                rep.sample(d());
            }
            judge("C10", &obs, &cv, rep, &d, false);
        });
        rep.merge(r);
    }
    rep.merge(super::mega::run(ctx, "C10", 1500, 60000));
    if ctx.strict() {
        rep.require("illegal_operations_expected_refused", 10);
        rep.require("closes_expected", 10);
        rep.require("re_prepares", 10);
    }
    rep
}

// ------------------------------------------------------------------------------------------------
// C16

/// Values whose decoding changes visibly under a one-byte shift or under another type.
fn telling_param(rng: &mut Rng, typ: u8, unsigned: bool) -> Param {
    let mut p = gen_param_of(rng, typ, unsigned, false);
    if let Some(PVal::Int(v)) = &mut p.value {
        // all bytes distinct and non-zero where the width allows
        let w = wire::int_width(typ).unwrap();
        let mut x: u64 = 0;
        for i in 0..w {
            x |= ((0x11 * (i as u64 + 1) + rng.below(8)) & 0x7f) << (8 * i);
        }
        // half of the values have the top bit set: signed and unsigned decoding then differ
        let top = rng.bool();
        if top {
            x |= 0x80 << (8 * (w - 1));
        }
        *v = if unsigned || !top {
            x as i128
        } else {
            // the same bit pattern, as the negative number a signed column holds
            let shift = 64 - 8 * w as u32;
            (((x << shift) as i64) >> shift) as i128
        };
    }
    if let Some(PVal::Bytes(b)) = &mut p.value {
        if b.is_empty() {
            *b = b"x".to_vec();
        }
    }
    p
}

pub fn run_c16(ctx: &Ctx) -> Report {
    let mut rep = Report::default();
    rep.rule = "cases = histories of executions over 3 statements with different parameter counts; every execution independently rebinds (fresh random types, new-params-bound=1) or reuses (flag 0; values encoded by the client according to the model's types for that statement); a class is a (statement, rebind/reuse pattern) shape; non-trivial = at least one reuse execution's parameters were compared".into();
    let n = if ctx.miri { 3 } else { ctx.n(6000, 300_000) };
    let r = par_cases(ctx, "C16", "hist", n, |rng, i, rep| {
        let mut cv = Conv::default();
        // half of the histories use statements with EQUAL parameter counts: foreign types then fit
        let counts = if rng.bool() { let c = 1 + rng.below(3) as usize; [c, c, c] } else { [1usize, 2 + rng.below(3) as usize, 9 + rng.below(9) as usize] };
        let ids: [u32; 3] = if rng.chance(1, 4) {
            let mut pool = vec![0u32, 1, u32::MAX, u32::MAX - 1, 0x8000_0000, 0x7FFF_FFFF];
            let a = pool.remove(rng.usize(pool.len()));
            let b = pool.remove(rng.usize(pool.len()));
            let c = pool.remove(rng.usize(pool.len()));
            [a, b, c]
        } else {
            [11u32, 12, 13]
        };
        let mut bound: [Option<Vec<(u8, bool)>>; 3] = [None, None, None];
        for k in 0..3 {
            cv.push(MCmd::Prepare(format!("st{}", k).into_bytes()), Some(Script::PrepOk { id: ids[k], params: param_cols(counts[k]), cols: vec![] }));
        }
        let types = param_types();
        let nexec = if ctx.miri { 4 } else { rng.range(2, 14) };
        let mut pattern = String::new();
        let mut closed = [false; 3];
        for _ in 0..nexec {
            let k = rng.usize(3);
            // now and then a statement is closed (the others stay open and keep their types); it is
            // prepared again before its next use
            if !closed[k] && rng.chance(1, 10) {
                cv.push(MCmd::Close(ids[k]), None);
                closed[k] = true;
                bound[k] = None;
                pattern.push_str(&format!("{}C ", k));
                rep.counters.inc("closes_between_executions");
                continue;
            }
            // occasionally re-prepare: the first execution afterwards must rebind
            if closed[k] || rng.chance(1, 12) {
                closed[k] = false;
                cv.push(MCmd::Prepare(b"again".to_vec()), Some(Script::PrepOk { id: ids[k], params: param_cols(counts[k]), cols: vec![] }));
                bound[k] = None;
                pattern.push_str(&format!("{}P ", k));
            }
            let rebind = bound[k].is_none() || rng.bool();
            let tys: Vec<(u8, bool)> = if !rebind {
                bound[k].clone().unwrap()
            } else if bound[k].is_some() && rng.chance(1, 3) {
                // a rebind that keeps every type code and only flips signedness flags
                rep.counters.inc("flag_only_rebinds");
                bound[k].clone().unwrap().into_iter().map(|(t, u)| if rng.bool() { (t, !u) } else { (t, u) }).collect()
            } else if rng.chance(1, 4) {
                // integer-only parameter lists make flag flips observable
                (0..counts[k]).map(|_| (*rng.pick(&INT_TYPES), rng.bool())).collect()
            } else {
                (0..counts[k]).map(|_| (*rng.pick(&types), rng.bool())).collect()
            };
            let mut params: Vec<Param> = tys
                .iter()
                .map(|&(t, u)| {
                    if rng.chance(1, 8) {
                        Param { typ: t, unsigned: u, value: None, long: false }
                    } else {
                        telling_param(rng, t, u)
                    }
                })
                .collect();
            // now and then one parameter is streamed with COM_STMT_SEND_LONG_DATA first: consuming it
            // must not disturb the statement's bound types
            if rng.chance(1, 5) {
                let pi = rng.usize(counts[k]);
                let data = format!("long-{}-{}", k, rng.below(1000)).into_bytes();
                cv.push(MCmd::LongData { id: ids[k], param: pi as u16, data }, None);
                params[pi].value = None;
                params[pi].long = true;
                rep.counters.inc("executions_with_long_data");
                pattern.push_str(&format!("{}L ", k));
            }
            if rebind {
                bound[k] = Some(tys);
                rep.counters.inc("rebind_executions");
                pattern.push_str(&format!("{}B ", k));
            } else {
                rep.counters.inc("reuse_executions");
                pattern.push_str(&format!("{}r ", k));
            }
            // a backend need not look at every parameter every time: now and then this execution's
            // callback drops the parser unused, only counts the items, or takes just the first one.
            // What the statement remembers for later executions must not depend on that.
            let script = if rng.chance(1, 5) {
                let m = rng.below(8) as u8;
                rep.counters.inc("executions_whose_parameters_were_not_all_read");
                pattern.push_str(["(ignored) ", "(counted) ", "(first) ", "(nth 1) ", "(skip 1) ", "(step_by 2) ", "(last) ", "(nth 2, then the rest) "][m as usize]);
                Some(Script::Q(QProg { colsets: vec![], ops: vec![QOp::Params(m), QOp::Completed(0, 0)], on_err: OnErr::Drop }))
            } else {
                None
            };
            cv.push(MCmd::Execute { id: ids[k], params, send_types: rebind }, script);
        }
        let distinct_stmts = pattern.split(' ').filter(|s| !s.is_empty()).map(|s| s.as_bytes()[0]).collect::<std::collections::BTreeSet<_>>().len();
        if distinct_stmts > 1 {
            rep.counters.inc("histories_interleaving_statements");
        }
        let mut case = cv.case();
        vary_transport(rng, &mut case);
        let obs = run_case(&case);
        rep.evaluations += 1;
        let pshape: String = pattern.split(' ').filter(|s| !s.is_empty()).map(|s| &s[1..]).collect::<Vec<_>>().join("");
        rep.counters.class(format!("pattern {}", if pshape.len() > 10 { &pshape[..10] } else { &pshape }));
        let d = || J::obj().set("param_counts", counts.iter().map(|&c| J::from(c)).collect::<Vec<_>>()).set("history (stmt + B=rebind r=reuse P=re-prepare)", pattern.clone()).set("outcome", obs.outcome.describe());
        if i == 0 {
            rep.sample(d());
        }
        judge("C16", &obs, &cv, rep, &d, false);
    });
    rep.merge(r);
    // ---- a COM_STMT_RESET (a command the unchanged library does not know and ends the connection on)
    //      between an execution that binds types and one that reuses them. If the library goes on after
    //      the RESET, the reuse execution is still decoded with the types bound before: a reset is
    //      not an execution, and "the most recent execution that carried types" is still the same one
    let n = if ctx.miri { 2 } else { ctx.n(400, 10_000) };
    let r = par_cases(ctx, "C16", "reset-between-bind-and-reuse", n, |rng, i, rep| {
        let id = *rng.pick(&[1u32, 7, 0x0100_0001, u32::MAX]);
        let big = (1u64 << 63) + rng.below(1000);
        let small = -(rng.range(1, 30000) as i64);
        let mk = |a: u64, b: i64| vec![Param { typ: wire::T_LONGLONG, unsigned: true, value: Some(PVal::Int(a as i128)), long: false }, Param { typ: wire::T_SHORT, unsigned: false, value: Some(PVal::Int(b as i128)), long: false }];
        let (big2, small2) = (big + 1, small - 1);
        let foreign: Vec<u8> = match i % 3 {
            0 | 1 => [&[0x1au8][..], &id.to_le_bytes()[..]].concat(),
            _ => vec![0x1f],
        };
        let cmds = vec![Cmd::prepare(b"p"), Cmd::execute_plain(id, &mk(big, small), true), Cmd::new(Kind::Ping, foreign.clone()), Cmd::execute_plain(id, &mk(big2, small2), false), Cmd::ping()];
        let scripts = vec![Script::PrepOk { id, params: param_cols(2), cols: vec![] }, Script::Q(QProg::completed(1, 0)), Script::Q(QProg::completed(2, 0))];
        let mut case = Case::new(cmds, scripts);
        if rng.bool() {
            case.arrival = Arrival::Pipelined(1);
        }
        let obs = run_case(&case);
        rep.evaluations += 1;
        rep.counters.class(format!("{} between bind and reuse", if foreign[0] == 0x1a { "COM_STMT_RESET" } else { "COM_RESET_CONNECTION" }));
        if harness_panic(&obs, rep) {
            return;
        }
        let d = || J::obj().set("statement", id).set("between", hex(&foreign)).set("callbacks", obs.log.cbs.iter().map(|c| J::s(cb_summary(c))).collect::<Vec<_>>()).set("outcome", obs.outcome.describe());
        if i < 2 {
            rep.sample(d());
        }
        if let Outcome::Panic { file, line, msg } = &obs.outcome {
            rep.violations.push(viol("C16", format!("C16 {}", panic_signature(file, *line, msg)), format!("panic in a history with a reset between bind and reuse: {}", obs.outcome.describe()), d()));
            return;
        }
        // greeting, auth OK, PREPARE reply (OK, 2 parameter definitions, EOF), OK of the first execution
        let out = obs.output();
        let (pkts, _) = wire::packets_prefix(&out);
        let execs: Vec<&Cb> = obs.log.cbs.iter().filter(|c| matches!(c.kind, CbKind::Execute { .. })).collect();
        if pkts.len() <= 7 && execs.len() <= 1 {
            rep.counters.inc("resets_that_ended_the_connection");
            return;
        }
        if foreign[0] != 0x1a {
            // a connection reset is entitled to forget everything
            rep.counters.inc("connection_resets_answered_not_judged");
            return;
        }
        // the library answered the reset and went on: the reuse execution is owed its decoding
        let Some(second) = execs.get(1) else {
            rep.violations.push(viol("C16", "C16 reuse-after-reset-not-decoded".into(), format!("the server went on after COM_STMT_RESET ({} packets sent), but the execution that reuses the types bound before never reached the shim; outcome {}", pkts.len(), obs.outcome.describe()), d()));
            return;
        };
        if let CbKind::Execute { params, .. } = &second.kind {
            let ok = params.len() == 2 && params[0].coltype == wire::T_LONGLONG && params[0].inner == Inner::UInt(big2) && params[1].coltype == wire::T_SHORT && params[1].inner == Inner::Int(small2);
            if !ok {
                rep.violations.push(viol("C16", "C16 param-value".into(), format!("after COM_STMT_RESET the reuse execution was decoded as {:?}, the client sent (LONGLONG unsigned {}, SHORT {}) under the types bound before", params.iter().map(|p| format!("{:#04x} {}", p.coltype, show_inner(&p.inner))).collect::<Vec<_>>(), big2, small2), d()));
                return;
            }
        }
        rep.counters.inc("reuse_after_reset_decoded_with_the_earlier_types");
    });
    rep.merge(r);

    // ---- a statement that has never bound types is executed with new-params-bound = 0, after another
    //      statement (same number of parameters; closed, still open, or the same id prepared again) did
    //      bind types on this connection: there is nothing this execution's values could be decoded
    //      with - types persist per statement, not per connection - so whatever the server does (an
    //      error reply, an error return), no execution with parameters reaches the backend
    let n = if ctx.miri { 2 } else { ctx.n(600, 20_000) };
    let r = par_cases(ctx, "C16", "never-bound", n, |rng, i, rep| {
        let np = rng.range(1, 4) as usize;
        let ida = *rng.pick(&[1u32, 2, 7, u32::MAX]);
        let types = param_types();
        let tys: Vec<(u8, bool)> = (0..np).map(|_| (*rng.pick(&types), rng.bool())).collect();
        let params: Vec<Param> = tys.iter().map(|&(t, u)| telling_param(rng, t, u)).collect();
        // (the shim takes one script per callback, in callback order)
        let mut cmds = vec![Cmd::prepare(b"a"), Cmd::execute(ida, &params, true)];
        let mut scripts = vec![Script::PrepOk { id: ida, params: param_cols(np), cols: vec![] }, Script::Q(QProg::completed(1, 0))];
        if rng.bool() {
            let params2: Vec<Param> = tys.iter().map(|&(t, u)| telling_param(rng, t, u)).collect();
            cmds.push(Cmd::execute(ida, &params2, false));
            scripts.push(Script::Q(QProg::completed(2, 0)));
        }
        let how = rng.below(3);
        let idb = match how {
            0 => {
                cmds.push(Cmd::close(ida));
                if rng.bool() { ida } else { ida.wrapping_add(1) }
            }
            1 => ida.wrapping_add(1), // A stays open
            _ => ida,                 // the same id is prepared again without a close
        };
        cmds.push(Cmd::prepare(b"b"));
        scripts.push(Script::PrepOk { id: idb, params: param_cols(np), cols: vec![] });
        let at = cmds.len();
        // values laid out as if the first statement's types applied
        let params3: Vec<Param> = tys.iter().map(|&(t, u)| telling_param(rng, t, u)).collect();
        cmds.push(Cmd::execute(idb, &params3, false));
        scripts.push(Script::Q(QProg::completed(3, 0)));
        cmds.push(Cmd::ping());
        let mut case = Case::new(cmds, scripts);
        vary_transport(rng, &mut case);
        let obs = run_case(&case);
        rep.evaluations += 1;
        if harness_panic(&obs, rep) {
            return;
        }
        let hown = ["closed", "left open", "re-prepared under the same id"][how as usize];
        rep.counters.class(format!("never-bound: {} parameters, first statement {}", np, hown));
        let d = || J::obj().set("parameters", np).set("first_statement", hown).set("same_id", ida == idb).set("outcome", obs.outcome.describe());
        if i == 0 {
            rep.sample(d());
        }
        if let Outcome::Panic { file, line, msg } = &obs.outcome {
            rep.violations.push(viol("C16", format!("C16 {}", panic_signature(file, *line, msg)), format!("an execution that omits the types of a statement that never bound any made run_on panic: {}", obs.outcome.describe()), d()));
            return;
        }
        // callbacks in order: prepare a, execute(s) of a, [close], prepare b, then nothing with parameters
        let mut seen_b = false;
        let mut prepares = 0;
        for cb in obs.log.cbs.iter() {
            match &cb.kind {
                CbKind::Prepare(_) => {
                    prepares += 1;
                    if prepares == 2 {
                        seen_b = true;
                    }
                }
                CbKind::Execute { id, params } if seen_b => {
                    rep.violations.push(viol(
                        "C16",
                        "C16 types-from-another-statement".into(),
                        format!("statement {} never bound parameter types, yet its execution (new-params-bound = 0) reached the backend with {} parameters decoded as {:?}: types bound by another statement of the connection", id, params.len(), params.iter().map(|p| p.coltype).collect::<Vec<_>>()),
                        d(),
                    ));
                    return;
                }
                _ => {}
            }
        }
        let _ = at;
        rep.counters.inc("never_bound_executions_refused");
    });
    rep.merge(r);
    if ctx.strict() {
        rep.require("never_bound_executions_refused", 100);
    }
    rep.merge(super::mega::run(ctx, "C16", 1500, 60000));
    if ctx.strict() {
        rep.require("reuse_executions", 100);
        rep.require("rebind_executions", 100);
        rep.require("histories_interleaving_statements", 100);
        rep.require("flag_only_rebinds", 100);
        rep.require("executions_with_long_data", 100);
    }
    rep
}

// ------------------------------------------------------------------------------------------------
// C17

pub fn run_c17(ctx: &Ctx) -> Report {
    let mut rep = Report::default();
    rep.rule = "cases = interleavings of COM_STMT_SEND_LONG_DATA chunks (sizes 0, 1, random, one multi-packet chunk in the large group) over 3 statements x 4 parameter indexes with executions (also two executions in a row, indexes beyond the parameter count); a class is a (chunks-per-parameter, interleaving) shape; non-trivial = at least one long-data parameter was delivered and compared".into();
    let n = if ctx.miri { 3 } else { ctx.n(6000, 300_000) };
    let r = par_cases(ctx, "C17", "hist", n, |rng, i, rep| {
        let mut cv = Conv::default();
        let counts = [1usize, 3, 4];
        // statement ids are the shim's choice: small ones, or the edges of the 32-bit range in any
        // order of preparation (an id must never be mistaken for "the last one" or "none")
        let ids: [u32; 3] = if rng.chance(1, 3) {
            let mut pool = vec![0u32, 1, u32::MAX, u32::MAX - 1, 0x8000_0000, 0x7FFF_FFFF, 0x0100_0000, 0xFFFF];
            let a = pool.remove(rng.usize(pool.len()));
            let b = pool.remove(rng.usize(pool.len()));
            let c = pool.remove(rng.usize(pool.len()));
            rep.counters.inc("histories_with_edge_statement_ids");
            [a, b, c]
        } else {
            [21u32, 22, 23]
        };
        for k in 0..3 {
            cv.push(MCmd::Prepare(format!("st{}", k).into_bytes()), Some(Script::PrepOk { id: ids[k], params: param_cols(counts[k]), cols: vec![] }));
        }
        // pending[k] = set of indexes with long data since the last execute of statement k
        let mut pending: [std::collections::BTreeMap<u16, usize>; 3] = Default::default();
        let steps = if ctx.miri { 5 } else { rng.range(2, 25) };
        let mut shape = String::new();
        let mut uniq = 0u64;
        for _ in 0..steps {
            let k = rng.usize(3);
            // other traffic between the chunks and the execution they belong to: none of it touches
            // what has been accumulated
            if rng.chance(1, 6) {
                match rng.below(6) {
                    0 | 1 => {
                        cv.push(MCmd::Ping, None);
                        shape.push_str("ping ");
                    }
                    2 => {
                        cv.push(MCmd::Query(b"select 1".to_vec()), None);
                        shape.push_str("query ");
                    }
                    3 => {
                        cv.push(MCmd::Query(b"SELECT @@max_allowed_packet".to_vec()), None);
                        shape.push_str("select@@ ");
                    }
                    4 => {
                        cv.push(MCmd::FieldList(field_list_arg(rng)), None);
                        shape.push_str("fieldlist ");
                    }
                    _ => {
                        cv.push(MCmd::Init(b"db".to_vec()), None);
                        shape.push_str("initdb ");
                    }
                }
                rep.counters.inc("other_commands_between_chunks_and_execute");
                continue;
            }
            if rng.chance(3, 5) {
                // a chunk
                let idx = if rng.chance(1, 10) { counts[k] as u16 + rng.below(3) as u16 } else { rng.below(counts[k] as u64) as u16 };
                let len = match rng.below(6) {
                    0 => 0,
                    1 => 1,
                    2 => rng.range(250, 260) as usize,
                    _ => rng.range(2, 5000) as usize,
                };
                uniq += 1;
                let mut data = Vec::new();
                stream_fill(&mut data, ctx.seed ^ i, uniq, len, false);
                cv.push(MCmd::LongData { id: ids[k], param: idx, data }, None);
                *pending[k].entry(idx).or_insert(0) += 1;
                rep.counters.inc("chunks_sent");
                shape.push_str(&format!("L{}.{} ", k, idx));
            } else {
                // an execution: long-data parameters carry no inline bytes, the others do
                let reps = if rng.chance(1, 4) { 2 } else { 1 };
                for rr in 0..reps {
                    let params: Vec<Param> = (0..counts[k])
                        .map(|j| {
                            let is_long = rr == 0 && pending[k].contains_key(&(j as u16));
                            if is_long {
                                let all = param_types();
                                Param { typ: *rng.pick(&all), unsigned: rng.bool(), value: None, long: true }
                            } else {
                                uniq += 1;
                                match rng.below(4) {
                                    0 => Param { typ: wire::T_BLOB, unsigned: false, value: None, long: false },
                                    1 => Param { typ: wire::T_LONG, unsigned: false, value: Some(PVal::Int(uniq as i128 * 3 + 1)), long: false },
                                    _ => Param { typ: wire::T_VAR_STRING, unsigned: false, value: Some(PVal::Bytes(format!("inline-{}", uniq).into_bytes())), long: false },
                                }
                            }
                        })
                        .collect();
                    let delivered = params.iter().filter(|p| p.long).count();
                    rep.counters.add("long_data_parameters_expected", delivered as u64);
                    if rr == 0 {
                        for (_, c) in pending[k].iter() {
                            rep.counters.class(format!("chunks per parameter: {}", match c { 1 => "1", 2 => "2", _ => "3+" }));
                        }
                    } else {
                        rep.counters.inc("second_execution_must_see_inline_values");
                    }
                    pending[k].clear();
                    // a backend may look at some of the parameters only (`nth`, `skip`, `step_by`, `last`,
                    // `nth` and then the rest): those it looks at are the ones at those positions,
                    // whichever of the others came as long data
                    let script = if rng.chance(1, 4) {
                        rep.counters.inc("executions_read_through_iterator_adaptors");
                        Some(Script::Q(QProg { colsets: vec![], ops: vec![QOp::Params(2 + rng.below(6) as u8), QOp::Completed(0, 0)], on_err: OnErr::Drop }))
                    } else {
                        None
                    };
                    cv.push(MCmd::Execute { id: ids[k], params, send_types: true }, script);
                    shape.push_str(&format!("E{} ", k));
                }
            }
        }
        let case = sentinel_case(&cv);
        let obs = run_case(&case);
        rep.evaluations += 1;
        let stm: std::collections::BTreeSet<u8> = shape.split(' ').filter(|s| s.len() > 1).map(|s| s.as_bytes()[1]).collect();
        rep.counters.class(format!("statements interleaved: {}", stm.len()));
        let d = || J::obj().set("history (Lk.i = chunk for stmt k param i, Ek = execute)", shape.clone()).set("outcome", obs.outcome.describe());
        if i == 0 {
            rep.sample(d());
        }
        judge("C17", &obs, &cv, rep, &d, true);
    });
    rep.merge(r);

    // one multi-packet chunk (>= 2^24-1 bytes) followed by a small one
    if !ctx.miri {
        let sizes: Vec<usize> = if ctx.thorough { vec![MAXP - 7, MAXP - 6, MAXP + 100, 2 * MAXP - 7] } else { vec![MAXP - 7] };
        let r = par_cases(ctx, "C17", "large", sizes.len() as u64, |_rng, i, rep| {
            let mut cv = Conv::default();
            cv.push(MCmd::Prepare(b"big".to_vec()), Some(Script::PrepOk { id: 5, params: param_cols(2), cols: vec![] }));
            let mut data = Vec::new();
            stream_fill(&mut data, ctx.seed, 900 + i, sizes[i as usize], false);
            cv.push(MCmd::LongData { id: 5, param: 1, data }, None);
            cv.push(MCmd::LongData { id: 5, param: 1, data: b"tail".to_vec() }, None);
            cv.push(
                MCmd::Execute { id: 5, params: vec![Param { typ: wire::T_LONG, unsigned: false, value: Some(PVal::Int(42)), long: false }, Param { typ: wire::T_BLOB, unsigned: false, value: None, long: true }], send_types: true },
                None,
            );
            let mut case = sentinel_case(&cv);
            case.sched = crate::transport::Sched { cuts: vec![], cycle: vec![1 << 20] };
            let obs = run_case(&case);
            rep.evaluations += 1;
            rep.counters.inc("multi_packet_chunks");
            rep.counters.add("long_data_parameters_expected", 1);
            rep.counters.class(format!("multi-packet chunk payload {}", len_class(sizes[i as usize] + 7)));
            let d = || J::obj().set("chunk_bytes", sizes[i as usize]).set("outcome", obs.outcome.describe());
            rep.sample(d());
            judge("C17", &obs, &cv, rep, &d, true);
        });
        rep.merge(r);
    }
    // statements with many parameters: long data for parameters far down the list (index 63, 64, 65,
    // 127, 128, the last one) and for no other, executed, and executed again with inline values;
    // sometimes a low and a high parameter together
    let n = if ctx.miri { 1 } else { ctx.n(400, 10_000) };
    let r = par_cases(ctx, "C17", "high-indexes", n, |rng, i, rep| {
        let np = *rng.pick(&[65usize, 66, 70, 129, 200, 300]);
        let mut cv = Conv::default();
        cv.push(MCmd::Prepare(b"wide".to_vec()), Some(Script::PrepOk { id: 3, params: param_cols(np), cols: vec![] }));
        let tys: Vec<(u8, bool)> = (0..np).map(|k| if k % 3 == 0 { (wire::T_LONG, false) } else { (wire::T_VAR_STRING, false) }).collect();
        let rounds = rng.range(2, 4);
        let mut shape = String::new();
        for round in 0..rounds {
            let mut longs: Vec<usize> = Vec::new();
            if round + 1 < rounds || rng.bool() {
                let any = rng.range(64, np as u64 - 1) as usize;
                let hi = *rng.pick(&[64usize, 65, 63, np - 1, 127.min(np - 1), 128.min(np - 1), any]);
                longs.push(hi);
                if rng.chance(1, 4) {
                    longs.push(rng.usize(64));
                }
            }
            for &pi in &longs {
                for c in 0..rng.range(1, 2) {
                    cv.push(MCmd::LongData { id: 3, param: pi as u16, data: format!("r{}-p{}-c{}/", round, pi, c).into_bytes() }, None);
                }
                shape.push_str(&format!("L{} ", pi));
            }
            let params: Vec<Param> = tys
                .iter()
                .enumerate()
                .map(|(k, &(t, u))| {
                    if longs.contains(&k) {
                        Param { typ: wire::T_VAR_STRING, unsigned: false, value: None, long: true }
                    } else if t == wire::T_LONG {
                        Param { typ: t, unsigned: u, value: Some(PVal::Int((round as i128) * 1000 + k as i128)), long: false }
                    } else {
                        Param { typ: t, unsigned: u, value: Some(PVal::Bytes(format!("inline-{}-{}", round, k).into_bytes())), long: false }
                    }
                })
                .collect();
            // (a parameter that travels as long data is bound as a string type in that execution)
            cv.push(MCmd::Execute { id: 3, params, send_types: true }, None);
            shape.push_str("E ");
        }
        let case = sentinel_case(&cv);
        let obs = run_case(&case);
        rep.evaluations += 1;
        rep.counters.class(format!("high parameter indexes: {} parameters", np));
        rep.counters.add("long_data_parameters_expected", 1);
        let d = || J::obj().set("parameters", np).set("history (Lk = long data for parameter k, E = execute)", shape.clone()).set("outcome", obs.outcome.describe());
        if i == 0 {
            rep.sample(d());
        }
        judge("C17", &obs, &cv, rep, &d, true);
    });
    rep.merge(r);

    // a statement with a long life: what one statement has received in total (bytes, chunks,
    // executions) must not matter - only what arrived since its last execution does.
    // (a) volume: 18 executions of 4 MiB each (72 MiB through one statement; thorough: 40 x 8 MiB)
    // (b) count: 70 000 executions with a few bytes of long data each (thorough: 140 000)
    if !ctx.miri {
        let r = par_cases(ctx, "C17", "long-life", 2, |_rng, i, rep| {
            let mut cv = Conv::default();
            cv.push(MCmd::Prepare(b"life".to_vec()), Some(Script::PrepOk { id: 9, params: param_cols(2), cols: vec![] }));
            let (execs, chunk, chunks_per) = match (i, ctx.thorough) {
                (0, false) => (18usize, 2 << 20, 2usize),
                (0, true) => (40, 4 << 20, 2),
                (_, false) => (70_000, 3, 1),
                (_, true) => (140_000, 3, 1),
            };
            for e in 0..execs {
                for c in 0..chunks_per {
                    let mut data = Vec::new();
                    stream_fill(&mut data, ctx.seed ^ 0x11fe, (e * 4 + c) as u64, chunk, false);
                    cv.push(MCmd::LongData { id: 9, param: 0, data }, None);
                }
                cv.push(
                    MCmd::Execute { id: 9, params: vec![Param { typ: wire::T_BLOB, unsigned: false, value: None, long: true }, Param { typ: wire::T_LONG, unsigned: false, value: Some(PVal::Int(e as i128)), long: false }], send_types: e == 0 || e % 7 == 3 },
                    None,
                );
            }
            let mut case = sentinel_case(&cv);
            case.sched = crate::transport::Sched { cuts: vec![], cycle: vec![1 << 20] };
            let obs = run_case(&case);
            rep.evaluations += 1;
            rep.counters.add("long_life_executions", execs as u64);
            rep.counters.add("long_life_bytes_through_one_statement", (execs * chunks_per * chunk) as u64);
            rep.counters.class(format!("long life: {} executions x {} chunks of {} bytes", execs, chunks_per, chunk));
            let d = || J::obj().set("executions", execs).set("chunk_bytes", chunk).set("chunks_per_execution", chunks_per).set("outcome", obs.outcome.describe());
            rep.sample(d());
            judge("C17", &obs, &cv, rep, &d, true);
        });
        rep.merge(r);
    }
    rep.merge(super::mega::run(ctx, "C17", 1500, 60000));
    if ctx.strict() {
        rep.require("chunks_sent", 100);
        rep.require("long_data_parameters_expected", 100);
        rep.require("second_execution_must_see_inline_values", 10);
    }
    let _ = Kind::Ping;
    rep
}
