//! C06 (text-protocol values) and C07 (binary rows + NULL bitmap).
use super::common::*;
use crate::core::*;
use crate::second;
use crate::shim::*;
use crate::util::*;
use crate::wire::{self, BinVal, Part, Resp, RowsEnd, MAXP};
use chrono::{Datelike, NaiveDate, NaiveDateTime, Timelike};
use msql_srv::{Column, ColumnFlags, ColumnType, ToMysqlValue};
use mysql_common::value::Value as MV;
use std::time::Duration;

// ------------------------------------------------------------------------------------------------
// semantic value of a written cell, and independent parsers of text cells

#[derive(Clone, Debug, PartialEq)]
pub enum Sem {
    Null,
    Int(i128),
    F32(u32),
    F64(u64),
    Bytes(Vec<u8>),
    Date(i32, u32, u32),
    DateTime(i32, u32, u32, u32, u32, u32, u32),
    /// total microseconds
    Time(u128),
}

pub fn sem_of(v: &V) -> Sem {
    match v {
        V::I8(x) => Sem::Int(*x as i128),
        V::U8(x) => Sem::Int(*x as i128),
        V::I16(x) => Sem::Int(*x as i128),
        V::U16(x) => Sem::Int(*x as i128),
        V::I32(x) => Sem::Int(*x as i128),
        V::U32(x) => Sem::Int(*x as i128),
        V::I64(x) => Sem::Int(*x as i128),
        V::U64(x) => Sem::Int(*x as i128),
        V::Isize(x) => Sem::Int(*x as i128),
        V::Usize(x) => Sem::Int(*x as i128),
        V::F32(x) => Sem::F32(x.to_bits()),
        V::F64(x) => Sem::F64(x.to_bits()),
        V::Str(s) => Sem::Bytes(s.as_bytes().to_vec()),
        V::Bytes(b) => Sem::Bytes(b.clone()),
        V::Stream(seed, id, len) => {
            let mut b = Vec::new();
            stream_fill(&mut b, *seed, *id, *len, false);
            Sem::Bytes(b)
        }
        V::Date(d) => Sem::Date(d.year(), d.month(), d.day()),
        V::DateTime(d) => Sem::DateTime(d.year(), d.month(), d.day(), d.hour(), d.minute(), d.second(), d.nanosecond() / 1000),
        V::Dur(d) => Sem::Time(d.as_micros()),
        V::Null => Sem::Null,
        V::Myc(m) => match m {
            MV::NULL => Sem::Null,
            MV::Bytes(b) => Sem::Bytes(b.clone()),
            MV::Int(i) => Sem::Int(*i as i128),
            MV::UInt(u) => Sem::Int(*u as i128),
            MV::Float(f) => Sem::F32(f.to_bits()),
            MV::Double(f) => Sem::F64(f.to_bits()),
            MV::Date(y, mo, d, h, mi, s, us) => Sem::DateTime(*y as i32, *mo as u32, *d as u32, *h as u32, *mi as u32, *s as u32, *us),
            MV::Time(_, d, h, m, s, us) => Sem::Time((((*d as u128 * 24 + *h as u128) * 60 + *m as u128) * 60 + *s as u128) * 1_000_000 + *us as u128),
        },
    }
}

fn digits(s: &[u8]) -> Option<u64> {
    if s.is_empty() || s.len() > 18 || !s.iter().all(|c| c.is_ascii_digit()) {
        return None;
    }
    Some(s.iter().fold(0u64, |a, c| a * 10 + (c - b'0') as u64))
}

fn parse_frac(s: &[u8]) -> Option<u32> {
    // ".ffffff" with 1..=6 digits -> microseconds
    if s.is_empty() {
        return Some(0);
    }
    if s[0] != b'.' || s.len() < 2 || s.len() > 7 {
        return None;
    }
    let d = digits(&s[1..])? as u32;
    Some(d * 10u32.pow(7 - s.len() as u32))
}

fn parse_date(s: &[u8]) -> Option<(i32, u32, u32)> {
    // YYYY-MM-DD (year at least 4 digits)
    let parts: Vec<&[u8]> = s.split(|&c| c == b'-').collect();
    if parts.len() != 3 || parts[0].len() < 4 || parts[1].len() != 2 || parts[2].len() != 2 {
        return None;
    }
    Some((digits(parts[0])? as i32, digits(parts[1])? as u32, digits(parts[2])? as u32))
}

fn parse_hms(s: &[u8]) -> Option<(u64, u32, u32, u32)> {
    // H+:MM:SS[.ffffff]
    let (main, frac) = match s.iter().position(|&c| c == b'.') {
        Some(i) => (&s[..i], &s[i..]),
        None => (s, &s[s.len()..]),
    };
    let parts: Vec<&[u8]> = main.split(|&c| c == b':').collect();
    if parts.len() != 3 || parts[0].len() < 2 || parts[1].len() != 2 || parts[2].len() != 2 {
        return None;
    }
    let (h, m, sec) = (digits(parts[0])?, digits(parts[1])? as u32, digits(parts[2])? as u32);
    if m > 59 || sec > 59 {
        return None;
    }
    Some((h, m, sec, parse_frac(frac)?))
}

/// Does this text cell denote the value that was written?
pub fn text_cell_matches(cell: &Option<Vec<u8>>, want: &Sem) -> bool {
    let Some(c) = cell else { return *want == Sem::Null };
    let txt = std::str::from_utf8(c).ok();
    match want {
        Sem::Null => false,
        Sem::Int(i) => txt.and_then(|t| t.parse::<i128>().ok()) == Some(*i),
        Sem::F32(b) => txt.and_then(|t| t.parse::<f32>().ok()).map(|f| f.to_bits()) == Some(*b),
        Sem::F64(b) => txt.and_then(|t| t.parse::<f64>().ok()).map(|f| f.to_bits()) == Some(*b),
        Sem::Bytes(b) => c == b,
        Sem::Date(y, m, d) => parse_date(c) == Some((*y, *m, *d)),
        Sem::DateTime(y, mo, d, h, mi, s, us) => {
            let Some(sp) = c.iter().position(|&x| x == b' ') else { return false };
            parse_date(&c[..sp]) == Some((*y, *mo, *d)) && parse_hms(&c[sp + 1..]) == Some((*h as u64, *mi, *s, *us)) && *h < 24
        }
        Sem::Time(total) => match parse_hms(c) {
            Some((h, m, s, us)) => ((h as u128 * 60 + m as u128) * 60 + s as u128) * 1_000_000 + us as u128 == *total,
            None => false,
        },
    }
}

/// Does this decoded binary value denote the value that was written (for the advertised column)?
pub fn bin_matches(got: &BinVal, want: &Sem, coltype: u8) -> bool {
    match (got, want) {
        (BinVal::Null, Sem::Null) => true,
        (BinVal::Int(a), Sem::Int(b)) => a == b,
        (BinVal::F32(a), Sem::F32(b)) => a == b,
        // f32 written into a DOUBLE column is widened
        (BinVal::F64(a), Sem::F32(b)) => *a == (f32::from_bits(*b) as f64).to_bits(),
        (BinVal::F64(a), Sem::F64(b)) => a == b,
        // an f64 written into a FLOAT column: exact only if the value survives the narrowing
        (BinVal::F32(a), Sem::F64(b)) => (f32::from_bits(*a) as f64).to_bits() == *b,
        (BinVal::Bytes(a), Sem::Bytes(b)) => a == b,
        (BinVal::Date { y, mo, d, h, mi, s, us, .. }, Sem::Date(wy, wm, wd)) => (*y as i32, *mo as u32, *d as u32, *h, *mi, *s, *us) == (*wy, *wm, *wd, 0, 0, 0, 0),
        (BinVal::Date { y, mo, d, h, mi, s, us, .. }, Sem::DateTime(wy, wmo, wd, wh, wmi, ws, wus)) => {
            let _ = coltype;
            (*y as i32, *mo as u32, *d as u32, *h as u32, *mi as u32, *s as u32, *us) == (*wy, *wmo, *wd, *wh, *wmi, *ws, *wus)
        }
        (BinVal::Time { neg, d, h, mi, s, us, .. }, Sem::Time(total)) => !*neg && (((*d as u128 * 24 + *h as u128) * 60 + *mi as u128) * 60 + *s as u128) * 1_000_000 + *us as u128 == *total,
        _ => false,
    }
}

// ------------------------------------------------------------------------------------------------
// value generators

fn gen_str(rng: &mut Rng) -> String {
    let pool: Vec<char> = "abc XYZ09'\"\\\n\t,;%_éßж数𝄞NULL".chars().collect();
    let n = match rng.below(8) {
        0 => 0,
        1 => 250,
        2 => 251,
        3 => 252,
        _ => rng.range(0, 30) as usize,
    };
    let mut s = String::new();
    while s.len() < n {
        let c = *rng.pick(&pool);
        if s.len() + c.len_utf8() <= n {
            s.push(c);
        } else {
            s.push('.');
        }
    }
    if rng.chance(1, 12) {
        s = "NULL".into();
    }
    s
}

fn gen_blob(rng: &mut Rng, allow_big: bool) -> Vec<u8> {
    let n = match rng.below(14) {
        0 => 0,
        1 => 1,
        2 => 250,
        3 => 251,
        4 => 252,
        5 if allow_big => 65_535,
        6 if allow_big => 65_536,
        7 if allow_big => 70_000,
        _ => rng.range(0, 64) as usize,
    };
    match rng.below(5) {
        0 => vec![0xFB; n],
        1 => vec![0xFF; n],
        2 => vec![0x00; n],
        3 => b"NULL".iter().cycle().take(n).copied().collect(),
        _ => rng.bytes(n),
    }
}

pub fn gen_date(rng: &mut Rng) -> NaiveDate {
    loop {
        let y = match rng.below(6) {
            0 => 0,
            1 => 9999,
            2 => 1,
            3 => rng.range(0, 999) as i32,
            _ => rng.range(1000, 9999) as i32,
        };
        let m = rng.range(1, 12) as u32;
        let d = match rng.below(4) {
            0 => 1,
            1 => 31,
            2 => 29,
            _ => rng.range(1, 31) as u32,
        };
        if let Some(x) = NaiveDate::from_ymd_opt(y, m, d) {
            return x;
        }
    }
}
pub fn gen_us(rng: &mut Rng) -> u32 {
    match rng.below(6) {
        0 | 1 => 0,
        2 => 1,
        3 => 999_999,
        4 => 100_000,
        _ => rng.below(1_000_000) as u32,
    }
}
pub fn gen_datetime(rng: &mut Rng) -> NaiveDateTime {
    let d = gen_date(rng);
    let (h, m, s) = match rng.below(4) {
        0 => (0, 0, 0),
        1 => (23, 59, 59),
        _ => (rng.below(24) as u32, rng.below(60) as u32, rng.below(60) as u32),
    };
    d.and_hms_micro_opt(h, m, s, gen_us(rng)).unwrap()
}
/// durations within MySQL's TIME range (< 839 hours; the binary encoder handles <= 34 days), microsecond precision
pub fn gen_dur(rng: &mut Rng) -> Duration {
    let secs = match rng.below(7) {
        0 => 0,
        1 => 59,
        2 => 3600 * 24,
        3 => 838 * 3600 + 59 * 60 + 59,
        4 => 34 * 86_400 + 23 * 3600,
        _ => rng.below(838 * 3600),
    };
    Duration::new(secs, gen_us(rng) * 1000)
}

pub fn gen_f32(rng: &mut Rng) -> f32 {
    f32::from_bits(gen_f32_bits(rng))
}
pub fn gen_f64(rng: &mut Rng) -> f64 {
    f64::from_bits(gen_f64_bits(rng))
}

fn edge_int(rng: &mut Rng, lo: i128, hi: i128) -> i128 {
    gen_int_in(rng, lo, hi)
}

/// A value of any supported Rust type (text mode accepts everything).
pub fn gen_any_value(rng: &mut Rng, allow_big: bool) -> V {
    match rng.below(22) {
        0 => V::I8(edge_int(rng, i8::MIN as i128, i8::MAX as i128) as i8),
        1 => V::U8(edge_int(rng, 0, u8::MAX as i128) as u8),
        2 => V::I16(edge_int(rng, i16::MIN as i128, i16::MAX as i128) as i16),
        3 => V::U16(edge_int(rng, 0, u16::MAX as i128) as u16),
        4 => V::I32(edge_int(rng, i32::MIN as i128, i32::MAX as i128) as i32),
        5 => V::U32(edge_int(rng, 0, u32::MAX as i128) as u32),
        6 => V::I64(edge_int(rng, i64::MIN as i128, i64::MAX as i128) as i64),
        7 => V::U64(edge_int(rng, 0, u64::MAX as i128) as u64),
        8 => V::Isize(edge_int(rng, isize::MIN as i128, isize::MAX as i128) as isize),
        9 => V::Usize(edge_int(rng, 0, usize::MAX as i128) as usize),
        10 => V::F32(gen_f32(rng)),
        11 => V::F64(gen_f64(rng)),
        12 => V::Str(gen_str(rng)),
        13 => V::Bytes(gen_blob(rng, allow_big)),
        14 => V::Date(gen_date(rng)),
        15 => V::DateTime(gen_datetime(rng)),
        16 => V::Dur(gen_dur(rng)),
        17 => V::Null,
        18 => V::Str(String::new()),
        _ => V::Myc(gen_myc(rng)),
    }
}

pub fn gen_myc(rng: &mut Rng) -> MV {
    match rng.below(9) {
        0 => MV::NULL,
        1 => MV::Bytes(gen_blob(rng, false)),
        2 => MV::Int(edge_int(rng, i64::MIN as i128, i64::MAX as i128) as i64),
        3 => MV::UInt(edge_int(rng, 0, u64::MAX as i128) as u64),
        4 => MV::Float(gen_f32(rng)),
        5 => MV::Double(gen_f64(rng)),
        6 => {
            let d = gen_datetime(rng);
            MV::Date(d.year() as u16, d.month() as u8, d.day() as u8, d.hour() as u8, d.minute() as u8, d.second() as u8, d.nanosecond() / 1000)
        }
        7 => {
            let d = gen_dur(rng);
            let s = d.as_secs();
            MV::Time(false, (s / 86_400) as u32, (s % 86_400 / 3600) as u8, (s % 3600 / 60) as u8, (s % 60) as u8, d.subsec_micros())
        }
        _ => MV::Bytes(b"NULL".to_vec()),
    }
}

fn vname(v: &V) -> &'static str {
    match v {
        V::I8(_) => "i8",
        V::U8(_) => "u8",
        V::I16(_) => "i16",
        V::U16(_) => "u16",
        V::I32(_) => "i32",
        V::U32(_) => "u32",
        V::I64(_) => "i64",
        V::U64(_) => "u64",
        V::Isize(_) => "isize",
        V::Usize(_) => "usize",
        V::F32(_) => "f32",
        V::F64(_) => "f64",
        V::Str(_) => "str",
        V::Bytes(_) => "bytes",
        V::Date(_) => "NaiveDate",
        V::DateTime(_) => "NaiveDateTime",
        V::Dur(_) => "Duration",
        V::Null => "None",
        V::Stream(..) => "bytes(big)",
        V::Myc(m) => match m {
            MV::NULL => "Value::NULL",
            MV::Bytes(_) => "Value::Bytes",
            MV::Int(_) => "Value::Int",
            MV::UInt(_) => "Value::UInt",
            MV::Float(_) => "Value::Float",
            MV::Double(_) => "Value::Double",
            MV::Date(..) => "Value::Date",
            MV::Time(..) => "Value::Time",
        },
    }
}

fn vclass(v: &V) -> String {
    let s = sem_of(v);
    match s {
        Sem::Null => "null".into(),
        Sem::Int(i) => (if i < 0 { "neg" } else if i == 0 { "zero" } else { "pos" }).into(),
        Sem::F32(_) | Sem::F64(_) => "float".into(),
        Sem::Bytes(b) => format!("len {}", len_class(b.len())),
        Sem::Date(..) => "date".into(),
        Sem::DateTime(.., us) => (if us == 0 { "no-micros" } else { "micros" }).into(),
        Sem::Time(t) => (if t == 0 { "zero" } else if t % 1_000_000 == 0 { "seconds" } else { "micros" }).into(),
    }
}

fn show_v(v: &V) -> String {
    match v {
        V::Bytes(b) => format!("Bytes({})", show(b)),
        V::Str(s) => format!("Str({})", show(s.as_bytes())),
        V::Myc(MV::Bytes(b)) => format!("Value::Bytes({})", show(b)),
        o => format!("{:?}", o),
    }
}

/// Values with a sub-microsecond part (legal chrono / std values; the protocol carries microseconds):
/// the cell must be well-formed and denote the value truncated OR rounded to the microsecond.
fn submicro_group(ctx: &Ctx, prop: &'static str, bin: bool) -> Report {
    let n = if ctx.miri { 2 } else { ctx.n(600, 30_000) };
    par_cases(ctx, prop, "submicro", n, |rng, i, rep| {
        let extra = *rng.pick(&[1u32, 499, 500, 999, 501]);
        let (v, cands, ct): (V, Vec<Sem>, ColumnType) = if rng.bool() {
            let base = gen_datetime(rng);
            let ns = (base.nanosecond() / 1000) * 1000 + extra;
            let d = base.with_nanosecond(ns).unwrap();
            let trunc = d.with_nanosecond(ns / 1000 * 1000).unwrap();
            let round = (d + chrono::Duration::nanoseconds(500)).with_nanosecond(((d + chrono::Duration::nanoseconds(500)).nanosecond() / 1000) * 1000).unwrap();
            (V::DateTime(d), vec![sem_of(&V::DateTime(trunc)), sem_of(&V::DateTime(round))], ColumnType::MYSQL_TYPE_DATETIME)
        } else {
            let base = gen_dur(rng);
            let secs = base.as_secs() % (34 * 86_400);
            let d = Duration::new(secs, (base.subsec_micros() * 1000 + extra).min(999_999_999));
            let t = d.as_micros();
            let r = (d.as_nanos() + 500) / 1000;
            (V::Dur(d), vec![Sem::Time(t), Sem::Time(r)], ColumnType::MYSQL_TYPE_TIME)
        };
        let col = Column { table: "t".into(), column: "c".into(), coltype: ct, colflags: ColumnFlags::empty() };
        let tail = Column { table: "t".into(), column: "n".into(), coltype: ColumnType::MYSQL_TYPE_LONG, colflags: ColumnFlags::empty() };
        let cols = vec![col.clone(), tail.clone()];
        // a second cell behind it shows whether the temporal cell consumed exactly its own bytes
        let ops = vec![QOp::Start(0), QOp::Col(Cell { v: v.clone(), form: FORMS[rng.usize(5)] }), QOp::Col(Cell::val(V::I32(0x0A0B0C0D))), QOp::EndRow, QOp::Finish];
        let cmds = vec![Cmd::prepare(b"p"), if bin { Cmd::execute(1, &[], false) } else { Cmd::query(b"q") }, Cmd::ping()];
        let scripts = vec![Script::PrepOk { id: 1, params: vec![], cols: cols.clone() }, Script::Q(QProg { colsets: vec![cols.clone()], ops, on_err: OnErr::Forget })];
        let obs = run_case(&varied_case(rng, cmds, scripts));
        rep.evaluations += 1;
        if harness_panic(&obs, rep) {
            return;
        }
        rep.counters.class(format!("sub-microsecond {} (+{} ns) {}", vname(&v), extra, if bin { "bin" } else { "text" }));
        let d = || J::obj().set("value", format!("{:?}", v)).set("mode", if bin { "binary" } else { "text" }).set("outcome", obs.outcome.describe());
        if i == 0 {
            rep.sample(d());
        }
        let accepted = obs.log.cbs.iter().any(|c| c.results.iter().any(|r| r.op == "col" && r.err.is_none()));
        if !accepted {
            rep.counters.inc("submicro_refused");
            return;
        }
        let bad = |rep: &mut Report, what: String| rep.violations.push(viol(prop, format!("{} submicro-{} {}", prop, if bin { "bin" } else { "text" }, vname(&v)), what, d()));
        let dec = match decode_output(&obs) {
            Ok(x) => x.2,
            Err(e) => {
                bad(rep, e);
                return;
            }
        };
        let Some(Resp::Parts(parts)) = dec.resps.get(3) else {
            bad(rep, format!("a row holding {:?} does not decode: {:?}", v, dec.stop));
            return;
        };
        let Some(Part::Rows { rows, .. }) = parts.first() else {
            bad(rep, "no resultset".into());
            return;
        };
        let Some(raw) = rows.first() else {
            bad(rep, "row missing".into());
            return;
        };
        let ok = if bin {
            match wire::decode_bin_row(raw, &[(ct as u8, 0), (wire::T_LONG, 0)]) {
                Ok(vals) => vals[1] == BinVal::Int(0x0A0B0C0D) && cands.iter().any(|s| bin_matches(&vals[0], s, ct as u8)),
                Err(_) => false,
            }
        } else {
            match wire::decode_text_row(raw, 2) {
                Ok(cells) => text_cell_matches(&cells[1], &Sem::Int(0x0A0B0C0D)) && cands.iter().any(|s| text_cell_matches(&cells[0], s)),
                Err(_) => false,
            }
        };
        if ok {
            rep.counters.inc("submicro_cells_compared");
        } else {
            bad(rep, format!("{:?} arrives neither truncated nor rounded to the microsecond (row bytes {})", v, show(raw)));
        }
    })
}

// ------------------------------------------------------------------------------------------------
// C06


/// Rows in which one or two cells are "sized" (a few KiB up to a few MiB, with the powers of two
/// and their neighbours swept systematically), mixed with NULLs, small cells and small rows, so
/// that whatever staging or batching the writer does between a cell and the transport is crossed
/// with every later cell kind. Text mode for C06, binary for C07.
fn sized_rows_group(ctx: &Ctx, prop: &'static str, bin: bool) -> Report {
    let mut sizes: Vec<usize> = Vec::new();
    for p in [4096usize, 8192, 16384, 32768, 65536] {
        for d in [-13i64, -5, -4, -1, 0, 1, 4, 9] {
            sizes.push((p as i64 + d) as usize);
        }
    }
    for s in [5000usize, 9000, 10_000, 12_345, 15_000, 20_000, 24_000, 100_000, 300_000] {
        sizes.push(s);
    }
    let mib: Vec<usize> = vec![(1 << 20) - 9, (1 << 20) - 3, 1 << 20, (1 << 20) + 1, (1 << 20) + 4096, 3 << 19, (2 << 20) + 5, (4 << 20) + 1];
    let reps = if ctx.thorough { 40 } else { 4 };
    let n = if ctx.miri { 0 } else { ((sizes.len() + mib.len()) * reps) as u64 };
    par_cases(ctx, prop, "sizes", n, |rng, i, rep| {
        let k = i as usize % (sizes.len() + mib.len());
        let main = if k < sizes.len() { sizes[k] } else { mib[k - sizes.len()] };
        let nb = rng.range(1, 4) as usize;
        let nc = nb + 1;
        let mut cols: Vec<Column> = (0..nb).map(|c| simple_col(&format!("b{}", c), ColumnType::MYSQL_TYPE_LONG_BLOB)).collect();
        cols.push(simple_col("n", ColumnType::MYSQL_TYPE_LONG));
        let nr = rng.range(2, 6) as usize;
        let main_row = rng.usize(nr);
        let main_col = rng.usize(nb);
        let mut ops = vec![QOp::Start(0)];
        let mut want: Vec<Vec<Sem>> = Vec::new();
        let mut desc_rows: Vec<String> = Vec::new();
        let mut uid = 0u64;
        for r in 0..nr {
            let mut cells: Vec<Cell> = Vec::new();
            let mut dr = Vec::new();
            for c in 0..nb {
                uid += 1;
                let v = if r == main_row && c == main_col {
                    V::Stream(ctx.seed ^ i, uid, main)
                } else {
                    match rng.below(8) {
                        0 | 1 | 2 => V::Null,
                        3 | 4 => V::Bytes(rng.bytes(3)),
                        5 => V::Stream(ctx.seed ^ i, uid, rng.range(1000, 20_000) as usize),
                        6 if main < 100_000 => V::Stream(ctx.seed ^ i, uid, *rng.pick(&sizes)),
                        _ => V::Bytes(Vec::new()),
                    }
                };
                dr.push(match &v { V::Null => "NULL".to_string(), V::Stream(_, _, l) => format!("{}B", l), V::Bytes(b) => format!("{}B", b.len()), _ => "?".into() });
                let form = if matches!(v, V::Null) { Form::Val } else { FORMS[rng.usize(5)] };
                cells.push(Cell { v, form });
            }
            let iv = if rng.chance(1, 3) { V::Null } else { V::I32(rng.next() as i32) };
            dr.push(if matches!(iv, V::Null) { "NULL".into() } else { "int".into() });
            cells.push(Cell { v: iv, form: Form::Val });
            want.push(cells.iter().map(|c| sem_of(&c.v)).collect());
            desc_rows.push(dr.join(","));
            match rng.below(4) {
                0 => ops.push(QOp::Row(cells, RowForm::Owned)),
                1 => ops.push(QOp::Row(cells, RowForm::Borrowed)),
                3 if cells.len() >= 2 => {
                    // the row is begun with write_col and completed by write_row with the remaining cells
                    let k = 1 + rng.usize(cells.len() - 1);
                    let mut cells = cells;
                    let rest = cells.split_off(k);
                    for c in cells {
                        ops.push(QOp::Col(c));
                    }
                    ops.push(QOp::Row(rest, if rng.bool() { RowForm::Owned } else { RowForm::Borrowed }));
                }
                _ => {
                    for c in cells {
                        ops.push(QOp::Col(c));
                    }
                    ops.push(QOp::EndRow);
                }
            }
        }
        ops.push(QOp::Finish);
        let (cmds, scripts) = if bin {
            (vec![Cmd::prepare(b"p"), Cmd::execute(1, &[], false), Cmd::ping()], vec![Script::PrepOk { id: 1, params: vec![], cols: cols.clone() }, Script::Q(QProg { colsets: vec![cols.clone()], ops, on_err: OnErr::Drop })])
        } else {
            (vec![Cmd::query(b"q"), Cmd::ping()], vec![Script::Q(QProg { colsets: vec![cols.clone()], ops, on_err: OnErr::Drop })])
        };
        let mut case = Case::new(cmds, scripts);
        vary_transport(rng, &mut case);
        case.log_reads = false;
        let obs = run_case(&case);
        rep.evaluations += 1;
        if harness_panic(&obs, rep) {
            return;
        }
        let null_after = want[main_row][main_col + 1..].iter().any(|s| *s == Sem::Null);
        rep.counters.class(format!("sized cell of {} bytes, {} in the same row", main, if null_after { "a NULL later" } else { "no NULL later" }));
        let d = || J::obj().set("mode", if bin { "binary" } else { "text" }).set("sized_cell_bytes", main).set("rows", desc_rows.iter().map(|r| J::s(r.clone())).collect::<Vec<_>>()).set("outcome", obs.outcome.describe());
        if i < 1 {
            rep.sample(d());
        }
        if let Outcome::Panic { file, line, msg } = &obs.outcome {
            rep.violations.push(viol(prop, format!("{} {}", prop, panic_signature(file, *line, msg)), format!("writing a row with a {}-byte cell panicked: {}", main, obs.outcome.describe()), d()));
            return;
        }
        let dec = match decode_output(&obs) {
            Ok(x) => x.2,
            Err(e) => {
                rep.violations.push(viol(prop, format!("{} sizes:bad-framing", prop), e, d()));
                return;
            }
        };
        let Some(Resp::Parts(parts)) = dec.resps.get(if bin { 3 } else { 2 }) else {
            rep.violations.push(viol(prop, format!("{} sizes:undecodable-response", prop), format!("resultset does not decode: {:?}; outcome {}", dec.stop, obs.outcome.describe()), d()));
            return;
        };
        let Some(Part::Rows { cols: defs, rows, end: RowsEnd::Eof(_), .. }) = parts.first() else {
            rep.violations.push(viol(prop, format!("{} sizes:not-a-resultset", prop), "response is not a resultset ending in EOF".into(), d()));
            return;
        };
        if rows.len() != want.len() {
            rep.violations.push(viol(prop, format!("{} sizes:row-count", prop), format!("client decoded {} rows, shim wrote {}", rows.len(), want.len()), d()));
            return;
        }
        let tf: Vec<(u8, u16)> = defs.iter().map(|c| (c.typ, c.flags)).collect();
        for (ri, (raw, w)) in rows.iter().zip(want.iter()).enumerate() {
            let describe = |ci: usize, got: String| format!("row {} column {} (rows as written: {:?}): wrote {}, client decoded {}", ri, ci, desc_rows, match &w[ci] { Sem::Bytes(b) => format!("{} bytes h={:016x}", b.len(), hash128(b).0), o => format!("{:?}", o) }, got);
            if bin {
                let vals = match wire::decode_bin_row(raw, &tf) {
                    Ok(v) => v,
                    Err(e) => {
                        rep.violations.push(viol(prop, format!("{} sizes:row-undecodable", prop), format!("row {} (rows as written: {:?}): {}", ri, desc_rows, e), d()));
                        return;
                    }
                };
                for (ci, (g, s)) in vals.iter().zip(w.iter()).enumerate() {
                    rep.counters.inc("cells_compared");
                    if *s == Sem::Null {
                        rep.counters.inc("null_cells_compared");
                    }
                    if !bin_matches(g, s, tf[ci].0) {
                        let what = if (*g == BinVal::Null) != (*s == Sem::Null) { "null-bitmap" } else { "cell-differs" };
                        let got = match g { BinVal::Bytes(b) => format!("{} bytes h={:016x}", b.len(), hash128(b).0), o => format!("{:?}", o) };
                        rep.violations.push(viol(prop, format!("{} sizes:{}", prop, what), describe(ci, got), d()));
                        return;
                    }
                }
            } else {
                let cells = match wire::decode_text_row(raw, nc) {
                    Ok(c) => c,
                    Err(e) => {
                        rep.violations.push(viol(prop, format!("{} sizes:row-undecodable", prop), format!("row {} (rows as written: {:?}): {}", ri, desc_rows, e), d()));
                        return;
                    }
                };
                for (ci, (cell, s)) in cells.iter().zip(w.iter()).enumerate() {
                    rep.counters.inc("cells_compared");
                    if *s == Sem::Null {
                        rep.counters.inc("null_cells_compared");
                    }
                    if !text_cell_matches(cell, s) {
                        let got = cell.as_ref().map(|b| format!("{} bytes h={:016x}", b.len(), hash128(b).0)).unwrap_or("NULL".into());
                        rep.violations.push(viol(prop, format!("{} sizes:cell-differs", prop), describe(ci, got), d()));
                        return;
                    }
                }
            }
            rep.counters.inc("sized_rows_compared");
        }
    })
}

pub fn run_c06(ctx: &Ctx) -> Report {
    let mut rep = Report::default();
    rep.rule = "cases = text-mode resultsets of 1-30 mixed columns x 1-10 rows written through every hand-over form, decoded by the reference text-row decoder and parsed per written type (numbers/temporals compared as values, floats by bit pattern); plus direct encoder sweeps (dates of years 0..9999, all 16-bit integers); a class is a (value type, value class, hand-over form) tuple; non-trivial = a cell was decoded and compared".into();
    let n = if ctx.miri { 3 } else { ctx.n(4000, 200_000) };
    let r = par_cases(ctx, "C06", "rows", n, |rng, i, rep| {
        let nc = if ctx.miri { 3 } else { rng.range(1, 30) as usize };
        let nr = if ctx.miri { 2 } else { rng.range(1, 10) as usize };
        let big_case = i % 40 == 7;
        let cols: Vec<Column> = (0..nc).map(|c| simple_col(&format!("c{}", c), ColumnType::MYSQL_TYPE_VAR_STRING)).collect();
        // a quarter of the cases: the resultset is the last member of a chain (completions, a
        // zero-column set written through the row writer, another small rowset before it)
        let mut ops = Vec::new();
        let mut before = 0usize;
        if rng.chance(1, 4) {
            for _ in 0..rng.range(1, 3) {
                match rng.below(3) {
                    0 => ops.push(QOp::CompleteOne(rng.below(1000), rng.below(1000))),
                    1 => {
                        ops.push(QOp::Start(1));
                        for _ in 0..rng.below(3) {
                            ops.push(QOp::EndRow);
                        }
                        ops.push(QOp::FinishOne);
                    }
                    _ => {
                        ops.push(QOp::Start(2));
                        ops.push(QOp::Row(vec![Cell::val(V::I32(7))], RowForm::Owned));
                        ops.push(QOp::FinishOne);
                    }
                }
                before += 1;
            }
            rep.counters.inc("resultsets_at_the_end_of_a_chain");
        }
        ops.push(QOp::Start(0));
        let mut want: Vec<Vec<Sem>> = Vec::new();
        let mut cells_all: Vec<Cell> = Vec::new();
        for _ in 0..nr {
            let cells: Vec<Cell> = (0..nc)
                .map(|_| {
                    let v = gen_any_value(rng, big_case);
                    Cell { v, form: FORMS[rng.usize(5)] }
                })
                .collect();
            want.push(cells.iter().map(|c| sem_of(&c.v)).collect());
            cells_all.extend(cells.iter().cloned());
            match rng.below(4) {
                0 => ops.push(QOp::Row(cells, RowForm::Owned)),
                1 => ops.push(QOp::Row(cells, RowForm::Borrowed)),
                3 if cells.len() >= 2 => {
                    // the row is begun with write_col and completed by write_row with the remaining cells
                    let k = 1 + rng.usize(cells.len() - 1);
                    let mut cells = cells;
                    let rest = cells.split_off(k);
                    for c in cells {
                        ops.push(QOp::Col(c));
                    }
                    ops.push(QOp::Row(rest, if rng.bool() { RowForm::Owned } else { RowForm::Borrowed }));
                }
                _ => {
                    for c in cells {
                        ops.push(QOp::Col(c));
                    }
                    ops.push(QOp::EndRow);
                }
            }
        }
        // a last row whose cells are all written need not be ended by hand: finishing the writer, or
        // just letting it go, completes it (the API documents both) - the row arrives all the same
        if nr > 0 && matches!(ops.last(), Some(QOp::EndRow)) && rng.chance(1, 3) {
            ops.pop();
            rep.counters.inc("resultsets_whose_last_row_was_left_to_finish_or_drop");
            match rng.below(3) {
                0 => ops.push(QOp::Finish),
                1 => ops.push(QOp::DropRow),
                _ => {}
            }
        } else {
            ops.push(QOp::Finish);
        }
        // a backend that takes its time in the middle of a reply - a real pause between two cells of a
        // row (or wherever the program allows): time-driven code in the library, if there is any, gets
        // its occasion; the values arrive all the same. A handful of cases only (they cost real time).
        if !ctx.miri && i < if ctx.thorough { 16 } else { 4 } {
            let between_cells: Vec<usize> = (1..ops.len()).filter(|&k| matches!(ops[k - 1], QOp::Col(_)) && matches!(ops[k], QOp::Col(_) | QOp::Row(..) | QOp::EndRow)).collect();
            let at = if between_cells.is_empty() { 1 + rng.usize(ops.len().max(2) - 1) } else { between_cells[rng.usize(between_cells.len())] };
            ops.insert(at.min(ops.len()), QOp::Pause(if ctx.thorough { 1600 } else { 650 }));
            rep.counters.inc(if between_cells.is_empty() { "replies_with_a_real_pause_of_the_backend" } else { "replies_with_a_real_pause_of_the_backend_between_two_cells_of_a_row" });
        }
        let cmds = vec![Cmd::query(b"q"), Cmd::ping()];
        let scripts = vec![Script::Q(QProg { colsets: vec![cols, vec![], vec![simple_col("x", ColumnType::MYSQL_TYPE_LONG)]], ops, on_err: OnErr::Drop })];
        let obs = run_case(&varied_case(rng, cmds, scripts));
        rep.evaluations += 1;
        if harness_panic(&obs, rep) {
            return;
        }
        for c in cells_all.iter().take(40) {
            rep.counters.class(format!("{} {} {:?}", vname(&c.v), vclass(&c.v), c.form));
        }
        let d = || J::obj().set("columns", nc).set("rows", nr).set("first_row", cells_all.iter().take(nc.min(6)).map(|c| J::s(format!("{} as {:?}", show_v(&c.v), c.form))).collect::<Vec<_>>()).set("outcome", obs.outcome.describe());
        if i < 2 {
            rep.sample(d());
        }
        if let Outcome::Panic { file, line, msg } = &obs.outcome {
            rep.violations.push(viol("C06", format!("C06 {}", panic_signature(file, *line, msg)), format!("writing text values panicked: {}", obs.outcome.describe()), d()));
            return;
        }
        let dec = match decode_output(&obs) {
            Ok(x) => x.2,
            Err(e) => {
                rep.violations.push(viol("C06", "C06 bad-framing".into(), e, d()));
                return;
            }
        };
        let Some(Resp::Parts(parts)) = dec.resps.get(2) else {
            rep.violations.push(viol("C06", "C06 undecodable-response".into(), format!("text resultset does not decode: {:?}; outcome {}", dec.stop, obs.outcome.describe()), d()));
            return;
        };
        if parts.len() != before + 1 {
            rep.violations.push(viol("C06", "C06 chain-length".into(), format!("the response has {} parts, the shim wrote {} (the resultset with the values is the last one)", parts.len(), before + 1), d()));
            return;
        }
        let Some(Part::Rows { rows, end: RowsEnd::Eof(_), .. }) = parts.last() else {
            rep.violations.push(viol("C06", "C06 not-a-resultset".into(), "response is not a resultset ending in EOF".into(), d()));
            return;
        };
        if rows.len() != want.len() {
            rep.violations.push(viol("C06", "C06 row-count".into(), format!("client decoded {} rows, shim wrote {}", rows.len(), want.len()), d()));
            return;
        }
        for (ri, (raw, w)) in rows.iter().zip(want.iter()).enumerate() {
            let cells = match wire::decode_text_row(raw, nc) {
                Ok(c) => c,
                Err(e) => {
                    rep.violations.push(viol("C06", "C06 row-undecodable".into(), e, d()));
                    return;
                }
            };
            if let Ok(m) = second::text_row(raw, nc) {
                for (a, b) in cells.iter().zip(m.iter()) {
                    let same = match (a, b) {
                        (None, MV::NULL) => true,
                        (Some(x), MV::Bytes(y)) => x == y,
                        _ => false,
                    };
                    if !same {
                        rep.inconclusive.push("wire and mysql_common disagree on a text row".into());
                    }
                }
                rep.counters.inc("rows_cross_checked");
            } else {
                rep.violations.push(viol("C06", "C06 row-rejected-by-client-parser".into(), "mysql_common's text value parser rejects the row".into(), d()));
                return;
            }
            for (ci, (cell, s)) in cells.iter().zip(w.iter()).enumerate() {
                rep.counters.inc("cells_compared");
                if *s == Sem::Null {
                    rep.counters.inc("null_cells_compared");
                }
                if !text_cell_matches(cell, s) {
                    let c = &cells_all[ri * nc + ci];
                    rep.violations.push(viol(
                        "C06",
                        format!("C06 cell-differs {} {}", vname(&c.v), vclass(&c.v)),
                        format!("row {} column {}: wrote {} (as {:?}), client decoded {}", ri, ci, show_v(&c.v), c.form, cell.as_ref().map(|b| format!("'{}'", show(b))).unwrap_or("NULL".into())),
                        d(),
                    ));
                    return;
                }
            }
        }
    });
    rep.merge(r);

    // ---- direct encoder sweeps (public trait): every date of the year range, all 16-bit integers
    if !ctx.miri {
        let years: Vec<i32> = if ctx.thorough { (0..=9999).collect() } else { (0..=9999).filter(|y| y % 97 == (ctx.seed % 97) as i32 || *y < 12 || *y > 9990 || (*y >= 996 && *y <= 1004) || y % 400 == 0 || y % 100 == 0).collect() };
        let chunks: Vec<&[i32]> = years.chunks(50).collect();
        let r = par_cases(ctx, "C06", "dates", chunks.len() as u64, |_rng, i, rep| {
            let mut buf = Vec::new();
            for &y in chunks[i as usize] {
                let mut d = NaiveDate::from_ymd_opt(y, 1, 1).unwrap();
                while d.year() == y {
                    buf.clear();
                    d.to_mysql_text(&mut buf).unwrap();
                    rep.evaluations += 1;
                    let cell = wire::decode_text_row(&buf, 1).ok().and_then(|mut v| v.pop()).flatten();
                    if !text_cell_matches(&cell, &Sem::Date(y, d.month(), d.day())) {
                        rep.violations.push(viol("C06", "C06 date-text-differs".into(), format!("NaiveDate {} encodes as {:?}", d, cell.map(|c| show(&c))), J::obj().set("date", d.to_string())));
                        return;
                    }
                    rep.counters.inc("dates_compared");
                    match d.succ_opt() {
                        Some(n) => d = n,
                        None => break,
                    }
                }
            }
        });
        rep.merge(r);
        rep.counters.class(format!("date sweep over {} years", years.len()));
        if ctx.thorough {
            rep.notes.push("date sweep is exhaustive over years 0..=9999".into());
        }
        let r = par_cases(ctx, "C06", "ints16", 16, |_rng, i, rep| {
            let mut buf = Vec::new();
            for k in (i * 4096)..((i + 1) * 4096) {
                let u = k as u16;
                for signed in [false, true] {
                    buf.clear();
                    let want = if signed {
                        (u as i16).to_mysql_text(&mut buf).unwrap();
                        u as i16 as i128
                    } else {
                        u.to_mysql_text(&mut buf).unwrap();
                        u as i128
                    };
                    rep.evaluations += 1;
                    let cell = wire::decode_text_row(&buf, 1).ok().and_then(|mut v| v.pop()).flatten();
                    if !text_cell_matches(&cell, &Sem::Int(want)) {
                        rep.violations.push(viol("C06", "C06 int16-text-differs".into(), format!("{} encodes as {:?}", want, cell.map(|c| show(&c))), J::obj().set("value", want)));
                        return;
                    }
                    rep.counters.inc("ints16_compared");
                }
            }
        });
        rep.merge(r);
        rep.counters.class("all 16-bit integers (direct)".into());
    }

    // ---- values the text encoder may refuse (not a calendar date, negative TIME): a refusal is
    //      fine, an accepted write must still decode to exactly what was written
    let n = if ctx.miri { 2 } else { ctx.n(500, 20_000) };
    let r = par_cases(ctx, "C06", "may", n, |rng, i, rep| {
        let v = match rng.below(3) {
            0 => V::Myc(MV::Date(2021, *rng.pick(&[0u8, 2, 13]), *rng.pick(&[0u8, 30, 31, 32]), *rng.pick(&[0u8, 24, 25]), *rng.pick(&[0u8, 60]), *rng.pick(&[0u8, 61]), *rng.pick(&[0u32, 1_000_000]))),
            1 => V::Myc(MV::Time(true, rng.below(30) as u32, rng.below(24) as u8, rng.below(60) as u8, rng.below(60) as u8, 0)),
            _ => V::Myc(gen_myc(rng)),
        };
        let cols = vec![simple_col("c", ColumnType::MYSQL_TYPE_VAR_STRING)];
        let ops = vec![QOp::Start(0), QOp::Col(Cell { v: v.clone(), form: if rng.bool() { Form::Val } else { Form::Ref } }), QOp::EndRow, QOp::Finish];
        let obs = run_case(&Case::new(vec![Cmd::query(b"q")], vec![Script::Q(QProg { colsets: vec![cols], ops, on_err: OnErr::Forget })]));
        rep.evaluations += 1;
        if harness_panic(&obs, rep) {
            return;
        }
        let d = || J::obj().set("value", show_v(&v)).set("outcome", obs.outcome.describe());
        if i == 0 {
            rep.sample(d());
        }
        let accepted = obs.log.cbs.iter().any(|c| c.results.iter().any(|r| r.op == "col" && r.err.is_none()));
        rep.counters.class(format!("may: {} {}", vname(&v), if accepted { "accepted" } else { "refused" }));
        if !accepted {
            rep.counters.inc("may_values_refused");
            return;
        }
        if let Ok((_, _, dec)) = decode_output(&obs) {
            if let Some(Resp::Parts(parts)) = dec.resps.get(2) {
                if let Some(Part::Rows { rows, .. }) = parts.first() {
                    if let Some(Ok(cells)) = rows.first().map(|r| wire::decode_text_row(r, 1)) {
                        rep.counters.inc("may_values_accepted_and_compared");
                        if !text_cell_matches(&cells[0], &sem_of(&v)) {
                            rep.violations.push(viol("C06", format!("C06 accepted-but-altered {}", vname(&v)), format!("{} was accepted and a client decodes {:?}", show_v(&v), cells[0].as_ref().map(|c| show(c))), d()));
                        }
                        return;
                    }
                }
            }
        }
        rep.violations.push(viol("C06", format!("C06 accepted-but-undecodable {}", vname(&v)), format!("{} was accepted but the row does not decode (outcome {})", show_v(&v), obs.outcome.describe()), d()));
    });
    rep.merge(r);

    rep.merge(submicro_group(ctx, "C06", false));
    rep.merge(sized_rows_group(ctx, "C06", false));

    // ---- one cell beyond 16 MiB (thorough): framing is C04's concern
    if ctx.thorough && !ctx.miri {
        let r = par_cases(ctx, "C06", "big", 1, |_rng, _i, rep| {
            let len = MAXP + 11;
            let cols = vec![simple_col("big", ColumnType::MYSQL_TYPE_LONG_BLOB), simple_col("n", ColumnType::MYSQL_TYPE_LONG)];
            let ops = vec![QOp::Start(0), QOp::Col(Cell::val(V::Stream(ctx.seed, 77, len))), QOp::Col(Cell::val(V::I32(-5))), QOp::EndRow, QOp::Finish];
            let obs = run_case(&Case::new(vec![Cmd::query(b"q"), Cmd::ping()], vec![Script::Q(QProg { colsets: vec![cols], ops, on_err: OnErr::Drop })]));
            rep.evaluations += 1;
            let dec = match decode_output(&obs) {
                Ok(x) => x.2,
                Err(_) => {
                    rep.counters.inc("skipped_bad_framing");
                    rep.notes.push(">16 MiB cell: output not well-framed; attributed to C04, not judged here".into());
                    return;
                }
            };
            if let Some(Resp::Parts(parts)) = dec.resps.get(2) {
                if let Some(Part::Rows { rows, .. }) = parts.first() {
                    if let Some(Ok(cells)) = rows.first().map(|r| wire::decode_text_row(r, 2)) {
                        let mut want = Vec::new();
                        stream_fill(&mut want, ctx.seed, 77, len, false);
                        rep.counters.add("cells_compared", 2);
                        if cells[0].as_deref() != Some(&want[..]) || !text_cell_matches(&cells[1], &Sem::Int(-5)) {
                            rep.violations.push(viol("C06", "C06 big-cell-differs".into(), format!("a {}-byte cell did not arrive intact", len), J::obj().set("len", len)));
                        }
                        rep.counters.class("cell > 16 MiB".into());
                        return;
                    }
                }
            }
            rep.counters.inc("skipped_bad_framing");
            rep.notes.push(">16 MiB cell: response did not decode; attributed to C04".into());
        });
        rep.merge(r);
    }
    if ctx.strict() {
        rep.require("cells_compared", 10_000);
        rep.require("null_cells_compared", 100);
        rep.require("dates_compared", 10_000);
    }
    // ---- values behind a long reply: a resultset of 250..254 or 506..510 rows (its packet count passes a
    //      multiple of 256, where the sequence id is back at the reply's first id), then a second
    //      query with one row of mixed values - which must decode to what was written, not to an
    //      empty result or to the answer of another command
    let longs: Vec<usize> = if ctx.miri { vec![2] } else { vec![250, 251, 252, 253, 254, 506, 507, 508, 509, 510] };
    let r = par_cases(ctx, "C06", "behind-a-long-reply", longs.len() as u64 * 2, |rng, i, rep| {
        let nrows = longs[i as usize / 2];
        let ncols = 1 + (i as usize % 2) * 2;
        let cols1: Vec<Column> = (0..ncols).map(|c| Column { table: "t".into(), column: format!("c{}", c), coltype: ColumnType::MYSQL_TYPE_LONG, colflags: ColumnFlags::empty() }).collect();
        let mut ops1 = vec![QOp::Start(0)];
        for k in 0..nrows {
            ops1.push(QOp::Row((0..ncols).map(|c| Cell::val(V::I32((k * 7 + c) as i32))).collect(), RowForm::Owned));
        }
        ops1.push(QOp::Finish);
        let vals = vec![V::I64(-43 - i as i64), V::Str(format!("value #{}", i)), V::Null, V::Str(String::new()), V::F64(1.5 + i as f64)];
        let cols2: Vec<Column> = (0..vals.len()).map(|c| Column { table: "t".into(), column: format!("v{}", c), coltype: ColumnType::MYSQL_TYPE_VAR_STRING, colflags: ColumnFlags::empty() }).collect();
        let ops2 = vec![QOp::Start(0), QOp::Row(vals.iter().map(|v| Cell::val(v.clone())).collect(), RowForm::Owned), QOp::Finish];
        let cmds = vec![Cmd::query(b"long"), Cmd::query(b"values"), Cmd::ping()];
        let scripts = vec![Script::Q(QProg { colsets: vec![cols1], ops: ops1, on_err: OnErr::Drop }), Script::Q(QProg { colsets: vec![cols2], ops: ops2, on_err: OnErr::Drop })];
        let obs = run_case(&varied_case(rng, cmds, scripts));
        rep.evaluations += 1;
        if harness_panic(&obs, rep) {
            return;
        }
        let packets = 1 + ncols + 1 + nrows + 1;
        rep.counters.class(format!("values behind a reply of {} packets", packets));
        let d = || J::obj().set("rows_of_the_first_reply", nrows).set("columns_of_the_first_reply", ncols).set("packets_of_the_first_reply", packets).set("outcome", obs.outcome.describe());
        if i == 0 {
            rep.sample(d());
        }
        let dec = match decode_output(&obs) {
            Ok(x) => x.2,
            Err(e) => {
                rep.violations.push(viol("C06", "C06 bad-framing".into(), e, d()));
                return;
            }
        };
        let rows_of = |k: usize| -> Option<Vec<Vec<u8>>> {
            match dec.resps.get(k) {
                Some(Resp::Parts(parts)) => match parts.first() {
                    Some(Part::Rows { rows, .. }) if parts.len() == 1 => Some(rows.clone()),
                    _ => None,
                },
                _ => None,
            }
        };
        match rows_of(2) {
            Some(r1) if r1.len() == nrows => {}
            other => {
                rep.violations.push(viol("C06", "C06 long-reply-row-count".into(), format!("the client sees {:?} rows of the {}-row resultset", other.map(|r| r.len()), nrows), d()));
                return;
            }
        }
        let Some(r2) = rows_of(3) else {
            rep.violations.push(viol("C06", "C06 values-behind-long-reply-lost".into(), format!("the query behind a reply of {} packets is not answered by its resultset: {:?}", packets, dec.stop), d()));
            return;
        };
        let cells = r2.first().and_then(|raw| wire::decode_text_row(raw, vals.len()).ok());
        let ok = r2.len() == 1 && cells.as_ref().map(|c| c.iter().zip(vals.iter()).all(|(g, v)| text_cell_matches(g, &sem_of(v)))).unwrap_or(false);
        if !ok {
            rep.violations.push(viol("C06", "C06 values-behind-long-reply-differ".into(), format!("behind a reply of {} packets the client decodes {:?} rows / {:?}", packets, r2.len(), cells.map(|c| c.iter().map(|x| x.as_ref().map(|b| show(b))).collect::<Vec<_>>())), d()));
            return;
        }
        rep.counters.inc("value_rows_behind_long_replies_compared");
    });
    rep.merge(r);

    // ---- backends that go on after a refused writer call (props/recover.rs): the cells that were
    //      accepted arrive with their values (text rows)
    rep.merge(super::recover::group(ctx, "C06", super::recover::Clause::Values, Some(false), 1500, 30_000));
    rep
}

// ------------------------------------------------------------------------------------------------
// C07

const STRINGISH_CT: [ColumnType; 14] = [
    ColumnType::MYSQL_TYPE_STRING,
    ColumnType::MYSQL_TYPE_VAR_STRING,
    ColumnType::MYSQL_TYPE_BLOB,
    ColumnType::MYSQL_TYPE_TINY_BLOB,
    ColumnType::MYSQL_TYPE_MEDIUM_BLOB,
    ColumnType::MYSQL_TYPE_LONG_BLOB,
    ColumnType::MYSQL_TYPE_SET,
    ColumnType::MYSQL_TYPE_ENUM,
    ColumnType::MYSQL_TYPE_DECIMAL,
    ColumnType::MYSQL_TYPE_VARCHAR,
    ColumnType::MYSQL_TYPE_BIT,
    ColumnType::MYSQL_TYPE_NEWDECIMAL,
    ColumnType::MYSQL_TYPE_GEOMETRY,
    ColumnType::MYSQL_TYPE_JSON,
];

/// A (column, must-accept value) pair of a "natural" kind.
pub fn gen_natural(rng: &mut Rng, big: bool) -> (ColumnType, ColumnFlags, V) {
    let u = ColumnFlags::UNSIGNED_FLAG;
    let e = ColumnFlags::empty();
    match rng.below(20) {
        0 => (ColumnType::MYSQL_TYPE_TINY, e, V::I8(edge_int(rng, -128, 127) as i8)),
        1 => (ColumnType::MYSQL_TYPE_TINY, u, V::U8(edge_int(rng, 0, 255) as u8)),
        2 => (ColumnType::MYSQL_TYPE_SHORT, e, V::I16(edge_int(rng, i16::MIN as i128, i16::MAX as i128) as i16)),
        3 => (ColumnType::MYSQL_TYPE_SHORT, u, V::U16(edge_int(rng, 0, u16::MAX as i128) as u16)),
        4 => (ColumnType::MYSQL_TYPE_LONG, e, V::I32(edge_int(rng, i32::MIN as i128, i32::MAX as i128) as i32)),
        5 => (ColumnType::MYSQL_TYPE_LONG, u, V::U32(edge_int(rng, 0, u32::MAX as i128) as u32)),
        6 => (ColumnType::MYSQL_TYPE_LONGLONG, e, V::I64(edge_int(rng, i64::MIN as i128, i64::MAX as i128) as i64)),
        7 => (ColumnType::MYSQL_TYPE_LONGLONG, u, V::U64(edge_int(rng, 0, u64::MAX as i128) as u64)),
        8 => (ColumnType::MYSQL_TYPE_FLOAT, e, V::F32(gen_f32(rng))),
        9 => (ColumnType::MYSQL_TYPE_DOUBLE, e, V::F32(gen_f32(rng))),
        10 => (ColumnType::MYSQL_TYPE_DOUBLE, e, V::F64(gen_f64(rng))),
        11 | 12 => (*rng.pick(&STRINGISH_CT), e, V::Bytes(gen_blob(rng, big))),
        13 => (*rng.pick(&STRINGISH_CT), e, V::Str(gen_str(rng))),
        14 => (ColumnType::MYSQL_TYPE_DATE, e, V::Date(gen_date(rng))),
        15 => (if rng.bool() { ColumnType::MYSQL_TYPE_DATETIME } else { ColumnType::MYSQL_TYPE_TIMESTAMP }, e, V::DateTime(gen_datetime(rng))),
        16 => {
            // the binary encoder covers 0..=34 days
            let mut d = gen_dur(rng);
            if d.as_secs() >= 35 * 86_400 {
                d = Duration::new(d.as_secs() % (35 * 86_400), d.subsec_nanos());
            }
            (ColumnType::MYSQL_TYPE_TIME, e, V::Dur(d))
        }
        17 => (*rng.pick(&STRINGISH_CT), e, V::Myc(MV::Bytes(gen_blob(rng, false)))),
        18 => (ColumnType::MYSQL_TYPE_DOUBLE, e, V::Myc(MV::Double(gen_f64(rng)))),
        _ => (ColumnType::MYSQL_TYPE_FLOAT, e, V::Myc(MV::Float(gen_f32(rng)))),
    }
}

/// A fresh value of the same Rust type as `proto`.
pub fn gen_like(rng: &mut Rng, proto: &V, big: bool) -> V {
    match proto {
        V::I8(_) => V::I8(edge_int(rng, -128, 127) as i8),
        V::U8(_) => V::U8(edge_int(rng, 0, 255) as u8),
        V::I16(_) => V::I16(edge_int(rng, i16::MIN as i128, i16::MAX as i128) as i16),
        V::U16(_) => V::U16(edge_int(rng, 0, u16::MAX as i128) as u16),
        V::I32(_) => V::I32(edge_int(rng, i32::MIN as i128, i32::MAX as i128) as i32),
        V::U32(_) => V::U32(edge_int(rng, 0, u32::MAX as i128) as u32),
        V::I64(_) => V::I64(edge_int(rng, i64::MIN as i128, i64::MAX as i128) as i64),
        V::U64(_) => V::U64(edge_int(rng, 0, u64::MAX as i128) as u64),
        V::F32(_) => V::F32(gen_f32(rng)),
        V::F64(_) => V::F64(gen_f64(rng)),
        V::Str(_) => V::Str(gen_str(rng)),
        V::Bytes(_) => V::Bytes(gen_blob(rng, big)),
        V::Date(_) => V::Date(gen_date(rng)),
        V::DateTime(_) => V::DateTime(gen_datetime(rng)),
        V::Dur(_) => {
            let d = gen_dur(rng);
            V::Dur(Duration::new(d.as_secs() % (35 * 86_400), d.subsec_nanos()))
        }
        V::Myc(MV::Bytes(_)) => V::Myc(MV::Bytes(gen_blob(rng, false))),
        V::Myc(MV::Double(_)) => V::Myc(MV::Double(gen_f64(rng))),
        V::Myc(MV::Float(_)) => V::Myc(MV::Float(gen_f32(rng))),
        other => other.clone(),
    }
}

/// A cross-kind pair that must be refused.
fn gen_cross(rng: &mut Rng) -> (ColumnType, V, &'static str) {
    const NON_INT: [ColumnType; 9] = [
        ColumnType::MYSQL_TYPE_BLOB,
        ColumnType::MYSQL_TYPE_VAR_STRING,
        ColumnType::MYSQL_TYPE_DATE,
        ColumnType::MYSQL_TYPE_DATETIME,
        ColumnType::MYSQL_TYPE_TIME,
        ColumnType::MYSQL_TYPE_DOUBLE,
        ColumnType::MYSQL_TYPE_FLOAT,
        ColumnType::MYSQL_TYPE_JSON,
        ColumnType::MYSQL_TYPE_NEWDECIMAL,
    ];
    const NON_FLOAT: [ColumnType; 7] = [ColumnType::MYSQL_TYPE_BLOB, ColumnType::MYSQL_TYPE_LONG, ColumnType::MYSQL_TYPE_LONGLONG, ColumnType::MYSQL_TYPE_TINY, ColumnType::MYSQL_TYPE_DATE, ColumnType::MYSQL_TYPE_TIME, ColumnType::MYSQL_TYPE_VAR_STRING];
    if rng.chance(1, 3) {
        // every Rust integer type into every kind of non-integer column
        let v = match rng.below(10) {
            0 => V::I8(-3),
            1 => V::U8(3),
            2 => V::I16(-300),
            3 => V::U16(300),
            4 => V::I32(-70000),
            5 => V::U32(70000),
            6 => V::I64(-5_000_000_000),
            7 => V::U64(5_000_000_000),
            8 => V::Isize(-9),
            _ => V::Usize(9),
        };
        return (*rng.pick(&NON_INT), v, "integer -> non-integer column");
    }
    if rng.chance(1, 5) {
        return (*rng.pick(&NON_FLOAT), if rng.bool() { V::F32(1.25) } else { V::F64(-2.5) }, "float -> non-float column");
    }
    match rng.below(12) {
        0 => (ColumnType::MYSQL_TYPE_LONG, V::Str("12".into()), "string -> integer column"),
        1 => (ColumnType::MYSQL_TYPE_LONGLONG, V::Bytes(b"1".to_vec()), "bytes -> integer column"),
        2 => (ColumnType::MYSQL_TYPE_BLOB, V::I32(7), "integer -> BLOB column"),
        3 => (ColumnType::MYSQL_TYPE_VAR_STRING, V::U64(7), "integer -> string column"),
        4 => (ColumnType::MYSQL_TYPE_FLOAT, V::F64(1.5), "f64 -> FLOAT column"),
        5 => (ColumnType::MYSQL_TYPE_TIME, V::Date(gen_date(rng)), "date -> TIME column"),
        6 => (ColumnType::MYSQL_TYPE_DATE, V::Dur(Duration::from_secs(5)), "duration -> DATE column"),
        7 => (ColumnType::MYSQL_TYPE_DATETIME, V::Dur(Duration::from_secs(5)), "duration -> DATETIME column"),
        8 => (ColumnType::MYSQL_TYPE_LONG, V::F64(2.0), "float -> integer column"),
        9 => (ColumnType::MYSQL_TYPE_DOUBLE, V::I32(2), "integer -> DOUBLE column"),
        10 => (ColumnType::MYSQL_TYPE_DATE, V::Str("2020-01-01".into()), "string -> DATE column"),
        _ => (ColumnType::MYSQL_TYPE_TIME, V::DateTime(gen_datetime(rng)), "datetime -> TIME column"),
    }
}

fn null_cell(rng: &mut Rng) -> Cell {
    if rng.chance(1, 4) {
        Cell { v: V::Myc(MV::NULL), form: if rng.bool() { Form::Val } else { Form::Ref } }
    } else {
        Cell { v: V::Null, form: FORMS[rng.usize(5)] }
    }
}

pub fn run_c07(ctx: &Ctx) -> Report {
    let mut rep = Report::default();
    rep.rule = "cases = binary resultsets (column counts 1..20, 62..65, 254..256, 300, thorough 1000) with NULL patterns none/all/alternating/single/random, natural (value type, column type) pairs written through every hand-over form (by value, by reference, Option, Option<&T>, &Option<T>, generic Value, write_col and write_row by value / by reference), decoded with the advertised types; plus one must-refuse cell per case (cross-kind pair or NULL into NOT NULL); a class is a (value type, value class, column type, hand-over form) tuple; non-trivial = a row was decoded and compared cell by cell".into();
    let n = if ctx.miri { 3 } else { ctx.n(4000, 200_000) };
    let r = par_cases(ctx, "C07", "rows", n, |rng, i, rep| {
        let counts: &[usize] = if ctx.thorough { &[62, 63, 64, 65, 254, 255, 256, 300, 1000, 6, 7, 14, 15] } else { &[62, 63, 64, 65, 254, 255, 256, 300, 6, 7, 14, 15] };
        let nc = if ctx.miri { 3 } else if rng.chance(1, 5) { *rng.pick(counts) } else { rng.range(1, 20) as usize };
        let nr = if nc > 100 { 1 + rng.below(2) as usize } else { rng.range(1, 6) as usize };
        let big = i % 50 == 3 && nc < 10;
        let mut cols = Vec::new();
        let mut gens: Vec<(ColumnType, ColumnFlags)> = Vec::new();
        // column list first (one natural kind per column), values per row regenerate for that kind
        let mut proto: Vec<V> = Vec::new();
        for c in 0..nc {
            let (ct, fl, v) = gen_natural(rng, big);
            // a third of the columns carry flags that say nothing about how a value is encoded (a
            // backend may set ZEROFILL without UNSIGNED, key and default flags, ...): the cells and the
            // definition the client receives still agree
            let fl = if rng.chance(1, 3) {
                rep.counters.inc("columns_with_flags_that_do_not_concern_the_encoding");
                fl | *rng.pick(&[
                    ColumnFlags::ZEROFILL_FLAG,
                    ColumnFlags::PRI_KEY_FLAG | ColumnFlags::AUTO_INCREMENT_FLAG,
                    ColumnFlags::UNIQUE_KEY_FLAG,
                    ColumnFlags::MULTIPLE_KEY_FLAG | ColumnFlags::ZEROFILL_FLAG,
                    ColumnFlags::TIMESTAMP_FLAG | ColumnFlags::ON_UPDATE_NOW_FLAG,
                    ColumnFlags::NUM_FLAG,
                    ColumnFlags::PART_KEY_FLAG,
                    ColumnFlags::NO_DEFAULT_VALUE_FLAG,
                ])
            } else {
                fl
            };
            cols.push(Column { table: "t".into(), column: format!("c{}", c), coltype: ct, colflags: fl });
            gens.push((ct, fl));
            proto.push(v);
        }
        let null_mode = rng.below(6);
        let single = rng.usize(nc);
        let mut ops = vec![QOp::Start(0)];
        let mut want: Vec<Vec<Sem>> = Vec::new();
        let mut written: Vec<Cell> = Vec::new();
        for r in 0..nr {
            let cells: Vec<Cell> = (0..nc)
                .map(|c| {
                    let is_null = match null_mode {
                        0 => false,
                        1 => true,
                        2 => (c + r) % 2 == 0,
                        3 => c == single,
                        4 => c != single,
                        _ => rng.chance(1, 3),
                    };
                    if is_null {
                        null_cell(rng)
                    } else {
                        // a fresh value of the same kind as the column's prototype
                        let v = gen_like(rng, &proto[c], big);
                        let form = if matches!(v, V::Myc(_)) { if rng.bool() { Form::Val } else { Form::Ref } } else { FORMS[rng.usize(5)] };
                        Cell { v, form }
                    }
                })
                .collect();
            want.push(cells.iter().map(|c| sem_of(&c.v)).collect());
            written.extend(cells.iter().cloned());
            match rng.below(4) {
                0 => ops.push(QOp::Row(cells, RowForm::Owned)),
                1 => ops.push(QOp::Row(cells, RowForm::Borrowed)),
                3 if cells.len() >= 2 => {
                    // the row is begun with write_col and completed by write_row with the remaining cells
                    let k = 1 + rng.usize(cells.len() - 1);
                    let mut cells = cells;
                    let rest = cells.split_off(k);
                    for c in cells {
                        ops.push(QOp::Col(c));
                    }
                    ops.push(QOp::Row(rest, if rng.bool() { RowForm::Owned } else { RowForm::Borrowed }));
                }
                _ => {
                    for c in cells {
                        ops.push(QOp::Col(c));
                    }
                    if r + 1 < nr || rng.bool() {
                        ops.push(QOp::EndRow);
                    }
                }
            }
        }
        // (a last row left un-ended is completed by finish() - or by letting the writer go)
        if nr > 0 && matches!(ops.last(), Some(QOp::Col(_))) && rng.bool() {
            rep.counters.inc("resultsets_whose_last_row_was_left_to_the_destructor");
            if rng.bool() {
                ops.push(QOp::DropRow);
            }
        } else {
            ops.push(QOp::Finish);
        }
        let cmds = vec![Cmd::prepare(b"p"), Cmd::execute(1, &[], false), Cmd::ping()];
        let scripts = vec![Script::PrepOk { id: 1, params: vec![], cols: cols.clone() }, Script::Q(QProg { colsets: vec![cols.clone()], ops, on_err: OnErr::Drop })];
        let obs = run_case(&varied_case(rng, cmds, scripts));
        rep.evaluations += 1;
        if harness_panic(&obs, rep) {
            return;
        }
        for (k, c) in written.iter().enumerate().take(30) {
            rep.counters.class(format!("{} {} -> {:?}{} {:?}", vname(&c.v), vclass(&c.v), gens[k % nc].0, if gens[k % nc].1.contains(ColumnFlags::UNSIGNED_FLAG) { " unsigned" } else { "" }, c.form));
        }
        rep.counters.class(format!("bitmap bytes {}", (nc + 9) / 8));
        rep.counters.class(format!("null pattern {}", ["none", "all", "alternating", "single", "all-but-one", "random"][null_mode as usize]));
        let d = || {
            J::obj()
                .set("columns", nc)
                .set("rows", nr)
                .set("null_pattern", ["none", "all", "alternating", "single", "all-but-one", "random"][null_mode as usize])
                .set("first_cells", written.iter().take(nc.min(5)).enumerate().map(|(k, c)| J::s(format!("{} as {:?} -> {:?}", show_v(&c.v), c.form, gens[k].0))).collect::<Vec<_>>())
                .set("outcome", obs.outcome.describe())
        };
        if i < 2 {
            rep.sample(d());
        }
        if let Outcome::Panic { file, line, msg } = &obs.outcome {
            let nullform = written.iter().find(|c| c.is_null_value()).map(|c| format!("{:?}", c.form)).unwrap_or_default();
            let _ = nullform;
            rep.violations.push(viol("C07", format!("C07 {}", panic_signature(file, *line, msg)), format!("writing a legitimate binary row panicked: {}", obs.outcome.describe()), d()));
            return;
        }
        // every write must have been accepted (all pairs are must-accept)
        if let Some(cb) = obs.log.cbs.iter().find(|c| matches!(c.kind, CbKind::Execute { .. })) {
            if let Some(bad) = cb.results.iter().find(|r| r.err.is_some()) {
                rep.violations.push(viol("C07", format!("C07 must-accept-refused {}", bad.op), format!("{} refused a natural value/column pair: {:?}", bad.op, bad.err), d()));
                return;
            }
        }
        let dec = match decode_output(&obs) {
            Ok(x) => x.2,
            Err(e) => {
                rep.violations.push(viol("C07", "C07 bad-framing".into(), e, d()));
                return;
            }
        };
        let Some(Resp::Parts(parts)) = dec.resps.get(3) else {
            rep.violations.push(viol("C07", "C07 undecodable-response".into(), format!("binary resultset does not decode: {:?}; outcome {}", dec.stop, obs.outcome.describe()), d()));
            return;
        };
        let Some(Part::Rows { cols: defs, rows, end: RowsEnd::Eof(_), .. }) = parts.first() else {
            rep.violations.push(viol("C07", "C07 not-a-resultset".into(), "response is not a resultset ending in EOF".into(), d()));
            return;
        };
        let tf: Vec<(u8, u16)> = defs.iter().map(|c| (c.typ, c.flags)).collect();
        if rows.len() != want.len() {
            rep.violations.push(viol("C07", "C07 row-count".into(), format!("client decoded {} rows, shim wrote {}", rows.len(), want.len()), d()));
            return;
        }
        for (ri, (raw, w)) in rows.iter().zip(want.iter()).enumerate() {
            let vals = match wire::decode_bin_row(raw, &tf) {
                Ok(v) => v,
                Err(e) => {
                    rep.violations.push(viol("C07", "C07 row-undecodable".into(), e, d()));
                    return;
                }
            };
            rep.counters.inc("rows_decoded");
            for (ci, (g, s)) in vals.iter().zip(w.iter()).enumerate() {
                rep.counters.inc("cells_compared");
                if *s == Sem::Null {
                    rep.counters.inc("null_cells_compared");
                }
                if !bin_matches(g, s, tf[ci].0) {
                    let c = &written[ri * nc + ci];
                    let what = if (*g == BinVal::Null) != (*s == Sem::Null) { "null-bitmap" } else { "cell-differs" };
                    rep.violations.push(viol(
                        "C07",
                        format!("C07 {} {} -> {:?}", what, vname(&c.v), gens[ci].0),
                        format!("row {} column {} ({:?}): wrote {} (as {:?}), client decoded {:?}", ri, ci, gens[ci].0, show_v(&c.v), c.form, g).chars().take(400).collect(),
                        d(),
                    ));
                    return;
                }
            }
            // second opinion: mysql_common's binary value parser over the same row
            if nc <= 64 {
                let bm = (nc + 9) / 8;
                let mut rest = &raw[1 + bm..];
                let mut ok = true;
                for (ci, g) in vals.iter().enumerate() {
                    if *g == BinVal::Null {
                        continue;
                    }
                    match second::bin_value(&mut rest, tf[ci].0, tf[ci].1) {
                        Ok(m) => {
                            if !second::bin_agrees(g, &m) {
                                rep.inconclusive.push(format!("wire and mysql_common disagree on a binary value of type 0x{:02x}", tf[ci].0));
                                ok = false;
                                break;
                            }
                        }
                        Err(_) => {
                            ok = false;
                            break;
                        }
                    }
                }
                if ok {
                    rep.counters.inc("rows_cross_checked");
                }
            }
        }
    });
    rep.merge(r);

    // ---- must-refuse: one bad cell as the last write of a case
    let n = if ctx.miri { 2 } else { ctx.n(1500, 50_000) };
    let r = par_cases(ctx, "C07", "refuse", n, |rng, i, rep| {
        let nc = rng.range(1, 6) as usize;
        let bad_at = rng.usize(nc);
        let null_case = i % 2 == 0;
        let mut cols = Vec::new();
        let mut cells = Vec::new();
        let mut what = "";
        for c in 0..nc {
            if c == bad_at {
                if null_case {
                    let (ct, fl, _) = gen_natural(rng, false);
                    cols.push(Column { table: "t".into(), column: format!("c{}", c), coltype: ct, colflags: fl | ColumnFlags::NOT_NULL_FLAG });
                    cells.push(null_cell(rng));
                    what = "NULL -> NOT NULL column";
                } else {
                    let (ct, v, w) = gen_cross(rng);
                    cols.push(Column { table: "t".into(), column: format!("c{}", c), coltype: ct, colflags: ColumnFlags::empty() });
                    cells.push(Cell { v, form: FORMS[rng.usize(5)] });
                    what = w;
                }
            } else {
                let (ct, fl, v) = gen_natural(rng, false);
                cols.push(Column { table: "t".into(), column: format!("c{}", c), coltype: ct, colflags: fl });
                cells.push(Cell { v, form: FORMS[rng.usize(5)] });
            }
        }
        let by_row = rng.bool();
        let mut ops = vec![QOp::Start(0)];
        if by_row {
            ops.push(QOp::Row(cells.clone(), if rng.bool() { RowForm::Owned } else { RowForm::Borrowed }));
        } else {
            for c in cells.iter().take(bad_at + 1) {
                ops.push(QOp::Col(c.clone()));
            }
        }
        ops.push(QOp::Finish);
        let cmds = vec![Cmd::prepare(b"p"), Cmd::execute(1, &[], false)];
        let scripts = vec![Script::PrepOk { id: 1, params: vec![], cols: cols.clone() }, Script::Q(QProg { colsets: vec![cols.clone()], ops, on_err: OnErr::Forget })];
        let obs = run_case(&varied_case(rng, cmds, scripts));
        rep.evaluations += 1;
        if harness_panic(&obs, rep) {
            return;
        }
        rep.counters.class(format!("must-refuse: {} via {}", what, if by_row { "write_row" } else { "write_col" }));
        let d = || J::obj().set("what", what).set("bad_cell", format!("{} as {:?} -> {:?} flags 0x{:x}", show_v(&cells[bad_at].v), cells[bad_at].form, cols[bad_at].coltype, cols[bad_at].colflags.bits())).set("via", if by_row { "write_row" } else { "write_col" }).set("outcome", obs.outcome.describe());
        if i < 2 {
            rep.sample(d());
        }
        if let Outcome::Panic { file, line, msg } = &obs.outcome {
            rep.violations.push(viol("C07", format!("C07 {}", panic_signature(file, *line, msg)), format!("{}: panicked instead of returning an error: {}", what, obs.outcome.describe()), d()));
            return;
        }
        let cb = obs.log.cbs.iter().find(|c| matches!(c.kind, CbKind::Execute { .. }));
        let refused = cb.map(|c| c.results.iter().any(|r| r.err.is_some() && (r.op == "col" || r.op == "write_row"))).unwrap_or(false);
        if !refused {
            rep.violations.push(viol("C07", format!("C07 must-refuse-accepted {}", what), format!("{} was accepted (every writer call returned Ok)", what), d()));
        } else {
            rep.counters.inc("refusals_observed");
        }
    });
    rep.merge(r);

    // ---- "may" pairs: generic values (Value::Date / Value::Time / Value::Int / Value::UInt, also
    //      invalid dates and negative times) into any temporal or integer column: the write may be
    //      refused, but an accepted write must decode to exactly the value written
    let n = if ctx.miri { 2 } else { ctx.n(2000, 60_000) };
    let r = par_cases(ctx, "C07", "may", n, |rng, i, rep| {
        let e = ColumnFlags::empty();
        let u = ColumnFlags::UNSIGNED_FLAG;
        let (ct, fl, v): (ColumnType, ColumnFlags, V) = match rng.below(16) {
            11 => {
                // floats of either width into either float column
                let t = if rng.bool() { ColumnType::MYSQL_TYPE_FLOAT } else { ColumnType::MYSQL_TYPE_DOUBLE };
                let v = match rng.below(4) {
                    0 => V::F64(gen_f64(rng)),
                    1 => V::F32(gen_f32(rng)),
                    2 => V::Myc(MV::Double(gen_f64(rng))),
                    _ => V::F64(gen_f32(rng) as f64),
                };
                (t, e, v)
            }
            12 | 13 => {
                // temporal values into every temporal column
                let t = *rng.pick(&[ColumnType::MYSQL_TYPE_DATE, ColumnType::MYSQL_TYPE_DATETIME, ColumnType::MYSQL_TYPE_TIMESTAMP, ColumnType::MYSQL_TYPE_TIME, ColumnType::MYSQL_TYPE_NEWDATE, ColumnType::MYSQL_TYPE_DATETIME2, ColumnType::MYSQL_TYPE_TIMESTAMP2, ColumnType::MYSQL_TYPE_TIME2]);
                let v = match rng.below(4) {
                    0 => V::Date(gen_date(rng)),
                    1 => V::DateTime(gen_datetime(rng)),
                    2 => {
                        let d = gen_dur(rng);
                        V::Dur(Duration::new(d.as_secs() % (35 * 86_400), d.subsec_nanos() / 1000 * 1000))
                    }
                    _ => {
                        // a datetime at midnight: a DATE column could carry it exactly
                        let d = gen_date(rng);
                        V::DateTime(d.and_hms_opt(0, 0, 0).unwrap())
                    }
                };
                (t, e, v)
            }
            8 | 9 | 10 => {
                // a native integer of any width into an integer column of any width and signedness:
                // exact if accepted (what must be accepted is C15's clause)
                let ci = rng.usize(6);
                let t = [ColumnType::MYSQL_TYPE_TINY, ColumnType::MYSQL_TYPE_SHORT, ColumnType::MYSQL_TYPE_YEAR, ColumnType::MYSQL_TYPE_INT24, ColumnType::MYSQL_TYPE_LONG, ColumnType::MYSQL_TYPE_LONGLONG][ci];
                let v = match rng.below(10) {
                    0 => V::I8(edge_int(rng, i8::MIN as i128, i8::MAX as i128) as i8),
                    1 => V::I16(edge_int(rng, i16::MIN as i128, i16::MAX as i128) as i16),
                    2 | 3 => V::I32(edge_int(rng, i32::MIN as i128, i32::MAX as i128) as i32),
                    4 => V::I64(edge_int(rng, i64::MIN as i128, i64::MAX as i128) as i64),
                    5 => V::Isize(edge_int(rng, i64::MIN as i128, i64::MAX as i128) as isize),
                    6 => V::U8(edge_int(rng, 0, u8::MAX as i128) as u8),
                    7 => V::U16(edge_int(rng, 0, u16::MAX as i128) as u16),
                    8 => V::U32(edge_int(rng, 0, u32::MAX as i128) as u32),
                    _ => V::U64(edge_int(rng, 0, u64::MAX as i128) as u64),
                };
                (t, if rng.bool() { e } else { u }, v)
            }
            0 | 1 => {
                let d = gen_datetime(rng);
                let m = MV::Date(d.year() as u16, d.month() as u8, d.day() as u8, d.hour() as u8, d.minute() as u8, d.second() as u8, d.nanosecond() / 1000);
                (*rng.pick(&[ColumnType::MYSQL_TYPE_DATETIME, ColumnType::MYSQL_TYPE_TIMESTAMP, ColumnType::MYSQL_TYPE_DATE]), e, V::Myc(m))
            }
            2 => {
                // not a calendar date: must be refused or arrive exactly, never as another date
                let m = MV::Date(2021, *rng.pick(&[0u8, 2, 13]), *rng.pick(&[0u8, 30, 31, 32]), 25, 61, 61, 0);
                (ColumnType::MYSQL_TYPE_DATETIME, e, V::Myc(m))
            }
            3 | 4 => {
                let d = gen_dur(rng);
                let s = d.as_secs() % (35 * 86_400);
                let m = MV::Time(rng.chance(1, 6), (s / 86_400) as u32, (s % 86_400 / 3600) as u8, (s % 3600 / 60) as u8, (s % 60) as u8, d.subsec_micros());
                (ColumnType::MYSQL_TYPE_TIME, e, V::Myc(m))
            }
            5 | 14 | 15 => {
                let ci = rng.usize(6);
                let t = [ColumnType::MYSQL_TYPE_TINY, ColumnType::MYSQL_TYPE_SHORT, ColumnType::MYSQL_TYPE_YEAR, ColumnType::MYSQL_TYPE_INT24, ColumnType::MYSQL_TYPE_LONG, ColumnType::MYSQL_TYPE_LONGLONG][ci];
                // half of the generic integers lie in the band just above a signed width's range
                // (2^7..2^8, 2^15..2^16, 2^23..2^24, 2^31..2^32, or the negative counterpart): where a
                // width-selection cascade with one wrong bound would wrap them
                let n = if rng.bool() {
                    let k = *rng.pick(&[7u32, 15, 23, 31]);
                    let m = (1i64 << k) + (rng.next() % (1u64 << k)) as i64;
                    if rng.chance(1, 3) { -m - 1 } else { m }
                } else {
                    edge_int(rng, i64::MIN as i128, i64::MAX as i128) as i64
                };
                (t, if rng.bool() { e } else { u }, V::Myc(MV::Int(n)))
            }
            6 => (ColumnType::MYSQL_TYPE_LONGLONG, if rng.bool() { e } else { u }, V::Myc(MV::UInt(edge_int(rng, 0, u64::MAX as i128) as u64))),
            _ => (ColumnType::MYSQL_TYPE_DOUBLE, e, V::Myc(MV::Float(gen_f32(rng)))),
        };
        let col = Column { table: "t".into(), column: "c".into(), coltype: ct, colflags: fl };
        let cell = Cell { v: v.clone(), form: if rng.bool() { Form::Val } else { Form::Ref } };
        let ops = vec![QOp::Start(0), QOp::Col(cell), QOp::EndRow, QOp::Finish];
        let cmds = vec![Cmd::prepare(b"p"), Cmd::execute(1, &[], false)];
        let scripts = vec![Script::PrepOk { id: 1, params: vec![], cols: vec![col.clone()] }, Script::Q(QProg { colsets: vec![vec![col.clone()]], ops, on_err: OnErr::Forget })];
        let obs = run_case(&varied_case(rng, cmds, scripts));
        rep.evaluations += 1;
        if harness_panic(&obs, rep) {
            return;
        }
        let d = || J::obj().set("value", show_v(&v)).set("column", format!("{:?} flags 0x{:x}", ct, fl.bits())).set("outcome", obs.outcome.describe());
        if i == 0 {
            rep.sample(d());
        }
        let accepted = obs.log.cbs.iter().any(|c| c.results.iter().any(|r| r.op == "col" && r.err.is_none()));
        rep.counters.class(format!("may: {} -> {:?} {}", vname(&v), ct, if accepted { "accepted" } else { "refused" }));
        if !accepted {
            // a refusal may be an Err or a loud assert/expect; both are refusals, neither alters data
            rep.counters.inc("may_pairs_refused");
            return;
        }
        if let Ok((_, _, dec)) = decode_output(&obs) {
            if let Some(Resp::Parts(parts)) = dec.resps.get(3) {
                if let Some(Part::Rows { rows, .. }) = parts.first() {
                    if let Some(Ok(vals)) = rows.first().map(|r| wire::decode_bin_row(r, &[(ct as u8, fl.bits())])) {
                        rep.counters.inc("may_pairs_accepted_and_compared");
                        if !bin_matches(&vals[0], &sem_of(&v), ct as u8) {
                            rep.violations.push(viol("C07", format!("C07 accepted-but-altered {} -> {:?}", vname(&v), ct), format!("{} was accepted for a {:?} column and a client decodes {:?}", show_v(&v), ct, vals[0]), d()));
                        }
                        return;
                    }
                }
            }
        }
        if !obs.outcome.is_err() && !matches!(obs.outcome, Outcome::Panic { .. }) {
            rep.violations.push(viol("C07", format!("C07 accepted-but-undecodable {} -> {:?}", vname(&v), ct), format!("{} was accepted for a {:?} column but the row does not decode", show_v(&v), ct), d()));
        }
    });
    rep.merge(r);
    rep.merge(submicro_group(ctx, "C07", true));
    rep.merge(sized_rows_group(ctx, "C07", true));
    if ctx.strict() {
        rep.require("submicro_cells_compared", 100);
        rep.require("may_pairs_accepted_and_compared", 100);
        rep.require("cells_compared", 10_000);
        rep.require("null_cells_compared", 1000);
        rep.require("refusals_observed", 100);
        rep.require("rows_cross_checked", 100);
    }
    // ---- backends that go on after a refused writer call (props/recover.rs): the cells that were
    //      accepted arrive with their values and NULL bits (binary rows)
    rep.merge(super::recover::group(ctx, "C07", super::recover::Clause::Values, Some(true), 1500, 30_000));
    rep
}
