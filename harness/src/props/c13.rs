//! C13 — errors reach the client with the exact code, SQLSTATE and message.
use super::common::*;
use crate::core::*;
use crate::second;
use crate::shim::*;
use crate::util::*;
use crate::wire::{self, Part, Resp, RowsEnd};
use msql_srv::{ColumnType, ErrorKind};

const FACTS: &str = include_str!("../../data/sqlstate_facts.tsv");
const SNAPSHOT: &str = include_str!("../../data/sqlstate_snapshot.tsv");
const MYSQL24: &str = include_str!("../../data/mysql24_server_errors.tsv");

/// (name, code) of every defined kind, re-read from the tree under test on every run.
pub fn defined_kinds() -> Result<Vec<(String, u16)>, String> {
    let repo = std::env::var("VMON_REPO").unwrap_or_else(|_| "/repo".into());
    let path = format!("{}/src/errorcodes.rs", repo);
    let s = std::fs::read_to_string(&path).map_err(|e| format!("{}: {}", path, e))?;
    let a = s.find("\npub enum ErrorKind {").ok_or("enum ErrorKind not found")?;
    let b = s[a..].find("\n}\n").ok_or("end of enum not found")? + a;
    let mut out = Vec::new();
    for line in s[a..b].lines() {
        let l = line.trim();
        if l.starts_with("//") || l.starts_with('#') {
            continue;
        }
        if let Some((name, rest)) = l.split_once(" = ") {
            if let Ok(code) = rest.trim_end_matches(',').trim().parse::<u16>() {
                if name.chars().all(|c| c.is_ascii_uppercase() || c.is_ascii_digit() || c == '_') {
                    out.push((name.to_string(), code));
                }
            }
        }
    }
    if out.len() < 100 {
        return Err(format!("only {} error kinds parsed from {}", out.len(), path));
    }
    Ok(out)
}

fn messages(rng: &mut Rng) -> Vec<u8> {
    match rng.below(8) {
        0 => vec![],
        1 => b"x".to_vec(),
        2 => {
            let mut v = Vec::new();
            stream_fill(&mut v, rng.next(), 1, 70_000, false);
            v
        }
        3 => vec![0xFF, 0xFE, 0x80, 0xC3],
        4 => b"has # hash #42S02 inside".to_vec(),
        5 => b"nul\0inside\0".to_vec(),
        6 => vec![0xFF; 5],
        _ => {
            let n = rng.range(1, 300) as usize;
            rng.bytes(n)
        }
    }
}

pub fn run(ctx: &Ctx) -> Report {
    let mut rep = Report::default();
    rep.rule = "cases = (defined error kind, reporting site, message) triples driven through the real server; a class is an (error kind, reporting site) pair; non-trivial = an ERR packet was decoded by the reference decoder (and mysql_common's) and compared field by field; plus code<->kind round trips and independent name/code and code/SQLSTATE facts".into();
    let kinds = match defined_kinds() {
        Ok(k) => k,
        Err(e) => {
            rep.inconclusive.push(format!("cannot read the error kinds of the tree under test: {}", e));
            return rep;
        }
    };
    rep.notes.push(format!("{} error kinds read from src/errorcodes.rs", kinds.len()));
    // ---- API-level: round trips and independent facts (cheap, single thread)
    let mut seen_codes = std::collections::BTreeMap::new();
    for (name, code) in &kinds {
        rep.evaluations += 1;
        let k = ErrorKind::from(*code);
        rep.counters.inc("code_kind_round_trips");
        if k as u16 != *code || format!("{:?}", k) != *name {
            rep.violations.push(viol("C13", format!("C13 roundtrip {}", name), format!("ErrorKind::from({}) is {:?} (code {}), but {} is defined as {}", code, k, k as u16, name, code), J::obj().set("kind", name.clone()).set("code", *code)));
        }
        if let Some(prev) = seen_codes.insert(*code, name.clone()) {
            rep.notes.push(format!("code {} is shared by {} and {}", code, prev, name));
        }
        let st = k.sqlstate();
        if !st.iter().all(|c| c.is_ascii_uppercase() || c.is_ascii_digit()) {
            rep.violations.push(viol("C13", format!("C13 sqlstate-charset {}", name), format!("{}.sqlstate() = {:?} is not five characters of [0-9A-Z]", name, show(st)), J::obj().set("kind", name.clone())));
        }
    }
    let by_name: std::collections::BTreeMap<&str, u16> = kinds.iter().map(|(n, c)| (n.as_str(), *c)).collect();
    for l in MYSQL24.lines() {
        if let Some((n, c)) = l.split_once('\t') {
            if let (Some(mine), Ok(theirs)) = (by_name.get(n), c.trim().parse::<u16>()) {
                rep.counters.inc("independent_name_code_facts_checked");
                if *mine != theirs {
                    rep.violations.push(viol("C13", format!("C13 code-differs {}", n), format!("{} has code {} here but {} in the mysql client crate's server-error table", n, mine, theirs), J::obj().set("kind", n)));
                }
            }
        }
    }
    for l in FACTS.lines() {
        let f: Vec<&str> = l.split('\t').collect();
        if f.len() == 3 {
            let code: u16 = f[0].parse().unwrap_or(0);
            let k = ErrorKind::from(code);
            rep.counters.inc("independent_sqlstate_facts_checked");
            if k as u16 == code && k.sqlstate() != f[2].as_bytes() {
                rep.violations.push(viol("C13", format!("C13 sqlstate-fact {}", f[1]), format!("{} ({}) reports SQLSTATE {} but the MySQL manual says {}", f[1], code, show(k.sqlstate()), f[2]), J::obj().set("kind", f[1])));
            }
        }
    }
    let mut drift = 0;
    for l in SNAPSHOT.lines() {
        let f: Vec<&str> = l.split('\t').collect();
        if f.len() == 3 {
            let code: u16 = f[0].parse().unwrap_or(0);
            let k = ErrorKind::from(code);
            if k as u16 == code && k.sqlstate() != f[2].as_bytes() {
                drift += 1;
                if drift <= 5 {
                    rep.notes.push(format!("SQLSTATE drift (reported only): {} was {} in the snapshot, is {}", f[1], f[2], show(k.sqlstate())));
                }
            }
        }
    }
    rep.counters.add("sqlstate_snapshot_drift", drift);

    // ---- wire-level: every kind x reporting site
    let sites = 14u64;
    let n = if ctx.miri { 4 } else { kinds.len() as u64 * sites };
    let kinds_ref = &kinds;
    let r = par_cases(ctx, "C13", "wire", n, |rng, i, rep| {
        let (name, code) = &kinds_ref[(i / sites) as usize % kinds_ref.len()];
        let site = i % sites;
        let code = *code;
        let msg = messages(rng);
        let cols = vec![simple_col("a", ColumnType::MYSQL_TYPE_LONG)];
        let row = |k: i32| QOp::Row(vec![Cell::val(V::I32(k))], RowForm::Owned);
        let mut cmds = vec![Cmd::prepare(b"p")];
        let mut scripts = vec![Script::PrepOk { id: 1, params: vec![], cols: cols.clone() }];
        let q = |ops: Vec<QOp>| Script::Q(QProg { colsets: vec![cols.clone()], ops, on_err: OnErr::Drop });
        let site_name;
        // index of the ERR-carrying exchange among reply-expecting commands (after prepare)
        match site {
            0 => {
                site_name = "on_query error";
                cmds.push(Cmd::query(b"q"));
                scripts.push(q(vec![QOp::Error(code, msg.clone())]));
            }
            1 | 2 | 3 => {
                let rows = [0, 1, 3][site as usize - 1];
                site_name = ["finish_error after 0 rows (text)", "finish_error after 1 row (text)", "finish_error after 3 rows (text)"][site as usize - 1];
                cmds.push(Cmd::query(b"q"));
                let mut ops = vec![QOp::Start(0)];
                for k in 0..rows {
                    ops.push(row(k));
                }
                ops.push(QOp::FinishErr(code, msg.clone()));
                scripts.push(q(ops));
            }
            4 | 5 => {
                let rows = [0, 2][site as usize - 4];
                site_name = ["finish_error after 0 rows (binary)", "finish_error after 2 rows (binary)"][site as usize - 4];
                cmds.push(Cmd::execute(1, &[], false));
                let mut ops = vec![QOp::Start(0)];
                for k in 0..rows {
                    ops.push(row(k));
                }
                ops.push(QOp::FinishErr(code, msg.clone()));
                scripts.push(q(ops));
            }
            6 => {
                site_name = "error after a completed set in a chain";
                cmds.push(Cmd::query(b"q"));
                scripts.push(q(vec![QOp::Start(0), row(1), QOp::FinishOne, QOp::CompleteOne(3, 4), QOp::Error(code, msg.clone())]));
            }
            7 => {
                site_name = "prepare error";
                cmds.push(Cmd::prepare(b"bad"));
                scripts.push(Script::PrepErr(code, msg.clone()));
            }
            8 => {
                site_name = "init error via COM_INIT_DB";
                cmds.push(Cmd::init_db(b"db"));
                scripts.push(Script::InitErr(code, msg.clone()));
            }
            10 | 11 => {
                let bin = site == 11;
                site_name = if bin { "finish_error with an un-ended row (binary)" } else { "finish_error with an un-ended row (text)" };
                cmds.push(if bin { Cmd::execute(1, &[], false) } else { Cmd::query(b"q") });
                scripts.push(q(vec![QOp::Start(0), row(1), QOp::Col(Cell::val(V::I32(2))), QOp::FinishErr(code, msg.clone())]));
            }
            12 | 13 => {
                let bin = site == 13;
                site_name = if bin { "finish_error on a zero-column resultset with 2 rows (binary)" } else { "finish_error on a zero-column resultset (text)" };
                cmds.push(if bin { Cmd::execute(1, &[], false) } else { Cmd::query(b"q") });
                let mut ops = vec![QOp::Start(1)];
                if bin {
                    ops.push(QOp::EndRow);
                    ops.push(QOp::Row(vec![], RowForm::Owned));
                }
                ops.push(QOp::FinishErr(code, msg.clone()));
                scripts.push(Script::Q(QProg { colsets: vec![cols.clone(), vec![]], ops, on_err: OnErr::Drop }));
            }
            _ => {
                site_name = "init error via USE";
                cmds.push(Cmd::query(b"USE db"));
                scripts.push(Script::InitErr(code, msg.clone()));
            }
        }
        cmds.push(Cmd::ping());
        let mut case = Case::new(cmds, scripts);
        vary_transport(rng, &mut case);
        let obs = run_case(&case);
        rep.evaluations += 1;
        rep.counters.class(format!("{} @ {}", name, site_name));
        if harness_panic(&obs, rep) {
            return;
        }
        let d = || J::obj().set("kind", name.clone()).set("code", code).set("site", site_name).set("message", show(&msg)).set("outcome", obs.outcome.describe());
        if i < 2 {
            rep.sample(d());
        }
        let (_, msgs, dec) = match decode_output(&obs) {
            Ok(x) => x,
            Err(e) => {
                rep.violations.push(viol("C13", "C13 bad-framing".into(), e, d()));
                return;
            }
        };
        if dec.stop.is_some() || dec.resps.len() < 4 {
            rep.violations.push(viol("C13", "C13 undecodable-response".into(), format!("response carrying the error does not decode: {:?}", dec.stop), d()));
            return;
        }
        // find the ERR packet in the third response (greeting, auth, prepare, X)
        let errp = match &dec.resps[3] {
            Resp::Parts(parts) => match parts.last() {
                Some(Part::Err(e)) => Some(e.clone()),
                Some(Part::Rows { end: RowsEnd::Err(e), .. }) => Some(e.clone()),
                _ => None,
            },
            Resp::PrepareErr(e) => Some(e.clone()),
            Resp::Simple(Part::Err(e)) => Some(e.clone()),
            _ => None,
        };
        // the error is the statement's reply, not something behind a success: the response has exactly
        // the parts the program denotes (one, except for the chained site)
        if let Resp::Parts(parts) = &dec.resps[3] {
            let want_parts = if site == 6 { 3 } else { 1 };
            if parts.len() != want_parts {
                rep.violations.push(viol("C13", format!("C13 err-not-alone @ {}", site_name), format!("the response has {} parts, the program denotes {}: {:?}", parts.len(), want_parts, parts.iter().map(|p| match p { Part::Ok(_) => "OK", Part::Err(_) => "ERR", Part::Rows { .. } => "resultset" }).collect::<Vec<_>>()), d()));
                return;
            }
        }
        let Some(e) = errp else {
            rep.violations.push(viol("C13", format!("C13 no-err-packet @ {}", site_name), format!("no ERR packet in the response: {:?}", dec.resps[3]).chars().take(300).collect(), d()));
            return;
        };
        let kind = ErrorKind::from(code);
        let want_state = *kind.sqlstate();
        if e.code != code || e.state != want_state || e.msg != msg {
            let which = if e.code != code { "code" } else if e.state != want_state { "sqlstate" } else { "message" };
            rep.violations.push(viol(
                "C13",
                format!("C13 err-{}-differs @ {}", which, site_name),
                format!("ERR packet carries ({}, {}, {}) but the shim reported ({}, {}, {})", e.code, show(&e.state), show(&e.msg), code, show(&want_state), show(&msg)),
                d(),
            ));
            return;
        }
        rep.counters.inc("err_packets_compared");
        // second opinion on the raw ERR message
        let span = dec.spans[3];
        if let Some(raw) = msgs[span.0..span.1].iter().rev().find(|m| wire::is_err(&m.payload)) {
            match second::err(&raw.payload) {
                Ok((c, s, m)) => {
                    if (c, s, &m) != (e.code, e.state, &e.msg) {
                        rep.inconclusive.push("wire and mysql_common disagree on an ERR packet".into());
                    } else {
                        rep.counters.inc("err_packets_cross_checked");
                    }
                }
                Err(x) => {
                    rep.violations.push(viol("C13", "C13 err-rejected-by-client-parser".into(), format!("mysql_common's ErrPacket parser rejects the ERR packet: {}", x), d()));
                }
            }
        }
    });
    rep.merge(r);
    // ---- the backend reports an error to the client and then gives up on the connection (its callback
    //      returns Err right after `error()` / `finish_error()`): the ERR it reported was handed over
    //      before, so it reaches the client whatever happens to the connection afterwards - over
    //      plaintext and, half of the time, over a TLS upgrade (where "handed over" has to get through
    //      the TLS layer's own buffers)
    let n = if ctx.miri { 2 } else { ctx.n(600, 20_000) };
    let r = par_cases(ctx, "C13", "error-then-the-backend-gives-up", n, |rng, i, rep| {
        let (name, code) = &kinds_ref[rng.usize(kinds_ref.len())];
        let code = *code;
        let msg = messages(rng);
        let cols = vec![simple_col("a", ColumnType::MYSQL_TYPE_LONG)];
        let row = |k: i32| QOp::Row(vec![Cell::val(V::I32(k))], RowForm::Owned);
        let q = |ops: Vec<QOp>| Script::Q(QProg { colsets: vec![cols.clone()], ops, on_err: OnErr::Drop });
        let mut cmds = vec![Cmd::prepare(b"p"), Cmd::ping()];
        let mut scripts = vec![Script::PrepOk { id: 1, params: vec![], cols: cols.clone() }];
        let token = 900 + i;
        let site = i % 4;
        let site_name = ["error() then Err, COM_QUERY", "a row, finish_error() then Err, COM_QUERY", "error() then Err, COM_STMT_EXECUTE", "two rows, finish_error() then Err, COM_STMT_EXECUTE"][site as usize];
        let ops = match site {
            0 | 2 => vec![QOp::Error(code, msg.clone()), QOp::Bail(token)],
            1 => vec![QOp::Start(0), row(1), QOp::FinishErr(code, msg.clone()), QOp::Bail(token)],
            _ => vec![QOp::Start(0), row(1), row(2), QOp::FinishErr(code, msg.clone()), QOp::Bail(token)],
        };
        if site < 2 {
            cmds.push(Cmd::query(b"q"));
        } else {
            cmds.push(Cmd::execute(1, &[], false));
        }
        scripts.push(q(ops));
        // behind it, commands that are never served
        if rng.bool() {
            cmds.push(Cmd::ping());
        }
        let mut case = Case::new(cmds, scripts);
        vary_transport(rng, &mut case);
        case.over_tls = i % 2 == 1;
        let obs = run_case(&case);
        rep.evaluations += 1;
        rep.counters.class(format!("gives up after the error: {}{}", site_name, if case.over_tls { ", TLS" } else { "" }));
        if harness_panic(&obs, rep) {
            return;
        }
        let d = || J::obj().set("kind", name.clone()).set("code", code).set("site", site_name).set("message", show(&msg)).set("over_tls", case.over_tls).set("outcome", obs.outcome.describe());
        if i < 2 {
            rep.sample(d());
        }
        if obs.outcome != Outcome::Token(token) {
            // another ending (a panic, an Ok, a transport error): not this group's clause
            if let Outcome::Panic { file, line, msg } = &obs.outcome {
                rep.violations.push(viol("C13", format!("C13 {}", panic_signature(file, *line, msg)), format!("panic while an error was being reported: {}", obs.outcome.describe()), d()));
            } else {
                rep.violations.push(viol("C13", "C13 backend-error-not-returned".into(), format!("the callback returned its own error {} but run_on returned {}", token, obs.outcome.describe()), d()));
            }
            return;
        }
        let (_, _, dec) = match decode_output(&obs) {
            Ok(x) => x,
            Err(e) => {
                rep.violations.push(viol("C13", "C13 bad-framing".into(), e, d()));
                return;
            }
        };
        // greeting, auth, prepare, ping, then the reply that carries the error
        let errp = match dec.resps.get(4) {
            Some(Resp::Parts(parts)) => match parts.last() {
                Some(Part::Err(e)) => Some(e.clone()),
                Some(Part::Rows { end: RowsEnd::Err(e), .. }) => Some(e.clone()),
                _ => None,
            },
            _ => None,
        };
        let Some(e) = errp else {
            rep.violations.push(viol("C13", format!("C13 reported-error-never-arrived @ {}", site_name), format!("the backend reported ({}, {}) and then ended the connection; the client received {} complete replies and no ERR packet for it (decoder stopped at: {:?})", code, show(&msg), dec.resps.len(), dec.stop), d()));
            return;
        };
        let want_state = *ErrorKind::from(code).sqlstate();
        if e.code != code || e.state != want_state || e.msg != msg {
            rep.violations.push(viol("C13", format!("C13 err-differs @ {}", site_name), format!("ERR packet carries ({}, {}, {}) but the shim reported ({}, {}, {})", e.code, show(&e.state), show(&e.msg), code, show(&want_state), show(&msg)), d()));
            return;
        }
        rep.counters.inc("err_packets_compared");
        rep.counters.inc("errors_that_arrived_although_the_backend_gave_up");
    });
    rep.merge(r);
    // ---- the client does not wait: the failing command and a COM_QUIT behind it arrive in one read (or in
    //      any other way), over a transport that hands bytes to the peer only when the server flushes.
    //      run_on returns Ok(()) - and by then the ERR has been flushed: an ERR that sits in a buffer of
    //      a connection that is over has not reached the client
    let n = if ctx.miri { 2 } else { ctx.n(600, 20_000) };
    let r = par_cases(ctx, "C13", "error-then-quit-without-waiting", n, |rng, i, rep| {
        let (name, code) = &kinds_ref[rng.usize(kinds_ref.len())];
        let code = *code;
        let msg = messages(rng);
        let cols = vec![simple_col("a", ColumnType::MYSQL_TYPE_LONG)];
        let q = |ops: Vec<QOp>| Script::Q(QProg { colsets: vec![cols.clone()], ops, on_err: OnErr::Drop });
        let mut cmds = vec![Cmd::prepare(b"p")];
        let mut scripts = vec![Script::PrepOk { id: 1, params: vec![], cols: cols.clone() }];
        let site = i % 5;
        let site_name = ["on_query error", "finish_error after a row (text)", "finish_error after a row (binary)", "prepare error", "init error"][site as usize];
        match site {
            0 => {
                cmds.push(Cmd::query(b"q"));
                scripts.push(q(vec![QOp::Error(code, msg.clone())]));
            }
            1 | 2 => {
                cmds.push(if site == 1 { Cmd::query(b"q") } else { Cmd::execute(1, &[], false) });
                scripts.push(q(vec![QOp::Start(0), QOp::Row(vec![Cell::val(V::I32(5))], RowForm::Owned), QOp::FinishErr(code, msg.clone())]));
            }
            3 => {
                cmds.push(Cmd::prepare(b"bad"));
                scripts.push(Script::PrepErr(code, msg.clone()));
            }
            _ => {
                cmds.push(Cmd::init_db(b"db"));
                scripts.push(Script::InitErr(code, msg.clone()));
            }
        }
        cmds.push(Cmd::quit());
        let mut case = Case::new(cmds, scripts);
        match i % 3 {
            0 => {}
            1 => {
                let (input, _) = case.input();
                let sk = *rng.pick(&[SchedKind::OneByte, SchedKind::HeaderCuts, SchedKind::Random, SchedKind::Boundaries]);
                case.sched = make_sched(rng, sk, &input);
            }
            _ => case.write_limit = *rng.pick(&[1usize, 7, 100, 4096]),
        }
        let obs = run_case(&case);
        rep.evaluations += 1;
        rep.counters.class(format!("error then QUIT without waiting: {}", site_name));
        if harness_panic(&obs, rep) {
            return;
        }
        let d = || J::obj().set("kind", name.clone()).set("code", code).set("site", site_name).set("message", show(&msg)).set("flushed_bytes", obs.world.visible.len()).set("written_but_never_flushed", obs.world.pending.len()).set("outcome", obs.outcome.describe());
        if i < 2 {
            rep.sample(d());
        }
        if obs.outcome != Outcome::Ok {
            let sig = if let Outcome::Panic { file, line, msg } = &obs.outcome { format!("C13 {}", panic_signature(file, *line, msg)) } else { "C13 quit-not-a-clean-end".into() };
            rep.violations.push(viol("C13", sig, format!("a conversation that ends with COM_QUIT behind an error made run_on return {}", obs.outcome.describe()), d()));
            return;
        }
        // what the client has: the flushed bytes only
        let (pkts, _) = wire::packets_prefix(&obs.world.visible);
        let (msgs, _) = wire::messages_prefix(&obs.world.visible, &pkts);
        let dec = wire::decode_all(&obs.kinds, &msgs);
        let errp = match dec.resps.get(3) {
            Some(Resp::Parts(parts)) => match parts.last() {
                Some(Part::Err(e)) => Some(e.clone()),
                Some(Part::Rows { end: RowsEnd::Err(e), .. }) => Some(e.clone()),
                _ => None,
            },
            Some(Resp::PrepareErr(e)) => Some(e.clone()),
            Some(Resp::Simple(Part::Err(e))) => Some(e.clone()),
            _ => None,
        };
        let Some(e) = errp else {
            rep.violations.push(viol("C13", format!("C13 reported-error-never-flushed @ {}", site_name), format!("run_on returned Ok(()) after COM_QUIT; the client has {} flushed bytes holding {} complete replies and no ERR for the failed command; {} bytes were written and never flushed", obs.world.visible.len(), dec.resps.len(), obs.world.pending.len()), d()));
            return;
        };
        let want_state = *ErrorKind::from(code).sqlstate();
        if e.code != code || e.state != want_state || e.msg != msg {
            rep.violations.push(viol("C13", format!("C13 err-differs @ {}", site_name), format!("ERR packet carries ({}, {}, {}) but the shim reported ({}, {}, {})", e.code, show(&e.state), show(&e.msg), code, show(&want_state), show(&msg)), d()));
            return;
        }
        rep.counters.inc("err_packets_compared");
        rep.counters.inc("errors_flushed_before_the_connection_ended_with_quit");
    });
    rep.merge(r);
    // ---- an error reported for the command that follows a reply of exactly 254..258 / 510..514 packets
    //      (anything that takes "the sequence id is where it started" for "nothing was sent" is wrong
    //      at 256 and 512): the ERR is that command's reply, with its own code, SQLSTATE and message
    let lens: Vec<usize> = if ctx.miri { vec![3] } else { vec![249, 250, 251, 252, 253, 254, 255, 505, 506, 507, 508, 509, 510] };
    let r = par_cases(ctx, "C13", "errors-behind-long-replies", lens.len() as u64 * 3, |rng, i, rep| {
        let nrows = lens[i as usize / 3];
        let (name, code) = &kinds_ref[rng.usize(kinds_ref.len())];
        let code = *code;
        let msg = messages(rng);
        let cols = vec![simple_col("a", ColumnType::MYSQL_TYPE_LONG)];
        let mut ops = vec![QOp::Start(0)];
        for k in 0..nrows {
            ops.push(QOp::Row(vec![Cell::val(V::I32(k as i32))], RowForm::Owned));
        }
        // the long reply itself ends with EOF, or with an error of its own
        let own_err = i % 3 == 2;
        if own_err {
            ops.push(QOp::FinishErr(1105, b"first".to_vec()));
        } else {
            ops.push(QOp::Finish);
        }
        let q = |ops: Vec<QOp>| Script::Q(QProg { colsets: vec![cols.clone()], ops, on_err: OnErr::Drop });
        let bin = i % 3 == 1;
        let mut cmds = vec![Cmd::prepare(b"p")];
        let mut scripts = vec![Script::PrepOk { id: 1, params: vec![], cols: cols.clone() }];
        cmds.push(if bin { Cmd::execute_plain(1, &[], false) } else { Cmd::query(b"long") });
        scripts.push(q(ops));
        cmds.push(Cmd::query(b"fails"));
        scripts.push(q(vec![QOp::Error(code, msg.clone())]));
        cmds.push(Cmd::ping());
        let mut case = Case::new(cmds, scripts);
        if rng.bool() {
            case.arrival = Arrival::Pipelined(1);
        }
        let obs = run_case(&case);
        rep.evaluations += 1;
        let packets = 1 + 1 + 1 + nrows + 1;
        rep.counters.class(format!("error behind a reply of {} packets", packets));
        if harness_panic(&obs, rep) {
            return;
        }
        let d = || J::obj().set("kind", name.clone()).set("code", code).set("message", show(&msg)).set("packets_of_the_reply_before", packets).set("outcome", obs.outcome.describe());
        let dec = match decode_output(&obs) {
            Ok(x) => x.2,
            Err(e) => {
                rep.violations.push(viol("C13", "C13 bad-framing".into(), e, d()));
                return;
            }
        };
        // greeting, auth, prepare, the long reply, then the failing query's reply
        let errp = match dec.resps.get(4) {
            Some(Resp::Parts(parts)) if parts.len() == 1 => match &parts[0] {
                Part::Err(e) => Some(e.clone()),
                _ => None,
            },
            _ => None,
        };
        let Some(e) = errp else {
            rep.violations.push(viol("C13", "C13 no-err-packet @ behind a long reply".into(), format!("the command behind a reply of {} packets was answered by {:?}, the shim reported ({}, {})", packets, dec.resps.get(4).map(|r| format!("{:?}", r).chars().take(160).collect::<String>()), code, show(&msg)), d()));
            return;
        };
        let want_state = *ErrorKind::from(code).sqlstate();
        if e.code != code || e.state != want_state || e.msg != msg {
            rep.violations.push(viol("C13", "C13 err-differs @ behind a long reply".into(), format!("ERR packet carries ({}, {}, {}) but the shim reported ({}, {}, {})", e.code, show(&e.state), show(&e.msg), code, show(&want_state), show(&msg)), d()));
            return;
        }
        rep.counters.inc("err_packets_compared");
        rep.counters.inc("errors_behind_long_replies_compared");
    });
    rep.merge(r);
    // ---- several errors on one connection: the same kind again and again, texts of the same length
    //      that differ in a few characters ("Unknown table 't7'" / "Unknown table 't8'"), formatted by
    //      the backend into one reused buffer (same address) - every ERR carries its own text
    let n = if ctx.miri { 2 } else { ctx.n(1500, 40_000) };
    let r = par_cases(ctx, "C13", "repeated-errors", n, |rng, i, rep| {
        let (name, code) = &kinds_ref[rng.usize(kinds_ref.len())];
        let code = *code;
        let other = kinds_ref[rng.usize(kinds_ref.len())].1;
        let base_len = *rng.pick(&[0usize, 1, 5, 17, 17, 40, 199, 200, 201]);
        let base = rng.ascii(base_len);
        let cols = vec![simple_col("a", ColumnType::MYSQL_TYPE_LONG)];
        let mut cmds = vec![Cmd::prepare(b"p")];
        let mut scripts = vec![Script::PrepOk { id: 1, params: vec![], cols: cols.clone() }];
        let q = |ops: Vec<QOp>| Script::Q(QProg { colsets: vec![cols.clone()], ops, on_err: OnErr::Drop });
        let mut want: Vec<Option<(u16, Vec<u8>)>> = vec![None];
        let nerr = rng.range(2, 6);
        for k in 0..nerr {
            // mostly the same kind and length as the error before, sometimes another kind or length
            let c = if rng.chance(1, 6) { other } else { code };
            let mut m = base.clone();
            if !m.is_empty() {
                let at = rng.usize(m.len());
                m[at] = b'0' + (k as u8 % 10);
            }
            if rng.chance(1, 8) {
                m.push(b'!');
            }
            match rng.below(6) {
                0 => {
                    cmds.push(Cmd::query(b"q"));
                    scripts.push(q(vec![QOp::Error(c, m.clone())]));
                }
                1 => {
                    cmds.push(Cmd::query(b"q"));
                    scripts.push(q(vec![QOp::Start(0), QOp::Row(vec![Cell::val(V::I32(1))], RowForm::Owned), QOp::FinishErr(c, m.clone())]));
                }
                2 => {
                    cmds.push(Cmd::execute(1, &[], false));
                    scripts.push(q(vec![QOp::Start(0), QOp::FinishErr(c, m.clone())]));
                }
                3 => {
                    cmds.push(Cmd::prepare(b"bad"));
                    scripts.push(Script::PrepErr(c, m.clone()));
                }
                4 => {
                    cmds.push(Cmd::init_db(b"db"));
                    scripts.push(Script::InitErr(c, m.clone()));
                }
                _ => {
                    cmds.push(Cmd::query(b"USE db"));
                    scripts.push(Script::InitErr(c, m.clone()));
                }
            }
            want.push(Some((c, m)));
            // replies without an error in between must not matter
            if rng.chance(1, 3) {
                cmds.push(Cmd::ping());
                want.push(None);
            }
        }
        let obs = run_case(&varied_case(rng, cmds, scripts));
        rep.evaluations += 1;
        if harness_panic(&obs, rep) {
            return;
        }
        rep.counters.class(format!("repeated errors: {} per connection, text of {}", nerr, len_class(base_len)));
        let d = || J::obj().set("kind", name.clone()).set("errors", want.iter().flatten().map(|(c, m)| J::s(format!("{} {:?}", c, show(m)))).collect::<Vec<_>>()).set("outcome", obs.outcome.describe());
        if i == 0 {
            rep.sample(d());
        }
        let dec = match decode_output(&obs) {
            Ok(x) => x.2,
            Err(e) => {
                rep.violations.push(viol("C13", "C13 bad-framing".into(), e, d()));
                return;
            }
        };
        for (k, w) in want.iter().enumerate() {
            let Some((c, m)) = w else { continue };
            let got = match dec.resps.get(2 + k) {
                Some(Resp::Parts(parts)) => match parts.last() {
                    Some(Part::Err(e)) => Some(e.clone()),
                    Some(Part::Rows { end: RowsEnd::Err(e), .. }) => Some(e.clone()),
                    _ => None,
                },
                Some(Resp::Simple(Part::Err(e))) | Some(Resp::PrepareErr(e)) => Some(e.clone()),
                _ => None,
            };
            rep.counters.inc("repeated_errors_compared");
            let kind = ErrorKind::from(*c);
            match got {
                Some(e) if e.code == *c && e.msg == *m && &e.state[..] == kind.sqlstate() => {}
                other => {
                    rep.violations.push(viol("C13", "C13 repeated-error-differs".into(), format!("error #{} of the connection was reported as ({}, {:?}); the client got {:?}", k, c, show(m), other.map(|e| format!("({}, {}, {:?})", e.code, show(&e.state), show(&e.msg)))), d()));
                    return;
                }
            }
        }
    });
    rep.merge(r);
    if ctx.strict() {
        rep.require("repeated_errors_compared", 1000);
    }

    // ---- finish_error after a refused value (props/recover.rs): the ERR carries what it was given
    rep.merge(super::recover::group(ctx, "C13", super::recover::Clause::ErrFields, None, 1500, 30_000));
    rep.merge(super::mega::run(ctx, "C13", 1500, 60000));
    if ctx.strict() {
        rep.require("err_packets_compared", 1000);
        rep.require("code_kind_round_trips", 800);
        rep.require("independent_sqlstate_facts_checked", 40);
        rep.require("independent_name_code_facts_checked", 600);
    }
    rep
}
