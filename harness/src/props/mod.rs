//! One module per property: workload + monitor + evidence.
use crate::core::{Ctx, Report};

pub mod common;
pub mod c01;
pub mod c02;
pub mod c03;
pub mod c04;
pub mod c05;
pub mod c08;
pub mod c11;
pub mod c12;
pub mod c15;
pub mod c18;
pub mod c19;
pub mod c20;
pub mod c13;
pub mod mega;
pub mod meta;
pub mod values;
pub mod stmt;
pub mod recover;

pub fn run(prop: &str, ctx: &Ctx) -> Option<Report> {
    Some(match prop {
        "C01" => c01::run(ctx),
        "C02" => c02::run(ctx),
        "C03" => c03::run(ctx),
        "C04" => c04::run(ctx),
        "C05" => c05::run(ctx),
        "C06" => values::run_c06(ctx),
        "C07" => values::run_c07(ctx),
        "C08" => c08::run(ctx),
        "C15" => c15::run(ctx),
        "C09" => meta::run_c09(ctx),
        "C13" => c13::run(ctx),
        "C14" => meta::run_c14(ctx),
        "C10" => stmt::run_c10(ctx),
        "C11" => c11::run(ctx),
        "C12" => c12::run(ctx),
        "C18" => c18::run(ctx),
        "C19" => c19::run(ctx),
        "C20" => c20::run(ctx),
        "C16" => stmt::run_c16(ctx),
        "C17" => stmt::run_c17(ctx),
        _ => return None,
    })
}
