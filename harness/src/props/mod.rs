//! One module per property: workload + monitor + evidence.
use crate::core::{Ctx, Report};

pub mod common;
pub mod c01;
pub mod c02;
pub mod c03;
pub mod c05;
pub mod c12;
pub mod stmt;

pub fn run(prop: &str, ctx: &Ctx) -> Option<Report> {
    Some(match prop {
        "C01" => c01::run(ctx),
        "C02" => c02::run(ctx),
        "C03" => c03::run(ctx),
        "C05" => c05::run(ctx),
        "C10" => stmt::run_c10(ctx),
        "C12" => c12::run(ctx),
        "C16" => stmt::run_c16(ctx),
        "C17" => stmt::run_c17(ctx),
        _ => return None,
    })
}
