//! One module per property: workload + monitor + evidence.
use crate::core::{Ctx, Report};

pub mod common;
pub mod c01;

pub fn run(prop: &str, ctx: &Ctx) -> Option<Report> {
    Some(match prop {
        "C01" => c01::run(ctx),
        _ => return None,
    })
}
