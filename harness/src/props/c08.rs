//! C08 — prepared-statement parameters are decoded to exactly what the client bound.
use super::common::*;
use crate::core::*;
use crate::model::{Exp, ExpCb, MCmd};
use crate::shim::*;
use crate::util::*;
use crate::wire::{self, PVal, Param};
use chrono::NaiveDate;
use std::time::Duration;

fn tname(t: u8) -> String {
    match t {
        wire::T_TINY => "TINY".into(),
        wire::T_SHORT => "SHORT".into(),
        wire::T_YEAR => "YEAR".into(),
        wire::T_INT24 => "INT24".into(),
        wire::T_LONG => "LONG".into(),
        wire::T_LONGLONG => "LONGLONG".into(),
        wire::T_FLOAT => "FLOAT".into(),
        wire::T_DOUBLE => "DOUBLE".into(),
        wire::T_DATE => "DATE".into(),
        wire::T_TIME => "TIME".into(),
        wire::T_DATETIME => "DATETIME".into(),
        wire::T_TIMESTAMP => "TIMESTAMP".into(),
        t if wire::is_stringish(t) => format!("STR(0x{:02x})", t),
        t => format!("0x{:02x}", t),
    }
}

/// What the conversion matching the bound type must yield.
fn expected_conv(p: &Param) -> Option<(&'static str, ConvVal)> {
    if p.typ == wire::T_NULL {
        return None;
    }
    let v = p.value.as_ref()?;
    match (p.typ, v) {
        (t, PVal::Int(i)) => {
            let name = match (wire::int_width(t)?, p.unsigned) {
                (1, true) => "u8",
                (1, false) => "i8",
                (2, true) => "u16",
                (2, false) => "i16",
                (4, true) => "u32",
                (4, false) => "i32",
                (8, true) => "u64",
                _ => "i64",
            };
            Some((name, ConvVal::I(*i)))
        }
        (_, PVal::F32(b)) => Some(("f32", ConvVal::F32(*b))),
        (_, PVal::F64(b)) => Some(("f64", ConvVal::F64(*b))),
        (_, PVal::Bytes(b)) => Some(("bytes", ConvVal::Bytes(b.clone()))),
        (wire::T_DATE, PVal::Temporal(b)) if b.len() == 4 => Some(("date", ConvVal::Date(NaiveDate::from_ymd_opt(u16::from_le_bytes([b[0], b[1]]) as i32, b[2] as u32, b[3] as u32)?))),
        (wire::T_DATETIME | wire::T_TIMESTAMP, PVal::Temporal(b)) if matches!(b.len(), 4 | 7 | 11) => {
            let d = NaiveDate::from_ymd_opt(u16::from_le_bytes([b[0], b[1]]) as i32, b[2] as u32, b[3] as u32)?;
            let (h, mi, s) = if b.len() >= 7 { (b[4] as u32, b[5] as u32, b[6] as u32) } else { (0, 0, 0) };
            let us = if b.len() == 11 { u32::from_le_bytes([b[7], b[8], b[9], b[10]]) } else { 0 };
            Some(("datetime", ConvVal::DateTime(d.and_hms_micro_opt(h, mi, s, us)?)))
        }
        (wire::T_TIME, PVal::Temporal(b)) if matches!(b.len(), 0 | 8 | 12) => {
            if b.is_empty() {
                return Some(("duration", ConvVal::Dur(Duration::from_secs(0))));
            }
            if b[0] != 0 {
                return None;
            }
            let days = u32::from_le_bytes([b[1], b[2], b[3], b[4]]) as u64;
            let secs = days * 86_400 + b[5] as u64 * 3600 + b[6] as u64 * 60 + b[7] as u64;
            let us = if b.len() == 12 { u32::from_le_bytes([b[8], b[9], b[10], b[11]]) } else { 0 };
            Some(("duration", ConvVal::Dur(Duration::new(secs, us * 1000))))
        }
        _ => None,
    }
}

pub fn run(ctx: &Ctx) -> Report {
    let mut rep = Report::default();
    rep.rule = "cases = executions with parameter counts {0,1,7,8,9,16,17,255,256,300,..}, NULL bitmaps none/all/alternating/single/random, every decodable type code x unsigned flag, integer bounds, every legal temporal length form, strings across lenenc classes; the shim records coltype, the raw value and the Rust conversion matching the bound type (under catch_unwind); a class is a (type, unsigned, length form / value class, NULL) tuple x parameter-count class; non-trivial = a parameter's type, raw value and conversion were compared with what the client encoded".into();
    let n = if ctx.miri { 40 } else { ctx.n(5000, 250_000) };
    let types = param_types();
    let r = par_cases(ctx, "C08", "exec", n, |rng, i, rep| {
        let counts: &[usize] = &[0, 1, 7, 8, 9, 16, 17, 255, 256, 300];
        // (one case per run has as many parameters as the protocol's 16-bit count can say)
        let np = if !ctx.miri && i == 5 { 65_535 } else if ctx.miri { 3 } else if rng.chance(1, 8) { *rng.pick(counts) } else if rng.chance(1, 3) { *rng.pick(&[0usize, 1, 7, 8, 9, 16, 17]) } else { rng.range(1, 12) as usize };
        let null_mode = rng.below(6);
        let single = rng.usize(np.max(1));
        // systematic sweep over (type, unsigned) by case index, random for the rest
        let lead = (types[(i as usize) % types.len()], (i as usize / types.len()) % 2 == 1);
        let params: Vec<Param> = (0..np)
            .map(|k| {
                let (t, u) = if k == 0 { lead } else { (*rng.pick(&types), rng.bool()) };
                let null = match null_mode {
                    0 => false,
                    1 => true,
                    2 => k % 2 == 0,
                    3 => k == single,
                    4 => k != single,
                    _ => rng.chance(1, 4),
                };
                gen_param_of(rng, t, u, null)
            })
            .collect();
        // the statement's id is the backend's choice (any u32, the edges included), and it need not be
        // the statement prepared last: in a third of the cases another statement, with another
        // parameter list, is prepared between this one's PREPARE and its EXECUTE
        let sid = if rng.chance(1, 3) { *rng.pick(&[0u32, 1, u32::MAX, u32::MAX - 1, 0x8000_0000, 0x7FFF_FFFF, 0x00FF_FFFF, 0x0100_0000]) } else { 0x0A0B_0C0D };
        let mut cv = Conv::default();
        cv.push(MCmd::Prepare(b"p".to_vec()), Some(Script::PrepOk { id: sid, params: param_cols(np), cols: vec![] }));
        if rng.chance(1, 3) {
            let other = if sid == 7 { 8 } else { 7 };
            cv.push(MCmd::Prepare(b"another".to_vec()), Some(Script::PrepOk { id: other, params: param_cols(rng.range(0, 3) as usize), cols: vec![] }));
            rep.counters.inc("executions_of_a_statement_that_was_not_prepared_last");
        }
        cv.push(MCmd::Execute { id: sid, params: params.clone(), send_types: true }, None);
        let mut case = cv.case();
        vary_transport(rng, &mut case);
        case.conv = true;
        let obs = run_case(&case);
        rep.evaluations += 1;
        if harness_panic(&obs, rep) {
            return;
        }
        let cc = match np {
            0 => "0",
            1..=7 => "1-7",
            8 => "8",
            9..=16 => "9-16",
            17..=254 => "17-254",
            255 => "255",
            256 => "256",
            _ => ">256",
        };
        rep.counters.class(format!("param count {}", cc));
        if np > 8 {
            rep.counters.inc("second_bitmap_byte_cases");
        }
        for p in params.iter().take(6) {
            let vc = match &p.value {
                None => "NULL".to_string(),
                Some(PVal::Temporal(b)) => format!("len={}", b.len()),
                Some(PVal::Bytes(b)) => format!("len {}", len_class(b.len())),
                Some(PVal::Int(v)) => (if *v < 0 { "neg" } else { "nonneg" }).into(),
                _ => "float".into(),
            };
            rep.counters.class(format!("{}{} {}", tname(p.typ), if p.unsigned { " unsigned" } else { "" }, vc));
        }
        let d = || {
            J::obj()
                .set("param_count", np)
                .set("null_pattern", ["none", "all", "alternating", "single", "all-but-one", "random"][null_mode as usize])
                .set("first_params", params.iter().take(4).map(|p| J::s(format!("{}{} {:?}", tname(p.typ), if p.unsigned { " unsigned" } else { "" }, p.value).chars().take(100).collect::<String>())).collect::<Vec<_>>())
                .set("outcome", obs.outcome.describe())
        };
        if i < 2 {
            rep.sample(d());
        }
        let viols = routing_violations(&obs, &cv);
        for (sig, what) in &viols {
            let sig = if let Outcome::Panic { file, line, msg } = &obs.outcome { format!("C08 {} via {}", sig, panic_signature(file, *line, msg)) } else { format!("C08 {}", sig) };
            rep.violations.push(viol("C08", sig, what.clone(), d()));
        }
        if !viols.is_empty() {
            return;
        }
        rep.counters.add("parameters_compared", np as u64);
        // conversions
        let Some(CbKind::Execute { params: got, .. }) = obs.log.cbs.iter().map(|c| &c.kind).find(|k| matches!(k, CbKind::Execute { .. })) else { return };
        for (k, (p, g)) in params.iter().zip(got.iter()).enumerate() {
            if let (Some(PVal::Bytes(b)), true) = (&p.value, p.typ != wire::T_NULL) {
                if let (Ok(s), Some((_, res))) = (std::str::from_utf8(b), g.conv.iter().find(|(n, _)| *n == "str")) {
                    if *res != Ok(ConvVal::Str(s.to_string())) {
                        rep.violations.push(viol("C08", format!("C08 conv {} -> str differs", tname(p.typ)), format!("parameter {}: <&str>::from(value) = {:?}, the client sent {}", k, res, show(b)), d()));
                        return;
                    }
                    rep.counters.inc("conversions_compared");
                }
            }
            let Some((name, want)) = expected_conv(p) else { continue };
            let Some((_, res)) = g.conv.iter().find(|(n, _)| *n == name) else {
                rep.inconclusive.push(format!("conversion {} was not attempted for a {} parameter", name, tname(p.typ)));
                continue;
            };
            let form = match &p.value {
                Some(PVal::Temporal(b)) => format!(" len={}", b.len()),
                _ => String::new(),
            };
            match res {
                Ok(v) if *v == want => rep.counters.inc("conversions_compared"),
                Ok(v) => {
                    rep.violations.push(viol("C08", format!("C08 conv {}{} -> {} differs", tname(p.typ), form, name), format!("parameter {}: {}::from(value) = {:?}, but the client encoded {:?}", k, name, v, want), d()));
                    return;
                }
                Err(msg) => {
                    rep.violations.push(viol("C08", format!("C08 conv {}{} -> {} panic", tname(p.typ), form, name), format!("parameter {}: {}::from(value) panicked ({}) for a legal {} value {:?}", k, name, trunc(msg, 100), tname(p.typ), p.value), d()));
                    return;
                }
            }
        }
    });
    rep.merge(r);
    rep.merge(super::mega::run(ctx, "C08", 1500, 60000));
    if ctx.strict() {
        rep.require("parameters_compared", 10_000);
        rep.require("conversions_compared", 5000);
        rep.require("second_bitmap_byte_cases", 100);
    }
    let _ = (Exp::Builtin, ExpCb::Close(0));
    rep
}
