//! A shared "everything at once" workload: long model-driven conversations that mix every command
//! kind, re-prepares, rebinding / reusing / long-data executions, chained responses with zero-column
//! sets, errors, repeated resultset headers that differ only in flag bits, built-ins and no-reply
//! commands, under random read schedules, arrival modes and write limits. Every property whose
//! clause is observable on such a conversation runs it with its OWN monitor (attribution stays with
//! the property; the signature carries the `mega` tag). Histories are where independently seeded
//! changes hid most often (DESIGN.md section 11), so the cross product is worth its few seconds.
use super::common::*;
use crate::core::*;
use crate::model::{Exp, MCmd};
use crate::shim::*;
use crate::transport::Fault;
use crate::util::*;
use crate::wire::{self, Kind, PVal, Param, Part, Resp, RowsEnd};
use msql_srv::{Column, ColumnFlags, ColumnType};

#[derive(Clone, Debug)]
pub enum ExpPart {
    Ok(u64, u64),
    Err(u16, Vec<u8>),
    Rows { cols: Vec<Column>, nrows: usize, err: Option<(u16, Vec<u8>)> },
}
#[derive(Clone, Debug)]
pub enum ExpResp {
    Parts(Vec<ExpPart>),
    PrepOk { id: u32, params: Vec<Column>, cols: Vec<Column> },
    PrepErr(u16, Vec<u8>),
    InitOk,
    InitErr(u16, Vec<u8>),
    /// answered by the library: only conformance is required
    Builtin,
    Ping,
}

pub struct Mega {
    pub conv: Conv,
    /// one entry per command of conv.m (None: no reply expected)
    pub exps: Vec<Option<ExpResp>>,
    pub case: Case,
    pub desc: String,
    /// class of the handshake response the conversation starts with
    pub hs: String,
    /// the shim offers TLS (the client does not take it: plaintext conversation behind a greeting with the SSL bit)
    pub offer_tls: bool,
}

fn rcols(rng: &mut Rng, n: usize, bin: bool) -> Vec<Column> {
    // names from a tiny pool so that consecutive headers often differ in flags only
    (0..n)
        .map(|i| {
            let flags = match rng.below(4) {
                0 => ColumnFlags::empty(),
                1 => ColumnFlags::from_bits_truncate(1 << rng.range(8, 15)),
                2 => ColumnFlags::from_bits_truncate(rng.next() as u16 & !(ColumnFlags::NOT_NULL_FLAG.bits())),
                _ => ColumnFlags::from_bits_truncate(0x0100),
            };
            // keep UNSIGNED consistent with the values written (i32 into signed LONG)
            let flags = flags - ColumnFlags::UNSIGNED_FLAG - ColumnFlags::NOT_NULL_FLAG;
            Column { table: "t".into(), column: format!("c{}", i), coltype: if bin { ColumnType::MYSQL_TYPE_LONG } else { *rng.pick(&[ColumnType::MYSQL_TYPE_LONG, ColumnType::MYSQL_TYPE_VAR_STRING]) }, colflags: flags }
        })
        .collect()
}

/// A random response program over given column sets, with what a client must decode.
fn program(rng: &mut Rng, bin: bool, fixed_cols: Option<&Vec<Column>>) -> (QProg, Vec<ExpPart>) {
    let mut prog = QProg { colsets: vec![], ops: vec![], on_err: OnErr::Drop };
    let mut exp = Vec::new();
    let nsets = rng.range(1, 4) as usize;
    for s in 0..nsets {
        let last = s + 1 == nsets;
        match rng.below(6) {
            0 | 1 => {
                let (a, b) = (rng.below(1 << 20), rng.below(300));
                if last && rng.bool() {
                    prog.ops.push(QOp::Completed(a, b));
                } else {
                    prog.ops.push(QOp::CompleteOne(a, b));
                    if last && rng.bool() {
                        prog.ops.push(QOp::NoMore);
                    }
                }
                exp.push(ExpPart::Ok(a, b));
            }
            2 => {
                // zero-column set with k ended rows
                let k = rng.below(5);
                prog.colsets.push(vec![]);
                prog.ops.push(QOp::Start(prog.colsets.len() - 1));
                for _ in 0..k {
                    prog.ops.push(if rng.bool() { QOp::EndRow } else { QOp::Row(vec![], RowForm::Owned) });
                }
                prog.ops.push(if last { QOp::Finish } else { QOp::FinishOne });
                exp.push(ExpPart::Ok(k, 0));
            }
            3 if last => {
                let code = *rng.pick(&[1064u16, 1146, 1213, 1045]);
                let msg = format!("mega error {}", rng.below(1000)).into_bytes();
                prog.ops.push(QOp::Error(code, msg.clone()));
                exp.push(ExpPart::Err(code, msg));
            }
            _ => {
                let cols = match fixed_cols {
                    Some(c) if !c.is_empty() => c.clone(),
                    _ => {
                        let n = rng.range(1, 3) as usize;
                        rcols(rng, n, bin)
                    }
                };
                let nr = rng.below(4) as usize;
                prog.colsets.push(cols.clone());
                prog.ops.push(QOp::Start(prog.colsets.len() - 1));
                for r in 0..nr {
                    let cells: Vec<Cell> = cols.iter().enumerate().map(|(c, col)| if col.coltype == ColumnType::MYSQL_TYPE_LONG { Cell::val(V::I32((r * 10 + c) as i32 - 7)) } else { Cell::val(V::Str(format!("v{}", r))) }).collect();
                    if rng.bool() {
                        prog.ops.push(QOp::Row(cells, if rng.bool() { RowForm::Owned } else { RowForm::Borrowed }));
                    } else {
                        for c in cells {
                            prog.ops.push(QOp::Col(c));
                        }
                        if !(r + 1 == nr && rng.bool()) {
                            prog.ops.push(QOp::EndRow);
                        }
                    }
                }
                let err = if last && rng.chance(1, 5) {
                    let code = 1105;
                    let msg = b"late failure".to_vec();
                    prog.ops.push(QOp::FinishErr(code, msg.clone()));
                    Some((code, msg))
                } else {
                    if last {
                        match rng.below(3) {
                            0 => prog.ops.push(QOp::Finish),
                            1 => prog.ops.push(QOp::DropRow),
                            _ => {} // implicit drop at the end of the callback
                        }
                    } else {
                        prog.ops.push(QOp::FinishOne);
                    }
                    None
                };
                exp.push(ExpPart::Rows { cols, nrows: nr, err });
            }
        }
    }
    // a chain that ends with a pending QueryResultWriter (after finish_one / complete_one) is
    // finished by its destructor: legal once a resultset was started
    (prog, exp)
}

pub fn generate(rng: &mut Rng, max_cmds: usize) -> Mega {
    let mut conv = Conv::default();
    let mut exps: Vec<Option<ExpResp>> = Vec::new();
    // statement ids are the backend's to choose: ordinary ones, or the edges of the 32-bit range (where
    // an in-band marker such as "-1 = the statement prepared last" would collide with a real statement)
    let ids = match rng.below(4) {
        0 => [u32::MAX, 7, 0],
        1 => [0x8000_0000u32, u32::MAX, u32::MAX - 1],
        _ => [3u32, 0x0102_0304, 77],
    };
    // live[k] = (nparams, result columns, bound types?, pending long-data indexes)
    let mut live: [Option<(usize, Vec<Column>)>; 3] = [None, None, None];
    let mut bound: [Option<Vec<(u8, bool)>>; 3] = [None, None, None];
    let mut pend: [std::collections::BTreeSet<usize>; 3] = Default::default();
    let n = rng.range(3, max_cmds as u64) as usize;
    let mut desc = String::new();
    let mut uniq = 0u64;
    for _ in 0..n {
        if conv.over() {
            break;
        }
        uniq += 1;
        match rng.below(100) {
            0..=19 => {
                // text query with a random response program; unique text (now and then 0.6-2 MB long,
                // which grows the server's read buffer past a megabyte in the middle of a history)
                let mut text = format!("q{} {}", uniq, String::from_utf8_lossy(&rng.ascii(6)));
                if rng.chance(1, 60) {
                    let mut filler = Vec::new();
                    let fl = rng.range(600_000, 2_000_000) as usize;
                    stream_fill(&mut filler, rng.next(), uniq, fl, true);
                    text.push_str(std::str::from_utf8(&filler).unwrap());
                }
                let (mut prog, mut exp) = program(rng, false, None);
                if rng.chance(1, 25) {
                    // a reply whose packet count lies around a multiple of 256
                    let rows = *rng.pick(&[250usize, 251, 252, 253, 506, 507, 508, 509]) + rng.below(3) as usize;
                    let cols = rcols(rng, 1, false);
                    let cells = |r: usize| -> Vec<Cell> { vec![if cols[0].coltype == ColumnType::MYSQL_TYPE_LONG { Cell::val(V::I32(r as i32)) } else { Cell::val(V::Str(format!("r{}", r))) }] };
                    let mut ops = vec![QOp::Start(0)];
                    for r in 0..rows {
                        ops.push(QOp::Row(cells(r), RowForm::Owned));
                    }
                    ops.push(QOp::Finish);
                    prog = QProg { colsets: vec![cols.clone()], ops, on_err: OnErr::Drop };
                    exp = vec![ExpPart::Rows { cols, nrows: rows, err: None }];
                }
                conv.push(MCmd::Query(text.into_bytes()), Some(Script::Q(prog)));
                exps.push(Some(ExpResp::Parts(exp)));
                desc.push('Q');
            }
            20..=31 => {
                let k = rng.usize(3);
                if rng.chance(1, 6) {
                    let msg = format!("no prepare {}", uniq).into_bytes();
                    conv.push(MCmd::Prepare(format!("bad{}", uniq).into_bytes()), Some(Script::PrepErr(1064, msg.clone())));
                    exps.push(Some(ExpResp::PrepErr(1064, msg)));
                    desc.push('r');
                } else {
                    let np = rng.below(4) as usize;
                    let nc = rng.below(3) as usize;
                    let params = rcols(rng, np, true);
                    let cols = rcols(rng, nc, true);
                    conv.push(MCmd::Prepare(format!("p{}", uniq).into_bytes()), Some(Script::PrepOk { id: ids[k], params: params.clone(), cols: cols.clone() }));
                    exps.push(Some(ExpResp::PrepOk { id: ids[k], params, cols: cols.clone() }));
                    live[k] = Some((np, cols));
                    bound[k] = None;
                    pend[k].clear();
                    desc.push('P');
                }
            }
            32..=54 => {
                // execute a live statement: rebind or reuse, some parameters as long data
                let cands: Vec<usize> = (0..3).filter(|&k| live[k].is_some()).collect();
                if cands.is_empty() {
                    continue;
                }
                let k = *rng.pick(&cands);
                let (np, cols) = live[k].clone().unwrap();
                let rebind = bound[k].is_none() || rng.bool();
                let tys: Vec<(u8, bool)> = if rebind { (0..np).map(|_| (*rng.pick(&[wire::T_LONG, wire::T_LONGLONG, wire::T_VAR_STRING, wire::T_TINY, wire::T_DOUBLE]), rng.bool())).collect() } else { bound[k].clone().unwrap() };
                let params: Vec<Param> = tys
                    .iter()
                    .enumerate()
                    .map(|(i, &(t, u))| {
                        if pend[k].contains(&i) {
                            Param { typ: t, unsigned: u, value: None, long: true }
                        } else if rng.chance(1, 6) {
                            Param { typ: t, unsigned: u, value: None, long: false }
                        } else {
                            gen_param_of(rng, t, u, false)
                        }
                    })
                    .collect();
                if rebind {
                    bound[k] = Some(tys);
                }
                pend[k].clear();
                let (mut prog, exp) = program(rng, true, Some(&cols));
                // now and then the backend does not read (all of) this execution's parameters
                if rng.chance(1, 8) {
                    prog.ops.insert(0, QOp::Params(rng.below(8) as u8));
                }
                conv.push(MCmd::Execute { id: ids[k], params, send_types: rebind }, Some(Script::Q(prog)));
                exps.push(Some(ExpResp::Parts(exp)));
                desc.push(if rebind { 'E' } else { 'e' });
            }
            55..=62 => {
                let cands: Vec<usize> = (0..3).filter(|&k| live[k].as_ref().map_or(false, |l| l.0 > 0)).collect();
                if cands.is_empty() {
                    continue;
                }
                let k = *rng.pick(&cands);
                let np = live[k].as_ref().unwrap().0;
                let pi = rng.usize(np);
                let dl = rng.below(40) as usize;
                conv.push(MCmd::LongData { id: ids[k], param: pi as u16, data: rng.bytes(dl) }, None);
                exps.push(None);
                pend[k].insert(pi);
                desc.push('L');
            }
            63..=70 => {
                let k = rng.usize(3);
                let id = if rng.chance(3, 4) { ids[k] } else { 999_000 + rng.below(9) as u32 };
                if id == ids[k] {
                    live[k] = None;
                    bound[k] = None;
                    pend[k].clear();
                }
                conv.push(MCmd::Close(id), None);
                exps.push(None);
                desc.push('C');
            }
            71..=78 => {
                conv.push(MCmd::Ping, None);
                exps.push(Some(ExpResp::Ping));
                desc.push('p');
            }
            79..=84 => {
                let ok = rng.bool();
                let msg = b"no such db".to_vec();
                let c = if rng.bool() { MCmd::Init(b"db1".to_vec()) } else { MCmd::Query(b"USE `db1`;".to_vec()) };
                conv.push(c, Some(if ok { Script::InitOk } else { Script::InitErr(1049, msg.clone()) }));
                exps.push(Some(if ok { ExpResp::InitOk } else { ExpResp::InitErr(1049, msg) }));
                desc.push('I');
            }
            85..=89 => {
                conv.push(MCmd::FieldList(field_list_arg(rng)), None);
                exps.push(Some(ExpResp::Builtin));
                desc.push('F');
            }
            90..=94 => {
                conv.push(MCmd::Query(if rng.bool() { b"SELECT @@max_allowed_packet".to_vec() } else { b"select @@session.tx_isolation".to_vec() }), None);
                exps.push(Some(ExpResp::Builtin));
                desc.push('@');
            }
            95..=96 => {
                // an operation on a statement id that is not live: the connection must end with an
                // error at once; the commands generated below must never be served
                let dead: Vec<usize> = (0..3).filter(|&k| live[k].is_none()).collect();
                if dead.is_empty() {
                    continue;
                }
                let k = *rng.pick(&dead);
                let c = if rng.bool() { MCmd::LongData { id: ids[k], param: 0, data: b"x".to_vec() } } else { MCmd::Execute { id: ids[k], params: vec![], send_types: false } };
                conv.push(c, None);
                exps.push(None);
                desc.push('!');
            }
            _ => {
                if rng.chance(1, 3) {
                    conv.push(MCmd::Quit, None);
                    exps.push(None);
                    desc.push('X');
                }
            }
        }
    }
    let mut case = conv.case();
    // the client's handshake layout and capability mask vary too: none of it may change how the
    // commands behind it are served
    let (hs, hs_class) = random_handshake(rng);
    case.handshake = hs;
    if conv.over() {
        // whatever follows the end of the connection must not be served
        case.cmds.push(Cmd::ping());
        case.cmds.push(Cmd::query(b"after the end"));
        case.scripts.push(Script::Q(QProg::completed(0, 0)));
        case.cmds.push(Cmd::close(ids[0]));
    }
    let (input, _) = case.input();
    match rng.below(8) {
        0 => case.arrival = Arrival::Pipelined(1),
        1 => case.arrival = Arrival::Pipelined(rng.range(2, 4) as usize),
        2 => {}
        k => case.sched = make_sched(rng, SCHED_KINDS[(k as usize) % 7], &input),
    }
    if input.len() > 100_000 {
        // the real parser zero-fills its (doubling) buffer before every read, so tiny reads over
        // megabytes cost terabytes of memset: a cost bound of the harness, not of any property
        case.sched = crate::transport::Sched { cuts: case.sched.cuts.iter().copied().filter(|c| c % 7 == 0).take(40).collect(), cycle: vec![rng.range(65_536, 1 << 20) as usize] };
        case.log_reads = true;
    }
    if rng.chance(1, 4) {
        case.write_limit = *rng.pick(&[1usize, 7, 64, 1000]);
    }
    // a fifth of the lock-step and pipelined conversations share the process with another connection
    // that another thread serves in the middle of this one (at one of its reads, which in these
    // arrival modes lie between the commands)
    if matches!(case.arrival, Arrival::Pipelined(_)) && rng.chance(4, 5) {
        let reads = 2 + rng.below(case.cmds.len() as u64 + 1);
        case.interloper_at = Some((reads, rng.next()));
    }
    // the documented entry points are interchangeable
    case.via_run_on_stream = rng.chance(1, 5);
    let offer_tls = rng.chance(1, 3);
    Mega { conv, exps, case, desc, hs: hs_class, offer_tls }
}

fn cols_match(got: &[wire::ColDef], want: &[Column]) -> Result<(), String> {
    if got.len() != want.len() {
        return Err(format!("{} definitions decoded, {} declared", got.len(), want.len()));
    }
    for (i, (g, w)) in got.iter().zip(want.iter()).enumerate() {
        if g.table != w.table.as_bytes() || g.name != w.column.as_bytes() || g.typ != w.coltype as u8 || g.flags != w.colflags.bits() {
            return Err(format!("definition #{}: decoded ({}, {}, type 0x{:02x}, flags 0x{:04x}), declared ({}, {}, {:?}, flags 0x{:04x})", i, show(&g.table), show(&g.name), g.typ, g.flags, w.table, w.column, w.coltype, w.colflags.bits()));
        }
    }
    Ok(())
}

/// Run the shared workload for `prop`, applying only that property's monitor.
pub fn run(ctx: &Ctx, prop: &'static str, quick: u64, thorough: u64) -> Report {
    let n = if ctx.miri { 2 } else { ctx.n(quick, thorough) };
    // a shim that offers TLS to clients that do not ask for it (native crypto: not under Miri)
    let tlsm = if ctx.miri { None } else { crate::tls::TlsMaterial::generate().ok() };
    par_cases(ctx, prop, "mega", n, |rng, i, rep| {
        let m = generate(rng, if ctx.miri { 6 } else { 40 });
        let mut case = m.case.clone();
        if m.offer_tls {
            if let Some(t) = &tlsm {
                case.tls = Some(t.server_optional.clone());
                rep.counters.class("mega: shim offers TLS, client stays in plaintext".into());
            }
        }
        // C19: inject one transport fault somewhere
        if prop == "C19" {
            let dry = run_case(&case);
            case.fault = Fault { eof_after: None, err_at: Some(rng.below(dry.world.nops.max(1))), persistent: rng.bool(), err_kind: rng.below(3) as u8 };
        }
        let obs = run_case(&case);
        rep.evaluations += 1;
        rep.counters.inc("mega_conversations");
        rep.counters.add("mega_commands", m.conv.m.len() as u64);
        rep.counters.class(format!("mega history shape {}", if m.desc.len() > 5 { &m.desc[..5] } else { &m.desc }));
        rep.counters.class(format!("mega handshake {}", m.hs));
        if harness_panic(&obs, rep) {
            return;
        }
        let d = || J::obj().set("workload", "shared mega conversation").set("history (Q query P prepare r rejected-prepare E rebind-execute e reuse-execute L long-data C close p ping I init F field-list @ select@@ ! dead-id X quit)", m.desc.clone()).set("handshake", m.hs.clone()).set("arrival", format!("{:?}", case.arrival)).set("sched", case.sched.describe()).set("write_limit", if case.write_limit == usize::MAX { -1 } else { case.write_limit as i64 }).set("outcome", obs.outcome.describe());
        if i == 0 {
            rep.sample(d());
        }
        let fail = |sig: &str, what: String, rep: &mut Report| rep.violations.push(viol(prop, format!("{} mega:{}", prop, sig), what, d()));
        // ---- C19: fault handling only
        if prop == "C19" {
            if obs.world.fault_ev.is_none() {
                return;
            }
            match &obs.outcome {
                Outcome::Ok => fail("fault-masked", "a transport error was injected, yet run_on returned Ok(())".into(), rep),
                Outcome::Panic { file, line, msg } => {
                    let s = panic_signature(file, *line, msg);
                    fail(&s, format!("a transport error made run_on panic: {}", obs.outcome.describe()), rep)
                }
                _ => {
                    let fev = obs.world.fault_ev.unwrap();
                    if let Some(c) = obs.log.cbs.iter().find(|c| c.ev_start > fev) {
                        fail("callback-after-fault", format!("{} was started after the transport reported an error", cb_summary(c)), rep);
                    } else {
                        rep.counters.inc("mega_fault_runs_judged");
                    }
                }
            }
            return;
        }
        // ---- transport invariance: the same conversation delivered in one read, scripted arrival and
        //      unlimited writes (the "twin") must give the same callbacks (C01) and the same bytes
        //      (C04: framing under short writes; C05: every id) - the server is sequential and
        //      deterministic, so how the bytes were cut cannot matter
        if matches!(prop, "C01" | "C04" | "C05") && !ctx.miri {
            let mut twin = case.clone();
            twin.sched = crate::transport::Sched::all();
            twin.arrival = Arrival::Scripted;
            twin.write_limit = usize::MAX;
            twin.log_reads = false;
            let differs = twin.sched.cuts != case.sched.cuts || twin.sched.cycle != case.sched.cycle || !matches!(case.arrival, Arrival::Scripted) || case.write_limit != usize::MAX;
            if differs {
                let t = run_case(&twin);
                if !matches!(t.outcome, Outcome::Panic { .. }) && !matches!(obs.outcome, Outcome::Panic { .. }) && !harness_panic(&t, rep) {
                    if prop == "C01" {
                        let a: Vec<&CbKind> = obs.log.cbs.iter().map(|c| &c.kind).collect();
                        let b: Vec<&CbKind> = t.log.cbs.iter().map(|c| &c.kind).collect();
                        if a != b {
                            let k = a.iter().zip(b.iter()).position(|(x, y)| x != y).unwrap_or(a.len().min(b.len()));
                            fail("callbacks-depend-on-chunking", format!("callback #{} differs between this delivery and the same bytes delivered in one read: {} vs {} ({} vs {} callbacks in all)", k, obs.log.cbs.get(k).map(cb_summary).unwrap_or("none".into()), t.log.cbs.get(k).map(cb_summary).unwrap_or("none".into()), a.len(), b.len()), rep);
                            return;
                        }
                    } else {
                        let (oa, ob) = (obs.output(), t.output());
                        if oa != ob {
                            let at = first_diff(&oa, &ob);
                            fail("output-depends-on-transport", format!("the server's output differs from the output for the same bytes delivered in one read with unlimited writes: {} vs {} bytes, first difference at offset {:?} (outcomes {} / {})", oa.len(), ob.len(), at, obs.outcome.describe(), t.outcome.describe()), rep);
                            return;
                        }
                    }
                    rep.counters.inc("mega_compared_with_single_read_twin");
                }
            }
        }
        // ---- determinism: the same case run a second time gives the same callbacks and bytes (hash maps
        //      are seeded per instance, so anything that leaks their iteration order differs between runs)
        if matches!(prop, "C03" | "C08" | "C17") && !ctx.miri && i % 4 == 0 && !matches!(obs.outcome, Outcome::Panic { .. }) {
            let again = run_case(&case);
            if !harness_panic(&again, rep) {
                let a: Vec<&CbKind> = obs.log.cbs.iter().map(|c| &c.kind).collect();
                let b: Vec<&CbKind> = again.log.cbs.iter().map(|c| &c.kind).collect();
                if a != b || obs.output() != again.output() || obs.outcome != again.outcome {
                    fail("not-deterministic", format!("the same conversation over the same transport gave {} callbacks / {} output bytes / {} the first time and {} / {} / {} the second", a.len(), obs.output().len(), obs.outcome.describe(), b.len(), again.output().len(), again.outcome.describe()), rep);
                    return;
                }
                rep.counters.inc("mega_runs_repeated_identically");
            }
        }
        // ---- the same conversation over a real TCP socket on the loopback interface (run_on_tcp): the
        //      kernel chooses the chunking; callbacks and bytes must equal the in-memory run's
        if prop == "C02" && !ctx.miri && i % 8 == 0 && m.case.fault.err_at.is_none() {
            // over a real socket the commands placed behind the modelled end of the connection are left
            // out: closing a socket with unread input makes the kernel reset the connection, and a reset
            // may discard bytes the peer has not read yet - an artefact of TCP, not of the server
            let mut tcase = case.clone();
            tcase.cmds.truncate(m.conv.cmds().len());
            match run_case_tcp(&tcase) {
                Err(e) => {
                    // an extra layer: the in-memory runs decide; without a loopback interface this one is skipped
                    rep.counters.inc("loopback_tcp_runs_not_possible");
                    if rep.notes.len() < 3 {
                        rep.notes.push(format!("loopback TCP run could not be set up: {}", e));
                    }
                }
                Ok(t) => {
                    if let Outcome::Panic { file, line, msg } = &t.outcome {
                        if !matches!(obs.outcome, Outcome::Panic { .. }) {
                            fail(&format!("tcp {}", panic_signature(file, *line, msg)), format!("over a real TCP socket run_on_tcp panicked ({}), over the in-memory transport it returned {}", t.outcome.describe(), obs.outcome.describe()), rep);
                            return;
                        }
                    } else if !matches!(obs.outcome, Outcome::Panic { .. }) {
                        let a: Vec<&CbKind> = obs.log.cbs.iter().map(|c| &c.kind).collect();
                        let b: Vec<&CbKind> = t.log.cbs.iter().map(|c| &c.kind).collect();
                        if a != b {
                            let k = a.iter().zip(b.iter()).position(|(x, y)| x != y).unwrap_or(a.len().min(b.len()));
                            fail("tcp-callbacks-differ", format!("callback #{} over a real TCP socket is {}, over the in-memory transport {} ({} vs {} callbacks)", k, t.log.cbs.get(k).map(cb_summary).unwrap_or("none".into()), obs.log.cbs.get(k).map(cb_summary).unwrap_or("none".into()), b.len(), a.len()), rep);
                            return;
                        }
                        if t.outcome.class() != obs.outcome.class() {
                            fail("tcp-outcome-differs", format!("run_on_tcp returned {}, run_on over the in-memory transport {}", t.outcome.describe(), obs.outcome.describe()), rep);
                            return;
                        }
                        let mem = obs.output();
                        // after an error return the socket is closed with unread input: the tail of the
                        // output may be lost to the reset, so only a prefix can be demanded then
                        let same = if t.outcome == Outcome::Ok { t.output == mem } else { mem.starts_with(&t.output) };
                        if !same {
                            fail("tcp-output-differs", format!("the bytes a real TCP peer received ({}) differ from the in-memory transport's ({}), first difference at {:?}", t.output.len(), mem.len(), first_diff(&t.output, &mem)), rep);
                            return;
                        }
                        rep.counters.inc("mega_conversations_repeated_over_loopback_tcp");
                    }
                }
            }
        }
        // ---- routing / parameters (model vs. callback log, run_on outcome)
        if matches!(prop, "C01" | "C02" | "C08" | "C10" | "C16" | "C17") {
            for (sig, what) in routing_violations(&obs, &m.conv) {
                let wanted = match prop {
                    "C08" | "C16" | "C17" => sig.starts_with("param") || sig.contains("callback") || sig.contains("run_on") || sig.contains("conn"),
                    _ => true,
                };
                if wanted {
                    let sig = if let Outcome::Panic { file, line, msg } = &obs.outcome { format!("{} via {}", sig, panic_signature(file, *line, msg)) } else { sig };
                    fail(&sig, what, rep);
                    return;
                }
            }
            rep.counters.inc("mega_routing_compared");
            return;
        }
        // ---- everything else needs the decoded output
        let out = obs.output();
        let (pkts, msgs) = match wire::messages(&out) {
            Ok(x) => x,
            Err(e) => {
                if matches!(prop, "C04" | "C03") {
                    fail("bad-framing", e, rep);
                }
                return;
            }
        };
        if prop == "C04" {
            rep.counters.add("packets_checked", pkts.len() as u64);
            return;
        }
        if let Outcome::Panic { .. } = &obs.outcome {
            // judged by the routing properties above
            return;
        }
        let dec = wire::decode_all(&obs.kinds, &msgs);
        // the modelled end of the connection (error / quit) legitimately cuts the reply stream short
        let ended = m.conv.over();
        if prop == "C03" {
            match &dec.stop {
                Some(wire::Stop::Bad(k, e)) => {
                    fail("malformed-response", format!("exchange #{} ({:?}): {}", k, obs.kinds[*k], e), rep);
                    return;
                }
                Some(wire::Stop::Short(k)) if !ended => {
                    fail("missing-response", format!("exchange #{} ({:?}) has no complete response", k, obs.kinds[*k]), rep);
                    return;
                }
                _ => {}
            }
            if !ended && dec.used != msgs.len() {
                fail("surplus-output", format!("{} messages left over after all responses were decoded", msgs.len() - dec.used), rep);
                return;
            }
        } else if dec.stop.is_some() && !ended {
            // C03's clause; nothing to compare for this property
            return;
        }
        if prop == "C05" {
            let v = seq_violations(&obs, &pkts, &msgs, &dec);
            if let Some(first) = v.first() {
                fail("wrong-sequence-id", first.clone(), rep);
            } else {
                rep.counters.add("outbound_packets_checked", pkts.len() as u64);
            }
            return;
        }
        if prop == "C12" {
            // the same assertion as c12.rs, on this workload (only conversations that do not end early)
            if ended {
                // the owed-replies bookkeeping needs the whole conversation; "nothing written may be
                // unflushed when the server reads" holds for every read of every conversation
                for r in &obs.world.read_log {
                    rep.counters.inc("reads_checked");
                    if r.pending != 0 {
                        fail("read-with-unflushed-output", format!("read() at input offset {} while {} written bytes were not flushed", r.pos, r.pending), rep);
                        return;
                    }
                }
                return;
            }
            let ends: Vec<usize> = dec
                .spans
                .iter()
                .map(|&(_, b)| {
                    let mm = &msgs[b - 1];
                    let p = pkts[mm.first + mm.npkts - 1];
                    p.off + 4 + p.len
                })
                .collect();
            let mut owed_after = vec![1usize];
            let mut acc = 1;
            for (j, _) in obs.ends.iter().enumerate() {
                if obs.kinds[j + 1].expects_reply() {
                    acc += 1;
                }
                owed_after.push(acc);
            }
            for r in &obs.world.read_log {
                rep.counters.inc("reads_checked");
                if r.pending != 0 {
                    fail("read-with-unflushed-output", format!("read() at input offset {} while {} written bytes were not flushed", r.pos, r.pending), rep);
                    return;
                }
                let handed = obs.ends.iter().filter(|e| e.0 <= r.pos).count();
                let have = ends.iter().filter(|&&e| e <= r.visible).count();
                if have < owed_after[handed] {
                    fail("read-while-owing-reply", format!("read() at input offset {}: {} replies owed, {} complete responses flushed", r.pos, owed_after[handed], have), rep);
                    return;
                }
            }
            if obs.world.deadlock.is_some() {
                fail("deadlock", "server called read() while the client was still waiting for a reply".into(), rep);
            }
            return;
        }
        // ---- per-response comparison: C03 (shape), C09 (definitions), C13 (errors), C14 (counts)
        let mut ri = 2;
        for (ci, e) in m.exps.iter().enumerate() {
            let Some(e) = e else { continue };
            let Some(r) = dec.resps.get(ri) else { break };
            ri += 1;
            let here = |s: &str| format!("command #{}: {}", ci, s);
            match (e, r) {
                (ExpResp::Ping, Resp::Simple(Part::Ok(o))) => {
                    if prop == "C03" && (o.affected != 0 || o.last_id != 0) {
                        fail("shifted-reply", here("PING answered by a non-trivial OK"), rep);
                        return;
                    }
                }
                (ExpResp::InitOk, Resp::Simple(Part::Ok(_))) | (ExpResp::Builtin, _) => {}
                // `USE db` travels as a COM_QUERY, so its reply is decoded under the query grammar
                (ExpResp::InitOk, Resp::Parts(ps)) if ps.len() == 1 && matches!(ps[0], Part::Ok(_)) => {}
                (ExpResp::InitErr(code, msg), Resp::Parts(ps)) if ps.len() == 1 && matches!(ps[0], Part::Err(_)) => {
                    if let (true, Part::Err(g)) = (prop == "C13", &ps[0]) {
                        let k = msql_srv::ErrorKind::from(*code);
                        if g.code != *code || g.state != *k.sqlstate() || g.msg != *msg {
                            fail("err-differs", here(&format!("ERR ({}, {}, {}) but the shim reported ({}, {})", g.code, show(&g.state), show(&g.msg), code, show(msg))), rep);
                            return;
                        }
                        rep.counters.inc("err_packets_compared");
                    }
                }
                (ExpResp::InitErr(code, msg), Resp::Simple(Part::Err(g))) | (ExpResp::PrepErr(code, msg), Resp::PrepareErr(g)) => {
                    if prop == "C13" {
                        let k = msql_srv::ErrorKind::from(*code);
                        if g.code != *code || g.state != *k.sqlstate() || g.msg != *msg {
                            fail("err-differs", here(&format!("ERR ({}, {}, {}) but the shim reported ({}, {})", g.code, show(&g.state), show(&g.msg), code, show(msg))), rep);
                            return;
                        }
                        rep.counters.inc("err_packets_compared");
                    }
                }
                (ExpResp::PrepOk { id, params, cols }, Resp::PrepareOk { id: gid, nparams, ncols, params: gp, cols: gc, .. }) => {
                    if prop == "C09" {
                        if gid != id || *nparams as usize != params.len() || *ncols as usize != cols.len() {
                            fail("prepare-ok-header", here(&format!("COM_STMT_PREPARE_OK says (id {}, {} params, {} columns), declared (id {}, {}, {})", gid, nparams, ncols, id, params.len(), cols.len())), rep);
                            return;
                        }
                        for (g, w) in [(gp, params), (gc, cols)] {
                            if let Err(x) = cols_match(g, w) {
                                fail("prepare-definition-differs", here(&x), rep);
                                return;
                            }
                        }
                        rep.counters.inc("prepare_ok_headers_compared");
                    }
                }
                (ExpResp::Parts(want), Resp::Parts(got)) => {
                    if got.len() != want.len() {
                        if prop == "C03" {
                            fail("wrong-response-shape", here(&format!("{} parts decoded, the program denotes {}", got.len(), want.len())), rep);
                            return;
                        }
                        continue;
                    }
                    for (k, (w, g)) in want.iter().zip(got.iter()).enumerate() {
                        match (w, g) {
                            (ExpPart::Ok(a, b), Part::Ok(o)) => {
                                if prop == "C14" {
                                    if (o.affected, o.last_id) != (*a, *b) {
                                        fail("ok-counts-differ", here(&format!("part {}: OK({}, {}) but the shim reported ({}, {})", k, o.affected, o.last_id, a, b)), rep);
                                        return;
                                    }
                                    rep.counters.inc("ok_packets_compared");
                                }
                            }
                            (ExpPart::Err(code, msg), Part::Err(ge)) => {
                                if prop == "C13" {
                                    let kind = msql_srv::ErrorKind::from(*code);
                                    if ge.code != *code || ge.state != *kind.sqlstate() || ge.msg != *msg {
                                        fail("err-differs", here(&format!("part {}: ERR ({}, {}, {}) but the shim reported ({}, {})", k, ge.code, show(&ge.state), show(&ge.msg), code, show(msg))), rep);
                                        return;
                                    }
                                    rep.counters.inc("err_packets_compared");
                                }
                            }
                            (ExpPart::Rows { cols, nrows, err }, Part::Rows { cols: gc, rows, end, .. }) => {
                                if prop == "C09" {
                                    if let Err(x) = cols_match(gc, cols) {
                                        fail("resultset-definition-differs", here(&format!("part {}: {}", k, x)), rep);
                                        return;
                                    }
                                    rep.counters.add("definitions_compared", gc.len() as u64);
                                }
                                if prop == "C03" && (rows.len() != *nrows || err.is_some() != matches!(end, RowsEnd::Err(_))) {
                                    fail("wrong-response-shape", here(&format!("part {}: {} rows / error end {}, the program denotes {} rows / error end {}", k, rows.len(), matches!(end, RowsEnd::Err(_)), nrows, err.is_some())), rep);
                                    return;
                                }
                                if prop == "C13" {
                                    if let (Some((code, msg)), RowsEnd::Err(ge)) = (err, end) {
                                        let kind = msql_srv::ErrorKind::from(*code);
                                        if ge.code != *code || ge.state != *kind.sqlstate() || ge.msg != *msg {
                                            fail("err-differs", here(&format!("part {}: ERR after rows differs", k)), rep);
                                            return;
                                        }
                                        rep.counters.inc("err_packets_compared");
                                    }
                                }
                            }
                            _ => {
                                if prop == "C03" {
                                    fail("wrong-response-shape", here(&format!("part {} has another kind than the program denotes", k)), rep);
                                    return;
                                }
                            }
                        }
                    }
                    if prop == "C03" {
                        rep.counters.inc("responses_compared_with_prediction");
                    }
                }
                (want, got) => {
                    if prop == "C03" {
                        fail("wrong-response-kind", here(&format!("expected {:?}, decoded {:?}", want, got).chars().take(300).collect::<String>()), rep);
                        return;
                    }
                }
            }
        }
    })
}

pub fn selftest_marker() -> (PVal, Kind) {
    (PVal::Int(0), Kind::Ping)
}
