//! C15 — integer results are exact or refused, never silently altered.
//! Direct calls of the public `ToMysqlValue::to_mysql_bin` for every (Rust integer type, column
//! type, signedness) and value; the bytes are decoded by the column's wire width and signedness.
use super::common::*;
use crate::core::*;
use crate::shim::*;
use crate::util::*;
use crate::wire::{self, BinVal, Rd};
use msql_srv::{Column, ColumnFlags, ColumnType, ToMysqlValue};
use mysql_common::value::Value as MV;
use std::panic::{catch_unwind, AssertUnwindSafe};

const COLS: [(ColumnType, u8, &str); 6] = [
    (ColumnType::MYSQL_TYPE_TINY, wire::T_TINY, "TINY"),
    (ColumnType::MYSQL_TYPE_SHORT, wire::T_SHORT, "SHORT"),
    (ColumnType::MYSQL_TYPE_YEAR, wire::T_YEAR, "YEAR"),
    (ColumnType::MYSQL_TYPE_INT24, wire::T_INT24, "INT24"),
    (ColumnType::MYSQL_TYPE_LONG, wire::T_LONG, "LONG"),
    (ColumnType::MYSQL_TYPE_LONGLONG, wire::T_LONGLONG, "LONGLONG"),
];

#[derive(Clone, Copy, Debug, PartialEq, Eq)]
pub enum Src {
    U8,
    I8,
    U16,
    I16,
    U32,
    I32,
    U64,
    I64,
    Usize,
    Isize,
    MycInt,
    MycUInt,
}
const SRCS: [Src; 12] = [Src::U8, Src::I8, Src::U16, Src::I16, Src::U32, Src::I32, Src::U64, Src::I64, Src::Usize, Src::Isize, Src::MycInt, Src::MycUInt];

fn src_range(s: Src) -> (i128, i128) {
    match s {
        Src::U8 => (0, u8::MAX as i128),
        Src::I8 => (i8::MIN as i128, i8::MAX as i128),
        Src::U16 => (0, u16::MAX as i128),
        Src::I16 => (i16::MIN as i128, i16::MAX as i128),
        Src::U32 => (0, u32::MAX as i128),
        Src::I32 => (i32::MIN as i128, i32::MAX as i128),
        Src::U64 | Src::Usize | Src::MycUInt => (0, u64::MAX as i128),
        Src::I64 | Src::Isize | Src::MycInt => (i64::MIN as i128, i64::MAX as i128),
    }
}

/// Range of the column: wire range (for exactness) and obligation range (INT24 counts as 24 bits).
fn col_ranges(t: u8, unsigned: bool) -> ((i128, i128), (i128, i128)) {
    let wire_r = int_range(t, unsigned);
    let oblig = if t == wire::T_INT24 {
        if unsigned {
            (0, (1 << 24) - 1)
        } else {
            (-(1 << 23), (1 << 23) - 1)
        }
    } else {
        wire_r
    };
    (wire_r, oblig)
}

#[derive(Debug, PartialEq)]
enum Res {
    Ok(Vec<u8>),
    Err,
    Panic(String),
}

fn encode(s: Src, v: i128, c: &Column) -> Res {
    let r = catch_unwind(AssertUnwindSafe(|| {
        let mut out = Vec::new();
        let r = match s {
            Src::U8 => (v as u8).to_mysql_bin(&mut out, c),
            Src::I8 => (v as i8).to_mysql_bin(&mut out, c),
            Src::U16 => (v as u16).to_mysql_bin(&mut out, c),
            Src::I16 => (v as i16).to_mysql_bin(&mut out, c),
            Src::U32 => (v as u32).to_mysql_bin(&mut out, c),
            Src::I32 => (v as i32).to_mysql_bin(&mut out, c),
            Src::U64 => (v as u64).to_mysql_bin(&mut out, c),
            Src::I64 => (v as i64).to_mysql_bin(&mut out, c),
            Src::Usize => (v as usize).to_mysql_bin(&mut out, c),
            Src::Isize => (v as isize).to_mysql_bin(&mut out, c),
            Src::MycInt => MV::Int(v as i64).to_mysql_bin(&mut out, c),
            Src::MycUInt => MV::UInt(v as u64).to_mysql_bin(&mut out, c),
        };
        r.map(|_| out)
    }));
    match r {
        Ok(Ok(b)) => Res::Ok(b),
        Ok(Err(_)) => Res::Err,
        Err(_) => {
            let p = take_panic();
            Res::Panic(p.map(|(f, l, m)| format!("{}:{} {}", repo_rel(&f).unwrap_or(f), l, trunc(&m, 60))).unwrap_or_default())
        }
    }
}

fn sign_class(v: i128) -> &'static str {
    if v < 0 {
        "value<0"
    } else {
        "value>=0"
    }
}

/// Column flags other than UNSIGNED say nothing about how an integer travels: a client decodes by
/// type and UNSIGNED alone. Every column of this check carries, besides UNSIGNED or not, one of these
/// combinations (chosen by the case), and the verdicts must not depend on it.
fn other_flags(k: u64) -> ColumnFlags {
    match k % 8 {
        0 | 1 => ColumnFlags::empty(),
        2 => ColumnFlags::ZEROFILL_FLAG,
        3 => ColumnFlags::NOT_NULL_FLAG,
        4 => ColumnFlags::NOT_NULL_FLAG | ColumnFlags::PRI_KEY_FLAG | ColumnFlags::AUTO_INCREMENT_FLAG,
        5 => ColumnFlags::BINARY_FLAG | ColumnFlags::NUM_FLAG,
        6 => ColumnFlags::ZEROFILL_FLAG | ColumnFlags::NOT_NULL_FLAG | ColumnFlags::MULTIPLE_KEY_FLAG,
        _ => ColumnFlags::all() & !ColumnFlags::UNSIGNED_FLAG,
    }
}
fn flags_for(unsigned: bool, k: u64) -> ColumnFlags {
    other_flags(k) | if unsigned { ColumnFlags::UNSIGNED_FLAG } else { ColumnFlags::empty() }
}

/// Evaluate one (source, value, column). Returns Some(violation) or None.
fn eval(s: Src, v: i128, ci: usize, unsigned: bool, rep: &mut Report) {
    let (ct, t, cname) = COLS[ci];
    let col = Column { table: String::new(), column: "c".into(), coltype: ct, colflags: flags_for(unsigned, crate::util::mix64(v as u64 ^ ((ci as u64) << 56) ^ ((s as u64) << 48)) >> 7) };
    let (wire_r, oblig_r) = col_ranges(t, unsigned);
    let (slo, shi) = src_range(s);
    // acceptance is mandatory when the column's range contains the whole range of a fixed-width
    // type, and for pointer-sized integers (and generic values: weaker, not mandated) when it contains the value
    let fixed = !matches!(s, Src::Usize | Src::Isize | Src::MycInt | Src::MycUInt);
    let must_accept = if fixed { slo >= oblig_r.0 && shi <= oblig_r.1 } else if matches!(s, Src::Usize | Src::Isize) { v >= oblig_r.0 && v <= oblig_r.1 } else { false };
    rep.evaluations += 1;
    let sig_col = format!("col={}/{}", cname, if unsigned { "unsigned" } else { "signed" });
    match encode(s, v, &col) {
        Res::Ok(bytes) => {
            let mut r = Rd::new(&bytes);
            let got = wire::decode_bin_value(&mut r, t, if unsigned { wire::F_UNSIGNED } else { 0 });
            let exact = matches!(&got, Ok(BinVal::Int(g)) if *g == v) && r.done();
            if exact {
                rep.counters.inc("accepted_exact");
                if must_accept {
                    rep.counters.inc("must_accept_obligations_met");
                }
            } else {
                let inrange = v >= wire_r.0 && v <= wire_r.1;
                rep.violations.push(viol(
                    "C15",
                    format!("C15 altered src={:?} {} {} {}", s, sig_col, sign_class(v), if inrange { "representable" } else { "unrepresentable" }),
                    format!("{:?} value {} written to a {} {} column is sent as bytes {} which a client decodes as {:?}", s, v, if unsigned { "unsigned" } else { "signed" }, cname, hex(&bytes), got),
                    J::obj().set("source", format!("{:?}", s)).set("value", v).set("column", sig_col.clone()),
                ));
            }
        }
        Res::Err => {
            rep.counters.inc("refused_err");
            if must_accept {
                rep.violations.push(viol(
                    "C15",
                    format!("C15 refused-must-accept src={:?} {}", s, sig_col),
                    format!("{:?} value {} fits a {} {} column but the write is refused with an error", s, v, if unsigned { "unsigned" } else { "signed" }, cname),
                    J::obj().set("source", format!("{:?}", s)).set("value", v).set("column", sig_col.clone()),
                ));
            }
        }
        Res::Panic(p) => {
            rep.counters.inc("refused_panic");
            if must_accept {
                rep.violations.push(viol(
                    "C15",
                    format!("C15 panicked-must-accept src={:?} {}", s, sig_col),
                    format!("{:?} value {} fits a {} {} column but the write panics ({})", s, v, if unsigned { "unsigned" } else { "signed" }, cname, p),
                    J::obj().set("source", format!("{:?}", s)).set("value", v).set("column", sig_col.clone()),
                ));
            }
        }
    }
}

fn interesting(lo: i128, hi: i128) -> Vec<i128> {
    let mut v = vec![lo, hi, 0, 1, -1, lo + 1, hi - 1];
    for k in 0..64u32 {
        let p = 1i128 << k;
        for d in [-1i128, 0, 1] {
            v.push(p + d);
            v.push(-(p + d));
        }
    }
    v.retain(|x| *x >= lo && *x <= hi);
    v.sort_unstable();
    v.dedup();
    v
}

pub fn run(ctx: &Ctx) -> Report {
    let mut rep = Report::default();
    rep.rule = "cases = (Rust integer type in {u8..i64, usize, isize, Value::Int, Value::UInt}, column type in {TINY, SHORT, YEAR, INT24, LONG, LONGLONG} x {signed, unsigned}, value); values exhaustive for 8- and 16-bit types, {bounds, 0, +-1, 2^k, 2^k+-1, random} for wider ones; outcome classes accepted-exact / refused-Err / refused-panic (loud); a class is a (Rust type, column type, signedness, outcome) tuple; non-trivial = the encoder was called and its bytes decoded by wire width and signedness".into();
    // work items: (source, column index, unsigned)
    let items: Vec<(Src, usize, bool)> = SRCS.iter().flat_map(|&s| (0..6).flat_map(move |c| [false, true].into_iter().map(move |u| (s, c, u)))).collect();
    // Miri: a seeded sample of 48 (type, column) pairs with a thinned value list
    let items: Vec<(Src, usize, bool)> = if ctx.miri { items.into_iter().enumerate().filter(|(k, _)| (k + ctx.seed as usize) % 3 == 0).map(|(_, x)| x).collect() } else { items };
    let r = par_cases(ctx, "C15", "matrix", items.len() as u64, |rng, i, rep| {
        let (s, ci, unsigned) = items[i as usize];
        let (lo, hi) = src_range(s);
        let before = (rep.counters.get("accepted_exact"), rep.counters.get("refused_err"), rep.counters.get("refused_panic"));
        let exhaustive = matches!(s, Src::U8 | Src::I8 | Src::U16 | Src::I16) && !ctx.miri;
        if exhaustive {
            let mut v = lo;
            while v <= hi {
                eval(s, v, ci, unsigned, rep);
                v += 1;
            }
            rep.counters.inc("exhaustive_type_column_pairs");
        } else {
            for (k, v) in interesting(lo, hi).into_iter().enumerate() {
                if ctx.miri && k % 3 != 0 {
                    continue;
                }
                eval(s, v, ci, unsigned, rep);
            }
            let nrand = if ctx.miri { 4 } else { ctx.n(3000, 300_000) };
            for _ in 0..nrand {
                eval(s, gen_int_in(rng, lo, hi), ci, unsigned, rep);
            }
        }
        let after = (rep.counters.get("accepted_exact"), rep.counters.get("refused_err"), rep.counters.get("refused_panic"));
        for (n, a, b) in [("accepted-exact", before.0, after.0), ("refused-Err", before.1, after.1), ("refused-panic", before.2, after.2)] {
            if b > a {
                rep.counters.class(format!("{:?} -> {}/{} {}", s, COLS[ci].2, if unsigned { "unsigned" } else { "signed" }, n));
            }
        }
        if i == 0 {
            rep.sample(J::obj().set("source", format!("{:?}", s)).set("column", COLS[ci].2).set("unsigned", unsigned).set("values", if exhaustive { "all" } else { "bounds, powers of two +-1, random" }));
        }
        // keep one violation per signature per work item
        let mut seen = std::collections::BTreeSet::new();
        rep.violations.retain(|v| seen.insert(v.signature.clone()));
    });
    rep.merge(r);

    // ---- a sample through real rows (the C07 path): accepted values must arrive exactly
    let n = if ctx.miri { 2 } else { ctx.n(500, 20_000) };
    let r = par_cases(ctx, "C15", "rows", n, |rng, i, rep| {
        let ci = rng.usize(6);
        let unsigned = rng.bool();
        let (ct, t, cname) = COLS[ci];
        let (wlo, whi) = int_range(t, unsigned);
        let v = gen_int_in(rng, wlo.max(i64::MIN as i128), whi.min(i64::MAX as i128));
        // any Rust integer type that can hold the value
        let cell = {
            let mut opts: Vec<V> = vec![V::Isize(v as isize), V::Myc(MV::Int(v as i64))];
            if v >= 0 {
                opts.push(V::Usize(v as usize));
                opts.push(V::U64(v as u64));
                opts.push(V::Myc(MV::UInt(v as u64)));
            }
            opts.push(V::I64(v as i64));
            if v >= i32::MIN as i128 && v <= i32::MAX as i128 {
                opts.push(V::I32(v as i32));
            }
            if v >= i16::MIN as i128 && v <= i16::MAX as i128 {
                opts.push(V::I16(v as i16));
            }
            if v >= i8::MIN as i128 && v <= i8::MAX as i128 {
                opts.push(V::I8(v as i8));
            }
            if v >= 0 && v <= u32::MAX as i128 {
                opts.push(V::U32(v as u32));
            }
            if v >= 0 && v <= u16::MAX as i128 {
                opts.push(V::U16(v as u16));
            }
            if v >= 0 && v <= u8::MAX as i128 {
                opts.push(V::U8(v as u8));
            }
            opts[rng.usize(opts.len())].clone()
        };
        let col = Column { table: "t".into(), column: "c".into(), coltype: ct, colflags: flags_for(unsigned, rng.next()) };
        let ops = vec![QOp::Start(0), QOp::Col(Cell::val(cell.clone())), QOp::EndRow, QOp::Finish];
        // a third of the sample travels in the text protocol: the client parses the digits
        if i % 3 == 2 {
            let scripts = vec![Script::Q(QProg { colsets: vec![vec![col.clone()]], ops, on_err: OnErr::Forget })];
            let obs = run_case(&varied_case(rng, vec![Cmd::query(b"q")], scripts));
            rep.evaluations += 1;
            if harness_panic(&obs, rep) {
                return;
            }
            let d = || J::obj().set("value", format!("{:?}", cell)).set("column", format!("{}/{} (text protocol)", cname, if unsigned { "unsigned" } else { "signed" })).set("outcome", obs.outcome.describe());
            if let Ok((_, _, dec)) = decode_output(&obs) {
                if let Some(crate::wire::Resp::Parts(parts)) = dec.resps.get(2) {
                    if let Some(crate::wire::Part::Rows { rows, .. }) = parts.first() {
                        if let Some(Ok(cells)) = rows.first().map(|r| wire::decode_text_row(r, 1)) {
                            rep.counters.inc("text_rows_compared");
                            let got = cells[0].as_ref().and_then(|b| std::str::from_utf8(b).ok()).and_then(|t| t.parse::<i128>().ok());
                            if got != Some(v) {
                                rep.violations.push(viol("C15", format!("C15 altered-in-text-row col={}/{}", cname, if unsigned { "unsigned" } else { "signed" }), format!("{:?} written to a {} column in the text protocol arrives as {:?}", cell, cname, cells[0].as_ref().map(|b| show(b))), d()));
                            }
                        }
                    }
                }
            }
            return;
        }
        let cmds = vec![Cmd::prepare(b"p"), Cmd::execute(1, &[], false)];
        // what PREPARE announced may differ from what the execution starts (a backend may only learn
        // the exact type and signedness when it runs the statement): the row is decoded with the
        // definition that came with the row
        let announced = match rng.below(3) {
            0 => col.clone(),
            1 => Column { colflags: col.colflags ^ ColumnFlags::UNSIGNED_FLAG, ..col.clone() },
            _ => Column { coltype: if col.coltype == ColumnType::MYSQL_TYPE_LONGLONG { ColumnType::MYSQL_TYPE_LONG } else { ColumnType::MYSQL_TYPE_LONGLONG }, colflags: col.colflags ^ ColumnFlags::UNSIGNED_FLAG, ..col.clone() },
        };
        let scripts = vec![Script::PrepOk { id: 1, params: vec![], cols: vec![announced] }, Script::Q(QProg { colsets: vec![vec![col.clone()]], ops, on_err: OnErr::Forget })];
        let obs = run_case(&varied_case(rng, cmds, scripts));
        rep.evaluations += 1;
        if harness_panic(&obs, rep) {
            return;
        }
        let d = || J::obj().set("value", format!("{:?}", cell)).set("column", format!("{}/{}", cname, if unsigned { "unsigned" } else { "signed" })).set("outcome", obs.outcome.describe());
        if i == 0 {
            rep.sample(d());
        }
        let accepted = obs.log.cbs.iter().any(|c| c.results.iter().any(|r| r.op == "col" && r.err.is_none()));
        if let Outcome::Panic { .. } = &obs.outcome {
            // a loud refusal (assert on a same-width sign mismatch): judged by the matrix part
            rep.counters.inc("rows_refused");
            return;
        }
        if !accepted {
            // judged by the matrix part (same call); nothing on the wire to compare
            rep.counters.inc("rows_refused");
            return;
        }
        if let Ok((_, _, dec)) = decode_output(&obs) {
            if let Some(crate::wire::Resp::Parts(parts)) = dec.resps.get(3) {
                if let Some(crate::wire::Part::Rows { rows, cols: defs, .. }) = parts.first() {
                    // a client decodes with the definition it RECEIVED, not with what the shim meant
                    let adv: Vec<(u8, u16)> = defs.iter().map(|c| (c.typ, c.flags)).collect();
                    let _ = t;
                    if let Some(Ok(vals)) = rows.first().map(|r| wire::decode_bin_row(r, &adv)) {
                        rep.counters.inc("rows_compared");
                        if vals != vec![BinVal::Int(v)] {
                            rep.violations.push(viol("C15", format!("C15 altered-in-row col={}/{}", cname, if unsigned { "unsigned" } else { "signed" }), format!("{:?} written to a {} column arrives as {:?}", cell, cname, vals), d()));
                        }
                    }
                }
            }
        }
    });
    rep.merge(r);

    // ---- behind a NULL: rows [NULL, v] where the two columns differ in width and signedness and v is
    //      written as the Rust type that matches the SECOND column exactly (acceptance is mandatory):
    //      the cell is judged against its own column, not against the one the NULL stood in
    let n = if ctx.miri { 4 } else { ctx.n(1200, 40_000) };
    let r = par_cases(ctx, "C15", "behind-a-null", n, |rng, i, rep| {
        let yi = (i % 12) as usize;
        let (yc, yu) = (yi / 2, yi % 2 == 1);
        // the first column: another width, and the other signedness
        let xc = (yc + 1 + rng.usize(5)) % 6;
        let xu = !yu;
        let (ct, t, cname) = COLS[yc];
        let bits = match t { wire::T_TINY => 8, wire::T_SHORT | wire::T_YEAR => 16, wire::T_INT24 | wire::T_LONG => 32, _ => 64 };
        // a value of the half of the range that the first column could not hold
        let v: i128 = if yu { (1i128 << bits) - 1 - rng.below(3) as i128 } else { -(1i128 << (bits - 1)) + rng.below(3) as i128 };
        let cell = match (bits, yu) {
            (8, false) => V::I8(v as i8),
            (8, true) => V::U8(v as u8),
            (16, false) => V::I16(v as i16),
            (16, true) => V::U16(v as u16),
            (32, false) => V::I32(v as i32),
            (32, true) => V::U32(v as u32),
            (_, false) => V::I64(v as i64),
            (_, true) => V::U64(v as u64),
        };
        let cols = vec![
            Column { table: "t".into(), column: "x".into(), coltype: COLS[xc].0, colflags: flags_for(xu, rng.next()) & !ColumnFlags::NOT_NULL_FLAG },
            Column { table: "t".into(), column: "y".into(), coltype: ct, colflags: flags_for(yu, rng.next()) },
        ];
        let nullcell = Cell { v: V::Null, form: if rng.bool() { Form::Val } else { Form::Ref } };
        let ops = match i % 3 {
            0 => vec![QOp::Start(0), QOp::Col(nullcell), QOp::TryCol(Cell::val(cell.clone())), QOp::TryEndRow, QOp::Finish],
            _ => vec![QOp::Start(0), QOp::TryRow(vec![nullcell, Cell::val(cell.clone())], if i % 3 == 1 { RowForm::Owned } else { RowForm::Borrowed }), QOp::Finish],
        };
        let cmds = vec![Cmd::prepare(b"p"), Cmd::execute(1, &[], false), Cmd::ping()];
        let scripts = vec![Script::PrepOk { id: 1, params: vec![], cols: cols.clone() }, Script::Q(QProg { colsets: vec![cols.clone()], ops, on_err: OnErr::Drop })];
        let obs = run_case(&varied_case(rng, cmds, scripts));
        rep.evaluations += 1;
        if harness_panic(&obs, rep) {
            return;
        }
        rep.counters.class(format!("behind a NULL in a {}/{} column: {}/{}", COLS[xc].2, if xu { "unsigned" } else { "signed" }, cname, if yu { "unsigned" } else { "signed" }));
        let d = || J::obj().set("first_column", format!("{}/{} (NULL)", COLS[xc].2, if xu { "unsigned" } else { "signed" })).set("second_column", format!("{}/{}", cname, if yu { "unsigned" } else { "signed" })).set("value", format!("{:?}", cell)).set("outcome", obs.outcome.describe());
        if i < 2 {
            rep.sample(d());
        }
        if let Outcome::Panic { file, line, msg } = &obs.outcome {
            rep.violations.push(viol("C15", format!("C15 behind-a-null {}", panic_signature(file, *line, msg)), format!("a value that fits its column exactly was refused loudly behind a NULL: {}", obs.outcome.describe()), d()));
            return;
        }
        let refused = obs.log.cbs.iter().any(|c| matches!(c.kind, CbKind::Execute { .. }) && c.results.iter().any(|r| r.err.is_some()));
        if refused {
            rep.violations.push(viol("C15", format!("C15 must-accept-refused behind a NULL col={}/{}", cname, if yu { "unsigned" } else { "signed" }), format!("{:?} fits a {} {} column exactly and was refused when a NULL stood in the column before it", cell, if yu { "unsigned" } else { "signed" }, cname), d()));
            return;
        }
        let Ok((_, _, dec)) = decode_output(&obs) else {
            rep.violations.push(viol("C15", "C15 behind-a-null undecodable".into(), "the output is not well framed".into(), d()));
            return;
        };
        if let Some(crate::wire::Resp::Parts(parts)) = dec.resps.get(3) {
            if let Some(crate::wire::Part::Rows { rows, cols: defs, .. }) = parts.first() {
                let adv: Vec<(u8, u16)> = defs.iter().map(|c| (c.typ, c.flags)).collect();
                match rows.first().map(|r| wire::decode_bin_row(r, &adv)) {
                    Some(Ok(vals)) if vals.len() == 2 => {
                        if vals[0] != wire::BinVal::Null || vals[1] != wire::BinVal::Int(v) {
                            rep.violations.push(viol("C15", format!("C15 altered behind a NULL col={}/{}", cname, if yu { "unsigned" } else { "signed" }), format!("the row [NULL, {}] arrives as {:?}", v, vals), d()));
                            return;
                        }
                        rep.counters.inc("cells_behind_a_null_exact");
                    }
                    other => {
                        rep.violations.push(viol("C15", "C15 behind-a-null undecodable".into(), format!("the row [NULL, {}] does not decode with the received definitions: {:?}", v, other), d()));
                    }
                }
                return;
            }
        }
        rep.violations.push(viol("C15", "C15 behind-a-null undecodable".into(), format!("no resultset in the reply: {:?}", dec.stop), d()));
    });
    rep.merge(r);

    // ---- whole sessions: several binary resultsets of different widths on one connection (text
    //      queries in between), every cell a must-accept (Rust type, column) pair: whatever the
    //      writer keeps between rows, resultsets and commands, each number must arrive exactly
    let n = if ctx.miri { 2 } else { ctx.n(1500, 60_000) };
    let r = par_cases(ctx, "C15", "sessions", n, |rng, i, rep| {
        let nsets = if ctx.miri { 2 } else { rng.range(2, 6) as usize };
        let mut cmds = Vec::new();
        let mut scripts = Vec::new();
        let mut wants: Vec<Option<Vec<Vec<i128>>>> = Vec::new(); // per reply-expecting exchange
        let mut widths = Vec::new();
        for k in 0..nsets {
            let nc = *rng.pick(&[1usize, 2, 3, 5, 6, 7, 8, 9, 14, 15, 16, 20, 30]);
            widths.push(nc);
            let cols: Vec<(usize, bool)> = (0..nc).map(|_| (rng.usize(6), rng.bool())).collect();
            let columns: Vec<Column> = cols.iter().enumerate().map(|(c, &(ci, u))| Column { table: "t".into(), column: format!("c{}", c), coltype: COLS[ci].0, colflags: flags_for(u, rng.next()) }).collect();
            let nr = rng.range(1, 3) as usize;
            let mut ops = vec![QOp::Start(0)];
            let mut want = Vec::new();
            for _ in 0..nr {
                let mut cells = Vec::new();
                let mut wr = Vec::new();
                for &(ci, u) in &cols {
                    let (_, oblig) = col_ranges(COLS[ci].1, u);
                    // fixed-width sources whose whole range the column holds, or a pointer-sized value in range
                    let fixed: Vec<Src> = [Src::U8, Src::I8, Src::U16, Src::I16, Src::U32, Src::I32, Src::U64, Src::I64].into_iter().filter(|s| src_range(*s).0 >= oblig.0 && src_range(*s).1 <= oblig.1).collect();
                    let src = if !fixed.is_empty() && rng.chance(3, 4) { *rng.pick(&fixed) } else if u { Src::Usize } else { Src::Isize };
                    let (slo, shi) = src_range(src);
                    let v = gen_int_in(rng, slo.max(oblig.0), shi.min(oblig.1));
                    wr.push(v);
                    cells.push(Cell::val(match src {
                        Src::U8 => V::U8(v as u8),
                        Src::I8 => V::I8(v as i8),
                        Src::U16 => V::U16(v as u16),
                        Src::I16 => V::I16(v as i16),
                        Src::U32 => V::U32(v as u32),
                        Src::I32 => V::I32(v as i32),
                        Src::U64 => V::U64(v as u64),
                        Src::I64 => V::I64(v as i64),
                        Src::Usize => V::Usize(v as usize),
                        _ => V::Isize(v as isize),
                    }));
                }
                want.push(wr);
                if rng.bool() {
                    ops.push(QOp::Row(cells, if rng.bool() { RowForm::Owned } else { RowForm::Borrowed }));
                } else {
                    for c in cells {
                        ops.push(QOp::Col(c));
                    }
                    ops.push(QOp::EndRow);
                }
            }
            ops.push(QOp::Finish);
            cmds.push(Cmd::prepare(format!("p{}", k).as_bytes()));
            // a third of the statements were announced with the other signedness in every column
            let announced: Vec<Column> = if rng.chance(1, 3) { columns.iter().map(|c| Column { colflags: c.colflags ^ ColumnFlags::UNSIGNED_FLAG, ..c.clone() }).collect() } else { columns.clone() };
            scripts.push(Script::PrepOk { id: k as u32 + 1, params: vec![], cols: announced });
            wants.push(None);
            cmds.push(Cmd::execute(k as u32 + 1, &[], false));
            scripts.push(Script::Q(QProg { colsets: vec![columns], ops, on_err: OnErr::Drop }));
            wants.push(Some(want));
            if rng.chance(1, 3) {
                cmds.push(Cmd::query(b"between"));
                scripts.push(Script::Q(QProg::completed(1, 0)));
                wants.push(None);
            }
        }
        let obs = run_case(&varied_case(rng, cmds, scripts));
        rep.evaluations += 1;
        if harness_panic(&obs, rep) {
            return;
        }
        for w in widths.windows(2) {
            rep.counters.class(format!("resultset widths {} then {} (bitmap bytes {} then {})", w[0], w[1], (w[0] + 9) / 8, (w[1] + 9) / 8));
        }
        let d = || J::obj().set("resultset_widths_in_order", widths.iter().map(|&w| J::from(w)).collect::<Vec<_>>()).set("outcome", obs.outcome.describe());
        if i == 0 {
            rep.sample(d());
        }
        if let Outcome::Panic { file, line, msg } = &obs.outcome {
            rep.violations.push(viol("C15", format!("C15 session {}", panic_signature(file, *line, msg)), format!("must-accept integer cells made run_on panic: {}", obs.outcome.describe()), d()));
            return;
        }
        if let Some(bad) = obs.log.cbs.iter().flat_map(|c| c.results.iter()).find(|r| r.err.is_some()) {
            rep.violations.push(viol("C15", format!("C15 session refused-must-accept {}", bad.op), format!("{} refused a must-accept integer cell: {:?}", bad.op, bad.err), d()));
            return;
        }
        let dec = match decode_output(&obs) {
            Ok(x) => x.2,
            Err(e) => {
                rep.violations.push(viol("C15", "C15 session bad-framing".into(), e, d()));
                return;
            }
        };
        for (k, w) in wants.iter().enumerate() {
            let Some(w) = w else { continue };
            let Some(crate::wire::Resp::Parts(parts)) = dec.resps.get(2 + k) else {
                rep.violations.push(viol("C15", "C15 session undecodable-response".into(), format!("exchange #{} does not decode: {:?}", 2 + k, dec.stop), d()));
                return;
            };
            let Some(crate::wire::Part::Rows { rows, cols: defs, .. }) = parts.first() else {
                rep.violations.push(viol("C15", "C15 session not-a-resultset".into(), format!("exchange #{} is not a resultset", 2 + k), d()));
                return;
            };
            let adv: Vec<(u8, u16)> = defs.iter().map(|c| (c.typ, c.flags)).collect();
            if rows.len() != w.len() {
                rep.violations.push(viol("C15", "C15 session row-count".into(), format!("exchange #{}: {} rows decoded, {} written", 2 + k, rows.len(), w.len()), d()));
                return;
            }
            for (ri, (raw, wr)) in rows.iter().zip(w.iter()).enumerate() {
                match wire::decode_bin_row(raw, &adv) {
                    Ok(vals) => {
                        let got: Vec<Option<i128>> = vals.iter().map(|v| if let BinVal::Int(x) = v { Some(*x) } else { None }).collect();
                        let wantv: Vec<Option<i128>> = wr.iter().map(|x| Some(*x)).collect();
                        if got != wantv {
                            let ci = got.iter().zip(wantv.iter()).position(|(a, b)| a != b).unwrap_or(0);
                            rep.violations.push(viol("C15", "C15 session altered-in-row".into(), format!("resultset #{} ({} columns, after widths {:?}) row {} column {}: wrote {:?}, client decoded {:?}", k, adv.len(), &widths, ri, ci, wantv.get(ci), got.get(ci)), d()));
                            return;
                        }
                        rep.counters.inc("rows_compared");
                        rep.counters.add("session_cells_compared", got.len() as u64);
                    }
                    Err(e) => {
                        rep.violations.push(viol("C15", "C15 session row-undecodable".into(), format!("resultset #{} ({} columns, after widths {:?}) row {}: {}", k, adv.len(), &widths, ri, e), d()));
                        return;
                    }
                }
            }
        }
        rep.counters.inc("sessions_compared");
    });
    rep.merge(r);
    if ctx.strict() {
        rep.require("sessions_compared", 100);
    }
    if ctx.strict() {
        rep.require("accepted_exact", 10_000);
        rep.require("refused_err", 1000);
        rep.require("must_accept_obligations_met", 10_000);
        rep.require("exhaustive_type_column_pairs", 48);
        rep.exhaustive = false;
        rep.notes.push("8- and 16-bit source types are enumerated exhaustively against all 12 columns (48 pairs)".into());
    }
    // ---- backends that go on after a refused writer call (props/recover.rs): the integers that were
    //      accepted arrive exactly (binary rows of LONG and VAR_STRING columns)
    rep.merge(super::recover::group(ctx, "C15", super::recover::Clause::Values, Some(true), 1000, 20_000));
    rep
}
