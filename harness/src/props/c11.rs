//! C11 — greeting is well-formed and no command is served before the shim authenticates.
use super::common::*;
use crate::core::*;
use crate::second;
use crate::shim::*;
use crate::tls::TlsMaterial;
use crate::util::*;
use crate::wire::{self, Kind, Part, Resp, CLIENT_PROTOCOL_41, CLIENT_SSL};

fn user_name(rng: &mut Rng, i: u64) -> Vec<u8> {
    match i % 8 {
        0 => vec![],
        1 => vec![1 + rng.below(255) as u8],
        2 => (1..=255u8).collect(),
        3 => vec![0xFF, 0xFE, 0x80, 0xC0],
        4 => {
            let n = 10_000;
            (0..n).map(|_| 1 + rng.below(255) as u8).collect()
        }
        5 => "ユーザー名".as_bytes().to_vec(),
        _ => {
            let n = rng.range(1, 40) as usize;
            (0..n).map(|_| 1 + rng.below(255) as u8).collect()
        }
    }
}

fn user_class(u: &[u8]) -> &'static str {
    if u.is_empty() {
        "empty"
    } else if u.len() == 1 {
        "1 byte"
    } else if u.len() >= 10_000 {
        "10000 bytes"
    } else if std::str::from_utf8(u).is_err() {
        "non-UTF-8"
    } else {
        "utf-8"
    }
}

pub fn run(ctx: &Ctx) -> Report {
    let mut rep = Report::default();
    rep.rule = "cases = handshake responses in the 4.1 and 3.20 layouts with capability masks (each single bit, all, random; SSL bit only in the TLS-less refusal case), user names (empty, 1 byte, every non-NUL byte, non-UTF-8, 10000 bytes), arbitrary trailing auth/db/plugin bytes, TLS configured or not, shim accepting or rejecting, 0-5 commands pipelined behind the handshake in the same read; a class is a (layout, capability class, user-name class, accept/reject, pipelining depth, tls offered) tuple; non-trivial = greeting parsed by two parsers and the after_authentication event compared".into();
    let tls = if ctx.miri { None } else { TlsMaterial::generate().ok() };
    let n = if ctx.miri { 4 } else { ctx.n(4000, 200_000) };
    let r = par_cases(ctx, "C11", "hs", n, |rng, i, rep| {
        let layout41 = i % 5 != 4;
        let user = user_name(rng, i / 5);
        let offer_tls = tls.is_some() && i % 3 == 0;
        let reject = i % 7 == 3;
        let capclass;
        let mut caps: u32 = match rng.below(5) {
            0 => {
                capclass = "single bit";
                1u32 << rng.below(32)
            }
            1 => {
                capclass = "all bits";
                0xFFFF_FFFF
            }
            2 => {
                capclass = "typical client";
                0x003f_a685 | 0x2000_0000
            }
            3 => {
                capclass = "none";
                0
            }
            _ => {
                capclass = "random";
                rng.next() as u32
            }
        };
        // real TLS upgrades are C18's; here the SSL bit appears only where TLS is NOT offered
        let ssl_refusal = !offer_tls && layout41 && i % 11 == 5;
        if ssl_refusal {
            caps |= CLIENT_SSL;
        } else {
            caps &= !CLIENT_SSL;
        }
        let tail_len = rng.below(60) as usize;
        let tail = rng.bytes(tail_len);
        let hs = if layout41 {
            if ssl_refusal && i % 2 == 0 {
                // an SSLRequest is the 32-byte prefix only
                wire::ssl_request(caps, 1 << 24, 0x21)
            } else if ssl_refusal {
                // a connector that sets the bit anyway and sends the whole response in clear
                wire::handshake41(caps | CLIENT_SSL, 1 << 24, 0x21, &user, &tail)
            } else {
                wire::handshake41(caps, rng.next() as u32, rng.below(256) as u8, &user, &tail)
            }
        } else {
            wire::handshake320((caps as u16) & !(CLIENT_PROTOCOL_41 as u16), rng.next() as u32 & 0xFF_FFFF, &user, &tail)
        };
        let depth = (i % 6) as usize;
        let mut cmds = Vec::new();
        let mut scripts = Vec::new();
        for k in 0..depth {
            match k % 3 {
                0 => {
                    cmds.push(Cmd::query(format!("q{}", k).as_bytes()));
                    scripts.push(Script::Q(QProg::completed(k as u64, 0)));
                }
                1 => cmds.push(Cmd::ping()),
                _ => {
                    cmds.push(Cmd::prepare(b"p"));
                    scripts.push(Script::PrepOk { id: 3, params: vec![], cols: vec![] });
                }
            }
        }
        let mut case = Case::new(cmds, scripts);
        case.handshake = hs;
        case.hs_seq = if rng.chance(1, 5) { rng.below(256) as u8 } else { 1 };
        case.auth_reject = if reject { Some(4242) } else { None };
        // behind a login that will be rejected the client may have died in the middle of a packet, or
        // sent rubbish: the shim's error is what run_on returns, whatever is left unread
        if reject && i % 3 == 0 {
            case.raw_tail = match rng.below(4) {
                0 => vec![0x10, 0x00, 0x00, 0x00, 0x03, b's', b'e'],
                1 => vec![0xff; 9],
                2 => vec![0x01],
                _ => wire::raw_packet(&[0x03, b'x'], 0)[..5].to_vec(),
            };
            rep.counters.inc("rejections_with_unreadable_input_behind");
        }
        if offer_tls {
            case.tls = tls.as_ref().map(|t| t.server_optional.clone());
        }
        // the whole conversation incl. the handshake in one read, or chopped
        if i % 4 == 1 {
            let (input, _) = case.input();
            let sk = *rng.pick(&[SchedKind::OneByte, SchedKind::HeaderCuts, SchedKind::Random]);
            case.sched = make_sched(rng, sk, &input);
        }
        let obs = run_case(&case);
        rep.evaluations += 1;
        if harness_panic(&obs, rep) {
            return;
        }
        rep.counters.class(format!("{} caps={} user={} {} depth={} tls_offered={}{}", if layout41 { "4.1" } else { "3.20" }, capclass, user_class(&user), if reject { "reject" } else { "accept" }, depth, offer_tls, if ssl_refusal { " ssl-requested-but-not-offered" } else { "" }));
        let d = || {
            J::obj()
                .set("layout", if layout41 { "HandshakeResponse41" } else { "HandshakeResponse320" })
                .set("capabilities", format!("0x{:08x}", caps))
                .set("user", show(&user))
                .set("trailing_bytes", tail.len())
                .set("handshake_id", case.hs_seq)
                .set("shim", if reject { "rejects" } else { "accepts" })
                .set("tls_offered", offer_tls)
                .set("pipelined_commands", depth)
                .set("outcome", obs.outcome.describe())
        };
        if i < 3 {
            rep.sample(d());
        }
        let fail = |sig: &str, what: String, rep: &mut Report| rep.violations.push(viol("C11", format!("C11 {}", sig), what, d()));
        if let Outcome::Panic { file, line, msg } = &obs.outcome {
            let s = panic_signature(file, *line, msg);
            fail(&s, format!("run_on panicked during the connection phase: {}", obs.outcome.describe()), rep);
            return;
        }
        // ---- greeting
        let out = obs.output();
        let (pkts, _) = wire::packets_prefix(&out);
        let (msgs, _) = wire::messages_prefix(&out, &pkts);
        let Some(g) = msgs.first() else {
            fail("no-greeting", "the server sent nothing".into(), rep);
            return;
        };
        if g.seq_first != 0 {
            fail("greeting-seq", format!("greeting carries sequence id {}", g.seq_first), rep);
            return;
        }
        match (wire::parse_greeting(&g.payload), second::greeting(&g.payload)) {
            (Ok(a), Ok((proto, caps2, ver))) => {
                if a.protocol != 10 || proto != 10 {
                    fail("greeting-protocol", format!("protocol version {}", a.protocol), rep);
                    return;
                }
                if a.caps != caps2 || a.version != ver {
                    rep.inconclusive.push("wire and mysql_common disagree on the greeting".into());
                    return;
                }
                if a.caps & CLIENT_PROTOCOL_41 == 0 {
                    fail("greeting-no-41", format!("greeting capabilities 0x{:08x} lack CLIENT_PROTOCOL_41", a.caps), rep);
                    return;
                }
                if (a.caps & CLIENT_SSL != 0) != offer_tls {
                    fail("greeting-ssl-bit", format!("greeting {} CLIENT_SSL although the shim {} a TLS configuration", if a.caps & CLIENT_SSL != 0 { "advertises" } else { "does not advertise" }, if offer_tls { "offers" } else { "does not offer" }), rep);
                    return;
                }
                if a.caps & wire::CLIENT_DEPRECATE_EOF != 0 {
                    rep.inconclusive.push("server advertises CLIENT_DEPRECATE_EOF, which the reference decoder does not model".into());
                    return;
                }
                rep.counters.inc("greetings_parsed");
            }
            (Err(e), _) => {
                fail("greeting-malformed", format!("greeting does not parse: {}", e), rep);
                return;
            }
            (_, Err(e)) => {
                fail("greeting-rejected-by-client-parser", format!("mysql_common's HandshakePacket parser rejects the greeting: {}", e), rep);
                return;
            }
        }
        let auths: Vec<&Cb> = obs.log.cbs.iter().filter(|c| matches!(c.kind, CbKind::Auth { .. })).collect();
        let commands: Vec<&Cb> = obs.log.cbs.iter().filter(|c| !matches!(c.kind, CbKind::Auth { .. })).collect();
        // ---- TLS requested but not offered: refused before after_authentication
        if ssl_refusal {
            if !auths.is_empty() {
                fail("auth-called-despite-ssl-refusal", "after_authentication was called although the client requested TLS and none is offered".into(), rep);
            } else if !obs.outcome.is_err() {
                fail("ssl-request-not-refused", format!("client requested TLS from a shim that offers none, run_on returned {}", obs.outcome.describe()), rep);
            } else if !commands.is_empty() {
                fail("command-before-auth", format!("{} served although the handshake was refused", cb_summary(commands[0])), rep);
            } else {
                rep.counters.inc("ssl_refusals_checked");
            }
            return;
        }
        // ---- after_authentication exactly once, before any command, with the exact user name
        if auths.len() != 1 {
            fail("auth-count", format!("after_authentication was called {} times", auths.len()), rep);
            return;
        }
        if let CbKind::Auth { user: got, .. } = &auths[0].kind {
            if got.as_deref() != Some(&user[..]) {
                fail("user-name-differs", format!("after_authentication saw user {:?}, the client sent {}", got.as_ref().map(|u| show(u)), show(&user)), rep);
                return;
            }
        }
        if let Some(c) = commands.first() {
            if c.ev_start < auths[0].ev_end {
                fail("command-before-auth", format!("{} started before after_authentication returned", cb_summary(c)), rep);
                return;
            }
        }
        rep.counters.inc("auth_events_checked");
        let reply = msgs.get(1);
        let want_seq = case.hs_seq.wrapping_add(1);
        if reject {
            rep.counters.inc("rejections");
            match reply.map(|m| (m.seq_first, wire::parse_err(&m.payload))) {
                Some((seq, Ok(e))) => {
                    if e.code != 1045 || &e.state != b"28000" {
                        fail("reject-wrong-err", format!("rejected login answered by ERR {} / {}", e.code, show(&e.state)), rep);
                        return;
                    }
                    if seq != want_seq {
                        fail("auth-reply-seq", format!("ERR carries sequence id {}, expected {}", seq, want_seq), rep);
                        return;
                    }
                }
                other => {
                    fail("reject-no-err", format!("rejected login not answered by an ERR packet: {:?}", other.map(|o| o.1)), rep);
                    return;
                }
            }
            if obs.outcome != Outcome::Token(4242) {
                fail("reject-error-not-returned", format!("run_on returned {} instead of the shim's own error", obs.outcome.describe()), rep);
                return;
            }
            if !commands.is_empty() {
                fail("command-after-reject", format!("{} served after the shim rejected the login", cb_summary(commands[0])), rep);
                return;
            }
            if msgs.len() > 2 {
                fail("bytes-after-reject", format!("{} messages sent after the ERR of a rejected login", msgs.len() - 2), rep);
                return;
            }
            rep.counters.inc("callbacks_suppressed_after_reject_checked");
        } else {
            match reply.map(|m| (m.seq_first, wire::parse_ok(&m.payload), m.payload.first().copied())) {
                Some((seq, Ok(_), Some(0))) => {
                    if seq != want_seq {
                        fail("auth-reply-seq", format!("OK carries sequence id {}, expected {} (handshake id {} + 1)", seq, want_seq, case.hs_seq), rep);
                        return;
                    }
                }
                other => {
                    fail("accept-no-ok", format!("accepted login not answered by OK: {:?}", other.map(|o| o.2)), rep);
                    return;
                }
            }
            if obs.outcome != Outcome::Ok {
                fail("run_on-not-ok", format!("run_on returned {} after an accepted login and well-formed commands", obs.outcome.describe()), rep);
                return;
            }
            // the pipelined commands are all served, in order
            let want_cbs = case.cmds.iter().filter(|c| matches!(c.kind, Kind::Query | Kind::Prepare)).count();
            if commands.len() != want_cbs {
                fail("pipelined-commands", format!("{} command callbacks for {} pipelined commands", commands.len(), want_cbs), rep);
                return;
            }
            let dec = wire::decode_all(&obs.kinds, &msgs);
            if dec.stop.is_some() || dec.used != msgs.len() {
                fail("responses-undecodable", format!("responses after the handshake do not decode: {:?}", dec.stop), rep);
                return;
            }
            if let Some(Resp::Simple(Part::Ok(_))) = dec.resps.get(1) {
                rep.counters.inc("accepts");
            }
        }
    });
    rep.merge(r);

    // ---- the peer hangs up as soon as it has the verdict: a transport on which every operation AFTER the
    //      last one of the undisturbed run fails, through both entry points. A login that the shim
    //      rejects still ends with the shim's error (not with whatever a late operation reports), an
    //      accepted one with what it ended with before; nothing else changes either
    if !ctx.miri {
        let n = ctx.n(600, 10_000);
        let r = par_cases(ctx, "C11", "peer-gone-after-the-verdict", n, |rng, i, rep| {
            let user: Vec<u8> = user_name(rng, i).into_iter().filter(|b| *b != 0).take(100).collect();
            let reject = i % 3 != 2;
            let (hs, _) = if rng.bool() { (wire::handshake41((rng.next() as u32 | CLIENT_PROTOCOL_41) & !CLIENT_SSL, 1 << 24, 0x21, &user, b"\0"), ()) } else { (wire::handshake320(0x0005, 1 << 20, &user, b""), ()) };
            let mut cmds = Vec::new();
            let mut scripts = Vec::new();
            if rng.bool() {
                cmds.push(Cmd::query(b"q"));
                scripts.push(Script::Q(QProg::completed(1, 0)));
            }
            let mut case = Case::new(cmds, scripts);
            case.handshake = hs;
            case.hs_seq = if rng.chance(1, 4) { rng.below(256) as u8 } else { 1 };
            case.auth_reject = if reject { Some(7000 + i) } else { None };
            case.via_run_on_stream = i % 2 == 0;
            let clean = run_case(&case);
            let mut faulty = case.clone();
            // "after the verdict": from the operation behind the flush that put the last byte of the
            // undisturbed run's output in front of the client - provided the server did not read after
            // that flush (a rejected login: it does not); otherwise from the operation behind the last
            // one of the undisturbed run
            let total = clean.world.visible.len();
            let delivered = clean.world.flush_log.iter().find(|f| f.1 >= total && clean.world.pending.is_empty()).map(|f| f.0);
            let from = match delivered {
                Some(k) if clean.world.last_read_idx.map_or(true, |r| r < k) => {
                    rep.counters.inc("transports_that_die_right_behind_the_flush_of_the_verdict");
                    k + 1
                }
                _ => clean.world.nops,
            };
            faulty.fault = crate::transport::Fault { eof_after: None, err_at: Some(from), persistent: true, err_kind: (i % 3) as u8 };
            let obs = run_case(&faulty);
            rep.evaluations += 1;
            if harness_panic(&obs, rep) || harness_panic(&clean, rep) {
                return;
            }
            let entry = if case.via_run_on_stream { "run_on_stream" } else { "run_on" };
            rep.counters.class(format!("peer gone after the verdict: {}, {}", if reject { "rejected" } else { "accepted" }, entry));
            let d = || J::obj().set("user", show(&user)).set("shim", if reject { "rejects" } else { "accepts" }).set("entry_point", entry).set("transport", format!("every operation from #{} on fails (the undisturbed run performs {})", from, clean.world.nops)).set("undisturbed_outcome", clean.outcome.describe()).set("outcome", obs.outcome.describe()).set("faulted_operation", format!("{:?}", obs.world.fault_op));
            if i < 2 {
                rep.sample(d());
            }
            if reject && obs.outcome != Outcome::Token(7000 + i) {
                rep.violations.push(viol("C11", "C11 reject-result-not-shim-error".into(), format!("the shim rejected the login with its error {}, the peer left after reading the verdict, and {} returned {} (a late {:?} failed)", 7000 + i, entry, obs.outcome.describe(), obs.world.fault_op), d()));
                return;
            }
            if obs.outcome != clean.outcome || obs.output() != clean.output() || obs.log.cbs.len() != clean.log.cbs.len() {
                rep.violations.push(viol("C11", "C11 late-fault-changes-the-connection-phase".into(), format!("a transport that fails only after the last operation changed the outcome ({} instead of {}), the bytes sent or the callbacks", obs.outcome.describe(), clean.outcome.describe()), d()));
                return;
            }
            rep.counters.inc("verdicts_kept_although_the_peer_was_gone");
        });
        rep.merge(r);
    }

    // ---- one transient transport error (Interrupted / WouldBlock / TimedOut) somewhere in the
    //      connection phase or behind it, with the handshake response arriving in pieces: whether the
    //      server gives up or carries on, after_authentication sees the client's user name or is not
    //      called at all, at most once, and a login it never saw is never acknowledged
    if !ctx.miri {
        let n = ctx.n(1500, 40_000);
        let r = par_cases(ctx, "C11", "transient-errors", n, |rng, i, rep| {
            let user: Vec<u8> = user_name(rng, i).into_iter().filter(|b| *b != 0).take(200).collect();
            let layout41 = i % 4 != 3;
            let tl = rng.below(30) as usize;
            let tail = rng.bytes(tl);
            let caps = (rng.next() as u32) & !CLIENT_SSL;
            let hs = if layout41 { wire::handshake41(caps, rng.next() as u32, 0x21, &user, &tail) } else { wire::handshake320((caps as u16) & !(CLIENT_PROTOCOL_41 as u16), 1 << 20, &user, &tail) };
            let depth = (i % 3) as usize;
            let mut cmds = Vec::new();
            let mut scripts = Vec::new();
            for k in 0..depth {
                cmds.push(Cmd::query(format!("q{}", k).as_bytes()));
                scripts.push(Script::Q(QProg::completed(k as u64, 0)));
            }
            let mut case = Case::new(cmds, scripts);
            case.handshake = hs;
            let (input, _) = case.input();
            let sk = *rng.pick(&[SchedKind::OneByte, SchedKind::HeaderCuts, SchedKind::Random, SchedKind::Fixed]);
            case.sched = make_sched(rng, sk, &input);
            let dry = run_case(&case);
            if harness_panic(&dry, rep) {
                return;
            }
            // most of the operations of such a short conversation belong to the connection phase
            case.fault.err_at = Some(rng.below(dry.world.nops.max(1)));
            case.fault.persistent = false;
            case.fault.err_kind = 100 + (i / 4 % 3) as u8;
            let obs = run_case(&case);
            rep.evaluations += 1;
            if harness_panic(&obs, rep) {
                return;
            }
            let kname = ["Interrupted", "WouldBlock", "TimedOut"][(case.fault.err_kind - 100) as usize];
            rep.counters.class(format!("transient {} on {:?} during a {} login -> {}", kname, obs.world.fault_op, if layout41 { "4.1" } else { "3.20" }, obs.outcome.class()));
            let d = || J::obj().set("layout", if layout41 { "HandshakeResponse41" } else { "HandshakeResponse320" }).set("user", show(&user)).set("fault", format!("{} at transport operation #{} ({:?})", kname, case.fault.err_at.unwrap(), obs.world.fault_op)).set("sched", case.sched.describe()).set("outcome", obs.outcome.describe());
            if i < 1 {
                rep.sample(d());
            }
            let fail = |sig: &str, what: String, rep: &mut Report| rep.violations.push(viol("C11", format!("C11 transient:{}", sig), what, d()));
            if let Outcome::Panic { file, line, msg } = &obs.outcome {
                fail(&panic_signature(file, *line, msg), format!("a transient {} made run_on panic: {}", kname, obs.outcome.describe()), rep);
                return;
            }
            let auths: Vec<&Cb> = obs.log.cbs.iter().filter(|c| matches!(c.kind, CbKind::Auth { .. })).collect();
            let commands = obs.log.cbs.len() - auths.len();
            if auths.len() > 1 {
                fail("auth-count", format!("after_authentication was called {} times", auths.len()), rep);
                return;
            }
            if let Some(CbKind::Auth { user: got, .. }) = auths.first().map(|a| &a.kind) {
                if got.as_deref() != Some(&user[..]) {
                    fail("user-name-differs", format!("after a transient {} on {:?}, after_authentication saw user {:?}; the client sent {}", kname, obs.world.fault_op, got.as_ref().map(|u| show(u)), show(&user)), rep);
                    return;
                }
            }
            if auths.is_empty() {
                let out = obs.output();
                let (pkts, _) = wire::packets_prefix(&out);
                let (msgs, _) = wire::messages_prefix(&out, &pkts);
                if commands > 0 || msgs.len() > 1 && msgs[1].payload.first() == Some(&0) {
                    fail("acknowledged-without-auth", format!("{} commands served / login acknowledged although after_authentication was never called", commands), rep);
                    return;
                }
            }
            if obs.outcome == Outcome::Ok && (auths.len() != 1 || commands != depth) {
                fail("ok-but-incomplete", format!("run_on returned Ok with {} after_authentication calls and {} of {} commands served", auths.len(), commands, depth), rep);
                return;
            }
            rep.counters.inc("transient_errors_in_connection_phase_judged");
        });
        rep.merge(r);
    }

    // ---- a shim that implements only the required methods: the trait's defaults are in force (no
    //      TLS offered, every login accepted). The greeting must not advertise TLS, any user gets OK
    //      with the next id and the commands behind it are served; a TLS request is refused.
    let n = if ctx.miri { 2 } else { ctx.n(600, 20_000) };
    let r = par_cases(ctx, "C11", "trait-defaults", n, |rng, i, rep| {
        let (hs, hs_class) = random_handshake(rng);
        let ssl = i % 6 == 5;
        let depth = (i % 4) as usize;
        let mut cmds = Vec::new();
        let mut scripts = Vec::new();
        for k in 0..depth {
            if k == 1 {
                cmds.push(Cmd::init_db(b"somedb"));
            } else {
                cmds.push(Cmd::query(format!("q{}", k).as_bytes()));
                scripts.push(Script::Q(QProg::completed(k as u64, 0)));
            }
        }
        let mut case = Case::new(cmds, scripts);
        case.minimal_shim = true;
        case.handshake = if ssl { wire::ssl_request(0x003f_a685, 1 << 24, 0x21) } else { hs };
        case.hs_seq = if rng.chance(1, 5) { rng.below(256) as u8 } else { 1 };
        let obs = run_case(&case);
        rep.evaluations += 1;
        if harness_panic(&obs, rep) {
            return;
        }
        rep.counters.class(format!("trait defaults: {} depth={}", if ssl { "SSLRequest".to_string() } else { hs_class.clone() }, depth));
        let d = || J::obj().set("shim", "required methods only (trait defaults)").set("handshake", if ssl { "SSLRequest".to_string() } else { hs_class.clone() }).set("handshake_id", case.hs_seq).set("pipelined_commands", depth).set("outcome", obs.outcome.describe());
        if i < 1 {
            rep.sample(d());
        }
        let fail = |sig: &str, what: String, rep: &mut Report| rep.violations.push(viol("C11", format!("C11 defaults:{}", sig), what, d()));
        if let Outcome::Panic { file, line, msg } = &obs.outcome {
            fail(&panic_signature(file, *line, msg), format!("run_on panicked: {}", obs.outcome.describe()), rep);
            return;
        }
        let out = obs.output();
        let (pkts, _) = wire::packets_prefix(&out);
        let (msgs, _) = wire::messages_prefix(&out, &pkts);
        match msgs.first().map(|g| wire::parse_greeting(&g.payload)) {
            Some(Ok(g)) => {
                if g.caps & CLIENT_SSL != 0 {
                    fail("greeting-ssl-bit", "the greeting advertises CLIENT_SSL although the shim offers no TLS configuration".into(), rep);
                    return;
                }
                if g.caps & CLIENT_PROTOCOL_41 == 0 || g.protocol != 10 {
                    fail("greeting", format!("protocol {} capabilities 0x{:08x}", g.protocol, g.caps), rep);
                    return;
                }
            }
            other => {
                fail("no-greeting", format!("{:?}", other.map(|r| r.err())), rep);
                return;
            }
        }
        let commands = obs.log.cbs.iter().filter(|c| !matches!(c.kind, CbKind::Auth { .. })).count();
        if ssl {
            if !obs.outcome.is_err() || commands != 0 || msgs.len() > 1 && msgs[1].payload.first() == Some(&0) {
                fail("ssl-request-not-refused", format!("TLS requested from a shim without TLS: run_on returned {}, {} commands served", obs.outcome.describe(), commands), rep);
            } else {
                rep.counters.inc("ssl_refusals_checked");
            }
            return;
        }
        let want_seq = case.hs_seq.wrapping_add(1);
        match msgs.get(1).map(|m| (m.seq_first, wire::parse_ok(&m.payload).is_ok() && m.payload.first() == Some(&0))) {
            Some((seq, true)) if seq == want_seq => {}
            other => {
                fail("accept-reply", format!("login under the default after_authentication answered by {:?}, expected OK with id {}", other, want_seq), rep);
                return;
            }
        }
        if obs.outcome != Outcome::Ok {
            fail("run_on-not-ok", format!("run_on returned {}", obs.outcome.describe()), rep);
            return;
        }
        let want_cbs = case.cmds.iter().filter(|c| matches!(c.kind, Kind::Query)).count();
        let dec = wire::decode_all(&obs.kinds, &msgs);
        if commands != want_cbs || dec.stop.is_some() || dec.used != msgs.len() {
            fail("pipelined-commands", format!("{} command callbacks for {} queries; responses decode: {:?}", commands, want_cbs, dec.stop), rep);
            return;
        }
        // the default on_init answers OK
        for (k, c) in case.cmds.iter().enumerate() {
            if c.kind == Kind::InitDb && !matches!(dec.resps.get(2 + k), Some(Resp::Simple(Part::Ok(_)))) {
                fail("default-on-init", format!("COM_INIT_DB under the default on_init answered by {:?}", dec.resps.get(2 + k)), rep);
                return;
            }
        }
        rep.counters.inc("accepts");
        rep.counters.inc("accepts_under_trait_defaults");
    });
    rep.merge(r);
    if ctx.strict() {
        rep.require("accepts_under_trait_defaults", 100);
    }

    // ---- the same clauses when the client takes the TLS upgrade the greeting offers: SSLRequests
    //      and inner handshake responses of every legal shape (capability masks, max-packet,
    //      charset, MariaDB-style extended capabilities in the reserved bytes), accept and reject
    if let Some(tm) = tls.as_ref() {
        let n = ctx.n(400, 3000);
        let r = par_cases(ctx, "C11", "tls-upgrade", n, |rng, i, rep| {
            let user: Vec<u8> = user_name(rng, i).into_iter().filter(|b| *b != 0).take(300).collect();
            let reject = i % 5 == 3;
            let depth = (i % 3) as usize;
            let mut cmds = Vec::new();
            let mut scripts = Vec::new();
            for k in 0..depth {
                cmds.push(Cmd::query(format!("q{}", k).as_bytes()));
                scripts.push(Script::Q(QProg::completed(k as u64, 0)));
            }
            let variant = if i % 4 == 0 { 0 } else { rng.next() | 1 };
            let seqs = if rng.chance(1, 4) { (rng.below(250) as u8, rng.below(250) as u8) } else { (1, 2) };
            let c = super::c18::TlsCase { tls13: rng.bool(), with_cert: false, server_mode: 0, user: user.clone(), cmds, scripts, first_cut: if rng.bool() { rng.range(1, 80) as usize } else { 0 }, cycle: if rng.bool() { vec![] } else { vec![rng.range(1, 300) as usize] }, write_limit: usize::MAX, close_notify: true, raw_limit: None, hs_variant: variant, app_override: None, seqs, auth_reject: if reject { Some(4243) } else { None }, record_per_command: rng.bool(), write_fault: None, buffer_writes: rng.bool(), eager_close: false };
            // a quarter of the connections meet one transient write error (EINTR) on one of the server's
            // writes. Either the server gives up with that I/O error (C19's business), or everything
            // this property says holds as if nothing had happened - in particular a rejection is not
            // reported to the backend's caller (the token) without the ERR having reached the client
            let mut c = c;
            let with_fault = i % 4 == 1;
            if with_fault {
                if let Ok(dry) = super::c18::run_tls(tm, &c) {
                    c.write_fault = Some((rng.below(dry.world.nwrite.max(1)), 100));
                }
            }
            let o = match super::c18::run_tls(tm, &c) {
                Ok(o) => o,
                Err(e) => {
                    rep.inconclusive.push(format!("TLS harness error: {}", e));
                    return;
                }
            };
            rep.evaluations += 1;
            if with_fault && o.world.write_fault_hit {
                rep.counters.inc("tls_connection_phases_with_a_transient_write_error");
                if matches!(o.outcome, Outcome::Io { .. }) {
                    rep.counters.inc("tls_transient_write_error_gave_up");
                    return;
                }
            }
            rep.counters.class(format!("tls upgrade: {} SSLRequest, user={}, {}, depth={}", if variant == 0 { "classic" } else { "varied" }, user_class(&user), if reject { "reject" } else { "accept" }, depth));
            let d = || J::obj().set("transport", "TLS upgrade").set("sslrequest_and_response_variant", format!("{:#x}", variant)).set("sslrequest_payload", hex(&o.world.client_raw[4.min(o.world.client_raw.len())..36.min(o.world.client_raw.len())])).set("user", show(&user)).set("ids", format!("{:?}", seqs)).set("shim", if reject { "rejects" } else { "accepts" }).set("outcome", o.outcome.describe());
            if i < 1 {
                rep.sample(d());
            }
            let fail = |sig: &str, what: String, rep: &mut Report| rep.violations.push(viol("C11", format!("C11 tls:{}", sig), what, d()));
            if let Outcome::Panic { file, line, msg } = &o.outcome {
                if is_harness_file(file) {
                    rep.inconclusive.push(format!("harness panic at {}:{}", file, line));
                    return;
                }
                fail(&panic_signature(file, *line, msg), format!("run_on panicked during a TLS connection phase: {}", o.outcome.describe()), rep);
                return;
            }
            if let Some(e) = &o.world.client_error {
                fail("client-rejects-server-bytes", format!("the TLS client rejected the server's bytes: {}", e), rep);
                return;
            }
            if o.world.deadlock {
                fail("deadlock", "the server waits for input while the TLS client waits for the server".into(), rep);
                return;
            }
            let auths: Vec<&Cb> = o.log.cbs.iter().filter(|c| matches!(c.kind, CbKind::Auth { .. })).collect();
            let commands: Vec<&Cb> = o.log.cbs.iter().filter(|c| !matches!(c.kind, CbKind::Auth { .. })).collect();
            if auths.len() != 1 {
                fail("auth-count", format!("after_authentication was called {} times (run_on returned {})", auths.len(), o.outcome.describe()), rep);
                return;
            }
            if let CbKind::Auth { user: got, .. } = &auths[0].kind {
                if got.as_deref() != Some(&user[..]) {
                    fail("user-name-differs", format!("after_authentication saw user {:?}, the client sent {}", got.as_ref().map(|u| show(u)), show(&user)), rep);
                    return;
                }
            }
            if let Some(cb) = commands.first() {
                if cb.ev_start < auths[0].ev_end {
                    fail("command-before-auth", format!("{} started before after_authentication returned", cb_summary(cb)), rep);
                    return;
                }
            }
            rep.counters.inc("auth_events_checked");
            rep.counters.inc("auth_events_checked_over_tls");
            let (pk, _) = wire::packets_prefix(&o.world.app_in);
            let (msgs, _) = wire::messages_prefix(&o.world.app_in, &pk);
            let want_seq = seqs.1.wrapping_add(1);
            let first = msgs.first();
            if reject {
                match first.map(|m| (m.seq_first, wire::parse_err(&m.payload))) {
                    Some((seq, Ok(e))) if e.code == 1045 && &e.state == b"28000" && seq == want_seq => {}
                    other => {
                        fail("reject-reply", format!("rejected login over TLS answered by {:?}, expected ERR 1045/28000 with id {}", other, want_seq), rep);
                        return;
                    }
                }
                if o.outcome != Outcome::Token(4243) {
                    fail("reject-error-not-returned", format!("run_on returned {} instead of the shim's own error", o.outcome.describe()), rep);
                    return;
                }
                if !commands.is_empty() || msgs.len() > 1 {
                    fail("served-after-reject", format!("{} callbacks / {} messages after the rejection", commands.len(), msgs.len() - 1), rep);
                    return;
                }
                rep.counters.inc("rejections");
                rep.counters.inc("callbacks_suppressed_after_reject_checked");
            } else {
                match first.map(|m| (m.seq_first, wire::parse_ok(&m.payload), m.payload.first().copied())) {
                    Some((seq, Ok(_), Some(0))) if seq == want_seq => {}
                    other => {
                        fail("accept-reply", format!("accepted login over TLS answered by {:?}, expected OK with id {}", other.map(|x| (x.0, x.2)), want_seq), rep);
                        return;
                    }
                }
                if o.outcome != Outcome::Ok {
                    fail("run_on-not-ok", format!("run_on returned {} after an accepted TLS login and well-formed commands", o.outcome.describe()), rep);
                    return;
                }
                if commands.len() != depth || msgs.len() != 1 + depth {
                    fail("pipelined-commands", format!("{} callbacks and {} replies for {} commands behind the handshake", commands.len(), msgs.len().saturating_sub(1), depth), rep);
                    return;
                }
                rep.counters.inc("accepts");
                rep.counters.inc("accepts_over_tls");
            }
        });
        rep.merge(r);
        if ctx.strict() {
            rep.require("accepts_over_tls", 50);
        }
    }
    if ctx.strict() {
        rep.require("greetings_parsed", 1000);
        rep.require("rejections", 100);
        rep.require("accepts", 1000);
        rep.require("ssl_refusals_checked", 50);
        rep.require("callbacks_suppressed_after_reject_checked", 100);
    }
    rep
}
