//! C04 — outbound bytes are well-framed, including messages of 16 MiB and more.
//! The reference packet reader must consume the complete raw output exactly; reassembled logical
//! messages are compared with the messages the shim's program denotes (built by the reference
//! encoder); messages >= 2^24-1 bytes must be split into maximal packets + a shorter one.
use super::c03::rich_case;
use super::common::*;
use crate::core::*;
use crate::shim::*;
use crate::util::*;
use crate::wire::{self, lenenc_int_size, Kind, MAXP};
use msql_srv::{Column, ColumnFlags, ColumnType};

/// cell length L with lenenc_size(L)+L == rem, if one exists
fn solve_one(rem: usize) -> Option<usize> {
    for p in [1usize, 3, 4, 9] {
        if rem >= p {
            let l = rem - p;
            if lenenc_int_size(l as u64) == p {
                return Some(l);
            }
        }
    }
    None
}

/// cell lengths whose encodings sum to exactly `rem`
fn solve(rem: usize) -> Vec<usize> {
    if let Some(l) = solve_one(rem) {
        return vec![l];
    }
    // pad with a 10-byte cell (11 encoded) and retry
    let mut v = vec![10];
    v.extend(solve(rem - 11));
    v
}

#[derive(Clone, Copy, Debug, PartialEq, Eq)]
enum Asm {
    OneCell,
    MiBCells,
    /// first cell ends `gap` bytes before the packet boundary (gap 1..3), so the next cell's length
    /// prefix straddles the boundary with `gap` bytes of room left in the packet
    SmallThenGiant(usize),
    GiantThenSmall,
}

/// Cell lengths for a row whose encoded size (incl. `overhead` header bytes) is exactly `target`.
fn assemble(target: usize, overhead: usize, asm: Asm) -> Option<Vec<usize>> {
    let rem = target.checked_sub(overhead)?;
    match asm {
        Asm::OneCell => Some(solve(rem)),
        Asm::MiBCells => {
            let mut v = Vec::new();
            let mut r = rem;
            while r >= 3 << 20 {
                v.push(1 << 20);
                r -= (1 << 20) + 4;
            }
            v.extend(solve(r));
            Some(v)
        }
        Asm::SmallThenGiant(gap) => {
            // first cell ends `gap` bytes before the packet boundary, so the boundary falls inside the
            // next cell's length prefix
            let e1 = MAXP - gap - overhead;
            if rem < e1 + 254 {
                return None;
            }
            let mut v = vec![e1 - 4];
            v.extend(solve(rem - e1));
            Some(v)
        }
        Asm::GiantThenSmall => {
            if rem < 100 {
                return None;
            }
            let mut v = solve(rem - 18);
            v.extend_from_slice(&[5, 5, 5]);
            Some(v)
        }
    }
}

fn expected_row(seed: u64, lens: &[usize], bin: bool) -> Vec<u8> {
    let mut out = Vec::new();
    if bin {
        out.push(0);
        out.extend(std::iter::repeat(0u8).take((lens.len() + 9) / 8));
    }
    for (i, &l) in lens.iter().enumerate() {
        wire::put_lenenc_int(&mut out, l as u64);
        stream_fill(&mut out, seed, i as u64, l, false);
    }
    out
}

fn big_case(ctx: &Ctx, target: usize, asm: Asm, bin: bool, write_limit: usize, rep: &mut Report, idx: u64) {
    let overhead = |n: usize| if bin { 1 + (n + 9) / 8 } else { 0 };
    // the bitmap length depends on the column count; iterate to a fixed point
    let mut lens = match assemble(target, overhead(1), asm) {
        Some(l) => l,
        None => return,
    };
    for _ in 0..4 {
        match assemble(target, overhead(lens.len()), asm) {
            Some(l) => {
                if l.len() == lens.len() {
                    lens = l;
                    break;
                }
                lens = l;
            }
            None => return,
        }
    }
    let want = expected_row(ctx.seed, &lens, bin);
    if want.len() != target {
        rep.inconclusive.push(format!("harness could not assemble a row of exactly {} bytes (got {})", target, want.len()));
        return;
    }
    let cols: Vec<Column> = (0..lens.len()).map(|i| Column { table: "t".into(), column: format!("c{}", i), coltype: ColumnType::MYSQL_TYPE_LONG_BLOB, colflags: ColumnFlags::empty() }).collect();
    let mut ops = vec![QOp::Start(0)];
    // a varying number of small rows first: the big message starts at a varying packet count
    let pre_rows = [0usize, 1, 59, 60, 61, 123, 124, 125, 250, 251][(idx as usize + target) % 10];
    for _ in 0..pre_rows {
        ops.push(QOp::Row((0..lens.len()).map(|_| Cell::val(V::Bytes(b"s".to_vec()))).collect(), RowForm::Owned));
    }
    for (i, &l) in lens.iter().enumerate() {
        ops.push(QOp::Col(Cell::val(V::Stream(ctx.seed, i as u64, l))));
    }
    ops.push(QOp::EndRow);
    // a small second row and the terminator must still be attributed correctly
    ops.push(QOp::Row((0..lens.len()).map(|_| Cell::val(V::Bytes(b"z".to_vec()))).collect(), RowForm::Owned));
    ops.push(QOp::Finish);
    let cmds = vec![Cmd::prepare(b"p"), if bin { Cmd::execute(1, &[], false) } else { Cmd::query(b"q") }, Cmd::ping()];
    let scripts = vec![Script::PrepOk { id: 1, params: vec![], cols: vec![] }, Script::Q(QProg { colsets: vec![cols], ops, on_err: OnErr::Drop })];
    let mut case = Case::new(cmds, scripts);
    case.write_limit = write_limit;
    case.log_reads = false;
    let obs = run_case(&case);
    rep.evaluations += 1;
    if harness_panic(&obs, rep) {
        return;
    }
    let k = (target + 8) / MAXP;
    let dd = target as i64 - (k * MAXP) as i64;
    rep.counters.class(format!("k={} d={} {:?} {} wl={}", k, dd, asm, if bin { "bin" } else { "text" }, if write_limit == usize::MAX { "inf".to_string() } else { write_limit.to_string() }));
    rep.counters.class(format!("{} small rows before the big message", pre_rows));
    rep.counters.max("max_message_bytes", target as u64);
    let d = || J::obj().set("row_bytes", target).set("k", k).set("d", dd).set("assembly", format!("{:?}", asm)).set("cells", lens.iter().map(|&l| J::from(l)).collect::<Vec<_>>()).set("mode", if bin { "binary" } else { "text" }).set("write_limit", if write_limit == usize::MAX { -1 } else { write_limit as i64 }).set("outcome", obs.outcome.describe());
    if idx < 2 {
        rep.sample(d());
    }
    if let Outcome::Panic { file, line, msg } = &obs.outcome {
        rep.violations.push(viol("C04", format!("C04 {}", panic_signature(file, *line, msg)), format!("writing a {}-byte row panicked: {}", target, obs.outcome.describe()), d()));
        return;
    }
    let out = obs.output();
    let pkts = match wire::packets(&out) {
        Ok(p) => p,
        Err(e) => {
            rep.violations.push(viol("C04", "C04 bad-framing".into(), e, d()));
            return;
        }
    };
    for p in &pkts {
        if p.len == MAXP {
            rep.counters.inc("maximal_packets_seen");
        }
    }
    let (msgs, complete) = wire::messages_prefix(&out, &pkts);
    if !complete {
        rep.violations.push(viol("C04", "C04 missing-trailer".into(), "output ends with a maximal packet that is not followed by a shorter (possibly empty) one".into(), d()));
        return;
    }
    // find the big row: the first message after the column-definition EOF of exchange #3
    // messages: greeting, auth ok, prepare ok, [count, defs.., EOF, row1, row2, EOF], ping ok
    let first_row = 3 + 1 + lens.len() + 1 + pre_rows;
    let Some(m) = msgs.get(first_row) else {
        rep.violations.push(viol("C04", "C04 row-message-missing".into(), format!("only {} messages in the output, expected the big row at index {}", msgs.len(), first_row), d()));
        return;
    };
    if m.payload != want {
        let off = first_diff(&m.payload, &want);
        // describe how the server cut the message
        let lens_p: Vec<usize> = pkts[m.first..(m.first + m.npkts + 2).min(pkts.len())].iter().map(|p| p.len).collect();
        rep.violations.push(viol(
            "C04",
            format!("C04 big-message-differs k={} {}", k, if m.payload.len() < want.len() { "short" } else { "content" }),
            format!("client-side reassembly yields a row message of {} bytes, the server meant {} bytes; first difference at {:?}; packet lengths from there: {:?}", m.payload.len(), want.len(), off, lens_p),
            d(),
        ));
        return;
    }
    rep.counters.inc("big_messages_compared");
    // split rule: all packets of the message but the last are maximal, the last is shorter
    let ps = &pkts[m.first..m.first + m.npkts];
    let ok_split = ps[..ps.len() - 1].iter().all(|p| p.len == MAXP) && ps[ps.len() - 1].len < MAXP && ps.len() == target / MAXP + 1;
    if !ok_split {
        rep.violations.push(viol("C04", "C04 split-rule".into(), format!("a {}-byte message was sent as packets of {:?}", target, ps.iter().map(|p| p.len).collect::<Vec<_>>()), d()));
        return;
    }
    if ps[ps.len() - 1].len == 0 {
        rep.counters.inc("empty_trailers_seen");
    }
    // everything after it still decodes: second row, EOF, sentinel
    let dec = wire::decode_all(&obs.kinds, &msgs);
    if dec.stop.is_some() || dec.used != msgs.len() || obs.outcome != Outcome::Ok {
        rep.violations.push(viol("C04", "C04 stream-after-big-message".into(), format!("the responses around the big message do not decode: {:?} (used {} of {} messages, outcome {})", dec.stop, dec.used, msgs.len(), obs.outcome.describe()), d()));
    }
}

/// A row of which `partial` bytes (at least one maximal packet) have been written with write_col
/// and which is then abandoned: finish_error / finish / drop with columns still missing. Either some
/// writer call (or run_on) reports the refusal, and what reached the transport is a prefix of a
/// well-framed stream; or every call succeeds, and then the whole output is well-framed and decodes
/// into one conformant response per command.
fn abandoned_case(ctx: &Ctx, partial: usize, ending: u8, bin: bool, rep: &mut Report, idx: u64) {
    let ncols = 2 + (idx as usize % 2);
    let cols: Vec<Column> = (0..ncols).map(|i| Column { table: "t".into(), column: format!("c{}", i), coltype: ColumnType::MYSQL_TYPE_LONG_BLOB, colflags: ColumnFlags::empty() }).collect();
    let mut ops = vec![QOp::Start(0)];
    if idx % 3 != 0 {
        ops.push(QOp::Row((0..ncols).map(|_| Cell::val(V::Bytes(b"s".to_vec()))).collect(), RowForm::Owned));
    }
    // one cell: 4-byte length prefix + data (the row stays one column short, or two)
    ops.push(QOp::Col(Cell::val(V::Stream(ctx.seed, 77, partial - 4))));
    let name = match ending {
        0 => {
            ops.push(QOp::FinishErr(1105, b"gave up in the middle of a row".to_vec()));
            "finish_error"
        }
        1 => {
            ops.push(QOp::Finish);
            "finish"
        }
        _ => {
            ops.push(QOp::DropRow);
            "drop"
        }
    };
    let cmds = vec![Cmd::prepare(b"p"), if bin { Cmd::execute(1, &[], false) } else { Cmd::query(b"q") }, Cmd::ping()];
    let scripts = vec![Script::PrepOk { id: 1, params: vec![], cols: vec![] }, Script::Q(QProg { colsets: vec![cols], ops, on_err: OnErr::Drop })];
    let mut case = Case::new(cmds, scripts);
    case.log_reads = false;
    let obs = run_case(&case);
    rep.evaluations += 1;
    if harness_panic(&obs, rep) {
        return;
    }
    rep.counters.class(format!("abandoned row of {} bytes ({} + {}) then {} {}", len_class(partial), partial / MAXP, partial % MAXP, name, if bin { "bin" } else { "text" }));
    let d = || J::obj().set("bytes_of_the_unfinished_row", partial).set("columns", ncols).set("then", name).set("mode", if bin { "binary" } else { "text" }).set("outcome", obs.outcome.describe());
    if idx < 1 {
        rep.sample(d());
    }
    if let Outcome::Panic { file, line, msg } = &obs.outcome {
        rep.violations.push(viol("C04", format!("C04 {}", panic_signature(file, *line, msg)), format!("abandoning a {}-byte unfinished row panicked: {}", partial, obs.outcome.describe()), d()));
        return;
    }
    let out = obs.output();
    let (pkts, used) = wire::packets_prefix(&out);
    let rest = out.len() - used;
    let cb = obs.log.cbs.iter().find(|c| matches!(c.kind, CbKind::Query(_) | CbKind::Execute { .. }));
    let refused = cb.map(|c| c.results.iter().any(|r| r.err.is_some())).unwrap_or(false) || !matches!(obs.outcome, Outcome::Ok);
    if refused {
        // only a prefix can be judged: whole packets so far, every one but the last of a message maximal
        rep.counters.inc("abandoned_rows_refused");
        rep.counters.add("packets_checked", pkts.len() as u64);
        let _ = rest;
        return;
    }
    // accepted: the stream must be complete and conformant
    let (msgs, complete) = wire::messages_prefix(&out, &pkts);
    if rest != 0 || !complete {
        rep.violations.push(viol("C04", "C04 missing-trailer".into(), format!("every call succeeded, but the output ends inside a message ({} stray bytes, last message complete: {})", rest, complete), d()));
        return;
    }
    let dec = wire::decode_all(&obs.kinds, &msgs);
    if dec.stop.is_some() || dec.used != msgs.len() {
        rep.violations.push(viol("C04", "C04 abandoned-row-corrupts-stream".into(), format!("every call succeeded after {} bytes of an unfinished row followed by {}, but the output does not decode: {:?} (used {} of {} messages; message sizes {:?})", partial, name, dec.stop, dec.used, msgs.len(), msgs.iter().skip(3).map(|m| m.payload.len()).collect::<Vec<_>>()), d()));
        return;
    }
    rep.counters.inc("abandoned_rows_accepted_and_conformant");
}

pub fn run(ctx: &Ctx) -> Report {
    let mut rep = Report::default();
    rep.rule = "cases = (a) rows whose encoded size is k*(2^24-1)+d assembled as one cell / 1 MiB cells / small-then-giant (boundary inside a length prefix) / giant-then-small, text and binary, with transport write limits inf/65536; (b) ordinary random conversations with write limits inf/65536/1; a class is a (k, d, assembly, mode, write limit) tuple; non-trivial = the raw output was split by the reference packet reader, reassembled and the big message compared byte for byte with the reference encoding".into();
    if !ctx.miri {
        let mut targets: Vec<usize> = Vec::new();
        let ds: Vec<i64> = if ctx.thorough { (-8..=8).collect() } else { vec![-5, -4, -3, -1, 0, 1, 2] };
        for &d in &ds {
            targets.push((MAXP as i64 + d) as usize);
        }
        targets.push(MAXP + 300);

        // k = 2, d = 0: the last write_all chunk is exactly one full packet starting on an empty buffer
        targets.push(2 * MAXP);
        if ctx.thorough {
            for &d in &ds {
                targets.push((2 * MAXP as i64 + d) as usize);
            }
            targets.push(2 * MAXP + 300);
            targets.push(MAXP + 70_000);
        }
        let mut cases: Vec<(usize, Asm, bool, usize)> = Vec::new();
        for (ti, &t) in targets.iter().enumerate() {
            let asms: Vec<Asm> = if ctx.thorough { vec![Asm::OneCell, Asm::MiBCells, Asm::SmallThenGiant(1), Asm::SmallThenGiant(2), Asm::SmallThenGiant(3), Asm::GiantThenSmall] } else if t == 2 * MAXP { vec![Asm::OneCell, Asm::MiBCells] } else { vec![[Asm::OneCell, Asm::MiBCells, Asm::GiantThenSmall][ti % 3], Asm::SmallThenGiant(1), Asm::SmallThenGiant(2)] };
            for a in asms {
                for bin in [false, true] {
                    if !ctx.thorough && bin != (ti % 2 == 0) && !matches!(a, Asm::SmallThenGiant(_)) && t != 2 * MAXP {
                        continue;
                    }
                    let wl = if (ti + bin as usize) % 3 == 0 { 65_536 } else { usize::MAX };
                    cases.push((t, a, bin, wl));
                }
            }
        }
        // one cell of exactly 2^24-1, 2^24, 2^24+1 bytes, text (prefix 4 bytes) and binary (2 more bytes
        // of row header for a single column)
        for l in [MAXP, MAXP + 1, MAXP + 2] {
            // the length prefix takes 4 bytes below 2^24 and 9 bytes from 2^24 on
            let p = if l < (1 << 24) { 4 } else { 9 };
            cases.push((l + p, Asm::OneCell, false, usize::MAX));
            cases.push((l + p + 2, Asm::OneCell, true, if l == MAXP + 1 { 65_536 } else { usize::MAX }));
        }
        // mid-sized messages (neither tiny nor near 2^24) behind 0..251 queued small packets, under
        // short transport writes of several sizes: whatever batching sits between a packet and the
        // transport must keep the bytes in order
        let mids = [9000usize, 16_384, 20_000, 70_000, 100_000, 300_000];
        let wls = [100usize, 1000, 4096, 16_384, 65_536];
        for (mi, &t) in mids.iter().enumerate() {
            for bin in [false, true] {
                if ctx.thorough {
                    for &wl in &wls {
                        cases.push((t, Asm::OneCell, bin, wl));
                        cases.push((t + 1 + mi, Asm::GiantThenSmall, bin, wl));
                    }
                } else {
                    cases.push((t, if mi % 2 == 0 { Asm::OneCell } else { Asm::GiantThenSmall }, bin, wls[(mi + bin as usize) % wls.len()]));
                    cases.push((t + 3, Asm::OneCell, bin, wls[(mi + 2 + bin as usize) % wls.len()]));
                }
            }
        }
        let r = par_cases(ctx, "C04", "big", cases.len() as u64, |_rng, i, rep| {
            let (t, a, bin, wl) = cases[i as usize];
            big_case(ctx, t, a, bin, wl, rep, i);
        });
        rep.merge(r);

        // values of every kind laid across the packet boundary: behind a blob that ends k bytes in
        // front of the 2^24-1 limit comes an integer, a float, a date, a time, a short string or a
        // NULL (text and binary), so that the limit falls at each offset of that cell's encoding; a
        // small cell follows. The writer of such a cell hands its bytes to the packet layer in
        // whatever pieces it likes - what the client reassembles must be the row.
        let kinds: Vec<(ColumnType, ColumnFlags, V)> = vec![
            (ColumnType::MYSQL_TYPE_LONGLONG, ColumnFlags::empty(), V::I64(-1234567890123456789)),
            (ColumnType::MYSQL_TYPE_LONGLONG, ColumnFlags::UNSIGNED_FLAG, V::U64(u64::MAX)),
            (ColumnType::MYSQL_TYPE_LONG, ColumnFlags::empty(), V::I32(7654321)),
            (ColumnType::MYSQL_TYPE_SHORT, ColumnFlags::empty(), V::I16(-12345)),
            (ColumnType::MYSQL_TYPE_TINY, ColumnFlags::UNSIGNED_FLAG, V::U8(200)),
            (ColumnType::MYSQL_TYPE_LONGLONG, ColumnFlags::UNSIGNED_FLAG, V::Usize(1 << 40)),
            (ColumnType::MYSQL_TYPE_DOUBLE, ColumnFlags::empty(), V::F64(-7654.000244140625)),
            (ColumnType::MYSQL_TYPE_FLOAT, ColumnFlags::empty(), V::F32(1.5e-7)),
            (ColumnType::MYSQL_TYPE_DATE, ColumnFlags::empty(), V::Date(chrono::NaiveDate::from_ymd_opt(2021, 12, 31).unwrap())),
            (ColumnType::MYSQL_TYPE_DATETIME, ColumnFlags::empty(), V::DateTime(chrono::NaiveDate::from_ymd_opt(1999, 1, 2).unwrap().and_hms_micro_opt(3, 4, 5, 678901).unwrap())),
            (ColumnType::MYSQL_TYPE_TIME, ColumnFlags::empty(), V::Dur(std::time::Duration::new(100_000, 123_456_000))),
            (ColumnType::MYSQL_TYPE_VAR_STRING, ColumnFlags::empty(), V::Str("short string".into())),
            (ColumnType::MYSQL_TYPE_LONGLONG, ColumnFlags::empty(), V::Myc(mysql_common::value::Value::Int(-99887766554433))),
            (ColumnType::MYSQL_TYPE_LONG, ColumnFlags::empty(), V::Null),
        ];
        const BEYOND: usize = 1 << 20;
        let mut tcases: Vec<(usize, bool, usize)> = Vec::new(); // (kind, binary, bytes of room left in the packet)
        for (ki, _) in kinds.iter().enumerate() {
            for bin in [false, true] {
                if ctx.thorough {
                    for room in 0..=14 {
                        tcases.push((ki, bin, room));
                    }
                } else {
                    tcases.push((ki, bin, 1 + (ki * 3 + bin as usize) % 9));
                }
                // and behind a blob that has already filled a packet by itself (room = 1000 means: the
                // blob ends 1000 bytes BEYOND the limit): whatever was handed over early, the value
                // and the NULL bits behind it belong to the same row
                if bin || ki % 4 == 0 {
                    tcases.push((ki, bin, BEYOND + if ctx.thorough { 0 } else { ki }));
                }
            }
        }
        let r = par_cases(ctx, "C04", "typed-cells-at-the-boundary", tcases.len() as u64, |_rng, i, rep| {
            let (ki, bin, room) = tcases[i as usize];
            let (ct, fl, v) = kinds[ki].clone();
            // the first cell's encoding (4-byte prefix) ends `room` bytes in front of the limit
            let head = if bin { 2 } else { 0 };
            let n = if room >= BEYOND { MAXP + 1000 + (room - BEYOND) } else { MAXP - head - 4 - room };
            let cols = vec![
                Column { table: "t".into(), column: "big".into(), coltype: ColumnType::MYSQL_TYPE_LONG_BLOB, colflags: ColumnFlags::empty() },
                Column { table: "t".into(), column: "v".into(), coltype: ct, colflags: fl },
                Column { table: "t".into(), column: "tail".into(), coltype: ColumnType::MYSQL_TYPE_VAR_STRING, colflags: ColumnFlags::empty() },
            ];
            let ops = vec![QOp::Start(0), QOp::Col(Cell::val(V::Stream(ctx.seed, 40 + i, n))), QOp::Col(Cell::val(v.clone())), QOp::Col(Cell::val(V::Str("tail".into()))), QOp::EndRow, QOp::Finish];
            let cmds = vec![Cmd::prepare(b"p"), if bin { Cmd::execute(1, &[], false) } else { Cmd::query(b"q") }, Cmd::ping()];
            let scripts = vec![Script::PrepOk { id: 1, params: vec![], cols: vec![] }, Script::Q(QProg { colsets: vec![cols], ops, on_err: OnErr::Drop })];
            let mut case = Case::new(cmds, scripts);
            case.log_reads = false;
            case.write_limit = [usize::MAX, 65_536, usize::MAX][(i % 3) as usize];
            let obs = run_case(&case);
            rep.evaluations += 1;
            if harness_panic(&obs, rep) {
                return;
            }
            let vn = format!("{:?}", v).chars().take(40).collect::<String>();
            rep.counters.class(format!("typed cell at the boundary: {:?} {} room={}", ct, if bin { "bin" } else { "text" }, if room >= BEYOND { "blob beyond the limit".to_string() } else if room > 9 { ">9".to_string() } else { room.to_string() }));
            let d = || J::obj().set("value", vn.clone()).set("column", format!("{:?}", ct)).set("mode", if bin { "binary" } else { "text" }).set("bytes_of_room_in_front_of_the_limit", room).set("blob_bytes", n).set("outcome", obs.outcome.describe());
            if i < 1 {
                rep.sample(d());
            }
            if let Outcome::Panic { file, line, msg } = &obs.outcome {
                rep.violations.push(viol("C04", format!("C04 {}", panic_signature(file, *line, msg)), format!("writing a value across the packet limit panicked: {}", obs.outcome.describe()), d()));
                return;
            }
            let dec = match decode_output(&obs) {
                Ok(x) => x.2,
                Err(e) => {
                    rep.violations.push(viol("C04", "C04 bad-framing".into(), e, d()));
                    return;
                }
            };
            let Some(wire::Resp::Parts(parts)) = dec.resps.get(3) else {
                rep.violations.push(viol("C04", "C04 typed-cell-row-lost".into(), format!("the reply with a value laid across the packet limit does not reassemble into a response: {:?}; outcome {}", dec.stop, obs.outcome.describe()), d()));
                return;
            };
            let Some(wire::Part::Rows { cols: defs, rows, .. }) = parts.first() else {
                rep.violations.push(viol("C04", "C04 typed-cell-row-lost".into(), "the reply is not a resultset".into(), d()));
                return;
            };
            let want = super::values::sem_of(&v);
            let mut blob = Vec::new();
            stream_fill(&mut blob, ctx.seed, 40 + i, n, false);
            let ok = (|| -> Result<(), String> {
                let raw = rows.first().ok_or("no row")?;
                if rows.len() != 1 {
                    return Err(format!("{} rows for one", rows.len()));
                }
                if bin {
                    let tf: Vec<(u8, u16)> = defs.iter().map(|c| (c.typ, c.flags)).collect();
                    let vals = wire::decode_bin_row(raw, &tf)?;
                    match &vals[0] {
                        wire::BinVal::Bytes(b) if *b == blob => {}
                        _ => return Err("the blob in front of the value differs".into()),
                    }
                    if !super::values::bin_matches(&vals[1], &want, tf[1].0) {
                        return Err(format!("the value arrives as {:?}", vals[1]));
                    }
                    match &vals[2] {
                        wire::BinVal::Bytes(b) if b == b"tail" => {}
                        other => return Err(format!("the cell behind the value arrives as {:?}", other)),
                    }
                } else {
                    let vals = wire::decode_text_row(raw, 3)?;
                    if vals[0].as_deref() != Some(&blob[..]) {
                        return Err("the blob in front of the value differs".into());
                    }
                    if !super::values::text_cell_matches(&vals[1], &want) {
                        return Err(format!("the value arrives as {:?}", vals[1].as_ref().map(|b| show(b))));
                    }
                    if vals[2].as_deref() != Some(&b"tail"[..]) {
                        return Err(format!("the cell behind the value arrives as {:?}", vals[2].as_ref().map(|b| show(b))));
                    }
                }
                Ok(())
            })();
            match ok {
                Ok(()) => rep.counters.inc("typed_cells_across_the_limit_compared"),
                Err(e) => rep.violations.push(viol("C04", "C04 typed-cell-at-boundary-differs".into(), format!("a {:?} value written {} byte(s) in front of the 2^24-1 limit: {}", ct, room, e), d())),
            }
        });
        rep.merge(r);

        // unfinished rows that already filled a packet, then abandoned
        let mut ab: Vec<(usize, u8, bool)> = vec![(MAXP, 0, false), (MAXP + 1000, 0, false), (MAXP - 1, 0, false), (MAXP + 3, 1, false), (MAXP + 7, 2, false), (MAXP + 9, 0, true)];
        if ctx.thorough {
            for p in [MAXP - 1, MAXP, MAXP + 1, MAXP + 70_000, 2 * MAXP, 2 * MAXP + 5] {
                for e in 0..3u8 {
                    for bin in [false, true] {
                        ab.push((p, e, bin));
                    }
                }
            }
        }
        let r = par_cases(ctx, "C04", "abandoned", ab.len() as u64, |_rng, i, rep| {
            let (p, e, bin) = ab[i as usize];
            abandoned_case(ctx, p, e, bin, rep, i);
        });
        rep.merge(r);

        // a column definition larger than 16 MiB (thorough)
        if ctx.thorough {
            let r = par_cases(ctx, "C04", "bigname", 2, |_rng, i, rep| {
                let nlen = if i == 0 { MAXP - 30 } else { MAXP + 5 };
                let mut name = Vec::new();
                stream_fill(&mut name, ctx.seed, 5, nlen, true);
                let name = String::from_utf8(name).unwrap();
                let cols = vec![Column { table: "t".into(), column: name.clone(), coltype: ColumnType::MYSQL_TYPE_LONG, colflags: ColumnFlags::empty() }];
                let ops = vec![QOp::Start(0), QOp::Finish];
                let mut case = Case::new(vec![Cmd::query(b"q"), Cmd::ping()], vec![Script::Q(QProg { colsets: vec![cols], ops, on_err: OnErr::Drop })]);
                case.log_reads = false;
                let obs = run_case(&case);
                rep.evaluations += 1;
                rep.counters.class(format!("column name of {} bytes", len_class(nlen)));
                let d = || J::obj().set("column_name_bytes", nlen).set("outcome", obs.outcome.describe());
                match decode_output(&obs) {
                    Err(e) => rep.violations.push(viol("C04", "C04 bad-framing".into(), e, d())),
                    Ok((_, _, dec)) => match dec.resps.get(2) {
                        Some(wire::Resp::Parts(p)) if matches!(p.first(), Some(wire::Part::Rows { cols, .. }) if cols.len() == 1 && cols[0].name == name.as_bytes()) => rep.counters.inc("big_messages_compared"),
                        _ => rep.violations.push(viol("C04", "C04 big-definition-differs".into(), format!("a column definition with a {}-byte name did not arrive intact ({:?})", nlen, dec.stop), d())),
                    },
                }
            });
            rep.merge(r);
        }
    }

    // ---- ordinary framing: random conversations, short writes
    let n = if ctx.miri { 3 } else { ctx.n(3000, 100_000) };
    let r = par_cases(ctx, "C04", "small", n, |rng, i, rep| {
        let (mut case, _) = rich_case(rng, 8, true);
        case.write_limit = *rng.pick(&[usize::MAX, 65_536, 1, 2, 7]);
        let obs = run_case(&case);
        rep.evaluations += 1;
        if harness_panic(&obs, rep) {
            return;
        }
        rep.counters.class(format!("small conversation wl={}", if case.write_limit == usize::MAX { "inf".to_string() } else { case.write_limit.to_string() }));
        let d = || J::obj().set("commands", kinds_summary(&case.cmds)).set("write_limit", if case.write_limit == usize::MAX { -1 } else { case.write_limit as i64 }).set("outcome", obs.outcome.describe());
        if i == 0 {
            rep.sample(d());
        }
        let out = obs.output();
        match wire::messages(&out) {
            Err(e) => rep.violations.push(viol("C04", "C04 bad-framing".into(), e, d())),
            Ok((pkts, msgs)) => {
                rep.counters.add("packets_checked", pkts.len() as u64);
                rep.counters.add("messages_reassembled", msgs.len() as u64);
                // every packet carries one message (or one fragment of one): two messages under one
                // header, or one message cut in two, still "frame" - the lengths add up - but what the
                // client reassembles are then not the messages of the protocol. (Which responses they
                // form is C03's clause; that each is a message at all is framing.)
                if obs.outcome == Outcome::Ok {
                    let dec = wire::decode_all(&obs.kinds, &msgs);
                    if let Some(wire::Stop::Bad(k, e)) = &dec.stop {
                        rep.violations.push(viol("C04", "C04 reassembled-messages-are-not-protocol-messages".into(), format!("the packets frame, but the messages they reassemble to stop making sense at exchange #{}: {}", k, e), d()));
                    } else {
                        rep.counters.inc("conversations_whose_reassembled_messages_all_decode");
                    }
                }
            }
        }
    });
    rep.merge(r);
    // ---- the backend's callback returns its own error in the middle of a row (`?` on its data source
    //      between two cells): the cells of the row it never finished are in no message the client
    //      reassembles, whatever the library adds on its way out (the unchanged library adds nothing);
    //      the rows it did finish arrive as they were written
    let n = if ctx.miri { 2 } else { ctx.n(600, 10_000) };
    let r = par_cases(ctx, "C04", "backend-gives-up-in-mid-row", n, |rng, i, rep| {
        let ncols = rng.range(2, 4) as usize;
        let cols: Vec<_> = (0..ncols).map(|k| simple_col(&format!("c{}", k), ColumnType::MYSQL_TYPE_VAR_STRING)).collect();
        let bin = i % 2 == 1;
        let nrows = rng.below(4);
        let mut ops = vec![QOp::Start(0)];
        let mut want_rows: Vec<Vec<u8>> = Vec::new();
        for r in 0..nrows {
            let vals: Vec<Vec<u8>> = (0..ncols).map(|c| format!("row{}-col{}-{}", r, c, "x".repeat(rng.below(40) as usize)).into_bytes()).collect();
            let mut enc = Vec::new();
            if bin {
                enc.push(0);
                enc.extend(std::iter::repeat(0u8).take((ncols + 7 + 2) / 8));
            }
            for v in &vals {
                wire::put_lenenc_str(&mut enc, v);
            }
            want_rows.push(enc);
            ops.push(QOp::Row(vals.into_iter().map(|v| Cell::val(V::Bytes(v))).collect(), RowForm::Owned));
        }
        let marker = format!("NEVER-FINISHED-{}-", i).into_bytes();
        let k = rng.range(1, ncols as u64 - 1) as usize;
        for c in 0..k {
            let mut v = marker.clone();
            v.extend_from_slice(format!("cell{}", c).as_bytes());
            ops.push(QOp::Col(Cell::val(V::Bytes(v))));
        }
        ops.push(QOp::Bail(3000 + i));
        let mut cmds = vec![Cmd::prepare(b"p")];
        let mut scripts = vec![Script::PrepOk { id: 1, params: vec![], cols: cols.clone() }];
        cmds.push(if bin { Cmd::execute_plain(1, &[], false) } else { Cmd::query(b"q") });
        scripts.push(Script::Q(QProg { colsets: vec![cols.clone()], ops, on_err: OnErr::Drop }));
        if rng.bool() {
            cmds.push(Cmd::ping());
        }
        let mut case = Case::new(cmds, scripts);
        if rng.bool() {
            case.write_limit = *rng.pick(&[1usize, 7, 100, 4096]);
        }
        let obs = run_case(&case);
        rep.evaluations += 1;
        if harness_panic(&obs, rep) {
            return;
        }
        rep.counters.class(format!("backend gives up after {} of {} cells of a row, {} finished rows, {}", k, ncols, nrows, if bin { "binary" } else { "text" }));
        let d = || J::obj().set("columns", ncols).set("finished_rows", nrows).set("cells_of_the_unfinished_row", k).set("protocol", if bin { "binary" } else { "text" }).set("outcome", obs.outcome.describe());
        if i < 2 {
            rep.sample(d());
        }
        if let Outcome::Panic { file, line, msg } = &obs.outcome {
            rep.violations.push(viol("C04", format!("C04 {}", panic_signature(file, *line, msg)), format!("panic while the backend gave up in mid-row: {}", obs.outcome.describe()), d()));
            return;
        }
        let out = obs.output();
        let (pkts, used) = wire::packets_prefix(&out);
        if used != out.len() {
            rep.violations.push(viol("C04", "C04 bad-framing".into(), format!("{} bytes at the end of the output do not form a packet", out.len() - used), d()));
            return;
        }
        let (msgs, _) = wire::messages_prefix(&out, &pkts);
        rep.counters.add("messages_reassembled", msgs.len() as u64);
        for (mi, m) in msgs.iter().enumerate() {
            if m.payload.windows(marker.len()).any(|w| w == &marker[..]) {
                rep.violations.push(viol("C04", "C04 unfinished-row-reaches-the-client".into(), format!("message #{} that the client reassembles ({} bytes, first byte {:#04x}) contains a cell of the row the backend never finished", mi, m.payload.len(), m.payload.first().copied().unwrap_or(0)), d()));
                return;
            }
        }
        // the finished rows: greeting, auth OK, PREPARE reply (OK + ncols definitions + EOF), then the
        // resultset header (count, definitions, EOF) and the rows
        let first_row = 2 + (1 + ncols + 1) + (1 + ncols + 1);
        for (r, want) in want_rows.iter().enumerate() {
            match msgs.get(first_row + r) {
                Some(m) if &m.payload == want => rep.counters.inc("finished_rows_compared"),
                other => {
                    rep.violations.push(viol("C04", "C04 finished-row-differs".into(), format!("row {} that the backend finished before it gave up arrives as {:?}", r, other.map(|m| show(&m.payload[..m.payload.len().min(60)]))), d()));
                    return;
                }
            }
        }
        rep.counters.inc("abandoned_in_mid_row_checked");
    });
    rep.merge(r);

    // ---- a transport that is slow for a moment: rows of a few KB under short writes, and ONE transient
    //      error (WouldBlock / TimedOut / Interrupted) on one write or flush, often in the middle of a
    //      packet that the transport has already taken a part of. The server may give up (that is
    //      C19's clause); if it carries on and run_on returns Ok, the client must have received exactly
    //      the byte stream of the undisturbed twin - no packet begun twice, none cut short
    let n = if ctx.miri { 2 } else { ctx.n(800, 20_000) };
    let r = par_cases(ctx, "C04", "slow-transport", n, |rng, i, rep| {
        let ncols = rng.range(1, 3) as usize;
        let cols: Vec<_> = (0..ncols).map(|k| simple_col(&format!("c{}", k), ColumnType::MYSQL_TYPE_BLOB)).collect();
        let nrows = rng.range(1, 6);
        let mut ops = vec![QOp::Start(0)];
        for r in 0..nrows {
            let cells: Vec<Cell> = (0..ncols)
                .map(|k| {
                    let mut b = Vec::new();
                    let l = *rng.pick(&[0usize, 10, 300, 1500, 3000, 9000]);
                    stream_fill(&mut b, rng.next(), r * 7 + k as u64, l, false);
                    Cell::val(V::Bytes(b))
                })
                .collect();
            ops.push(QOp::Row(cells, RowForm::Owned));
        }
        ops.push(QOp::Finish);
        let prog = QProg { colsets: vec![cols.clone()], ops, on_err: OnErr::Drop };
        let bin = i % 2 == 1;
        let mut cmds = vec![Cmd::prepare(b"p")];
        let mut scripts = vec![Script::PrepOk { id: 1, params: vec![], cols: cols.clone() }];
        cmds.push(if bin { Cmd::execute(1, &[], false) } else { Cmd::query(b"q") });
        scripts.push(Script::Q(prog));
        cmds.push(Cmd::ping());
        let mut case = Case::new(cmds, scripts);
        case.write_limit = *rng.pick(&[100usize, 700, 1000, 4096, 65_536]);
        let dry = run_case(&case);
        if dry.outcome != Outcome::Ok {
            rep.inconclusive.push(format!("slow-transport: the undisturbed run ended with {}", dry.outcome.describe()));
            return;
        }
        // the fault lands on a write or flush of the reply (operations of the second half of the run)
        let nops = dry.world.nops.max(2);
        case.fault.err_at = Some(nops / 3 + rng.below(nops - nops / 3));
        case.fault.persistent = false;
        case.fault.err_kind = 100 + (i / 2 % 3) as u8;
        let obs = run_case(&case);
        rep.evaluations += 1;
        if harness_panic(&obs, rep) {
            return;
        }
        let kindname = ["Interrupted", "WouldBlock", "TimedOut"][(i / 2 % 3) as usize];
        rep.counters.class(format!("slow transport: {} once, write limit {}, {}", kindname, case.write_limit, if bin { "binary" } else { "text" }));
        let d = || J::obj().set("rows", nrows).set("columns", ncols).set("protocol", if bin { "binary" } else { "text" }).set("write_limit", case.write_limit as i64).set("transient_error", kindname).set("at_transport_operation", case.fault.err_at.unwrap_or(0)).set("operation_kind", format!("{:?}", obs.world.fault_op)).set("outcome", obs.outcome.describe());
        if i < 2 {
            rep.sample(d());
        }
        if let Outcome::Panic { file, line, msg } = &obs.outcome {
            rep.violations.push(viol("C04", format!("C04 {}", panic_signature(file, *line, msg)), format!("panic while a reply met a slow transport: {}", obs.outcome.describe()), d()));
            return;
        }
        if obs.outcome != Outcome::Ok {
            rep.counters.inc("slow_transport_ended_the_connection");
            return;
        }
        let (a, b) = (dry.output(), obs.output());
        if a != b {
            let at = first_diff(&a, &b).unwrap_or(0);
            rep.violations.push(viol("C04", "C04 stream-differs-after-transient-error".into(), format!("run_on returned Ok after one {} on a {:?}, but the client received {} bytes where the undisturbed run sends {}; first difference at offset {} (undisturbed {} / disturbed {})", kindname, obs.world.fault_op, b.len(), a.len(), at, hex(&a[at.min(a.len())..(at + 12).min(a.len())]), hex(&b[at.min(b.len())..(at + 12).min(b.len())])), d()));
            return;
        }
        rep.counters.inc("slow_transport_survived_streams_compared");
    });
    rep.merge(r);
    // ---- backends that go on after a refused writer call, abandon a row, report an error, or let the
    //      writer go out of scope in mid-row (props/recover.rs): whenever the calls report success, what
    //      the client reassembles are the messages those calls denoted - no bytes of an abandoned row
    //      glued to the next message
    rep.merge(super::recover::group(ctx, "C04", super::recover::Clause::Shape, None, 1000, 20_000));

    // ---- reassembly as a client does it: a client takes packets in sequence-id order and stops at the
    //      first one that is out of sync, so a reply of many packets only yields its messages if the
    //      ids run on (mod 256) through the whole reply. (Where a reply's ids *start* is C05's clause.)
    let n = if ctx.miri { 1 } else { ctx.n(60, 1500) };
    let r = par_cases(ctx, "C04", "client-reassembly", n, |rng, i, rep| {
        let rows = match i % 6 {
            0 => rng.range(1, 10) as usize,
            1 => 248 + rng.below(12) as usize,
            2 => 504 + rng.below(12) as usize,
            3 => 760 + rng.below(12) as usize,
            4 => rng.range(10, 250) as usize,
            _ => rng.range(260, 1200) as usize,
        };
        let bin = rng.bool();
        let cols = vec![simple_col("a", ColumnType::MYSQL_TYPE_LONG), simple_col("b", ColumnType::MYSQL_TYPE_VAR_STRING)];
        let mut ops = vec![QOp::Start(0)];
        for r in 0..rows {
            ops.push(QOp::Row(vec![Cell::val(V::I32(r as i32)), Cell::val(V::Str(format!("r{}", r)))], RowForm::Owned));
        }
        ops.push(QOp::Finish);
        let first_id = *rng.pick(&[0u8, 0, 1, 200, 254, 255]);
        let mut cmds = vec![Cmd::prepare(b"p")];
        let mut scripts = vec![Script::PrepOk { id: 1, params: vec![], cols: vec![] }];
        cmds.push(if bin { Cmd::execute(1, &[], false).seq(first_id) } else { Cmd::query(b"q").seq(first_id) });
        scripts.push(Script::Q(QProg { colsets: vec![cols], ops, on_err: OnErr::Drop }));
        cmds.push(Cmd::ping());
        let mut case = Case::new(cmds, scripts);
        case.write_limit = *rng.pick(&[usize::MAX, usize::MAX, 65_536, 1000, 7]);
        let obs = run_case(&case);
        rep.evaluations += 1;
        if harness_panic(&obs, rep) {
            return;
        }
        rep.counters.class(format!("client reassembly: reply of {} packets", len_class(rows + 4)));
        let d = || J::obj().set("rows", rows).set("mode", if bin { "binary" } else { "text" }).set("request_id", first_id as u64).set("write_limit", if case.write_limit == usize::MAX { -1 } else { case.write_limit as i64 }).set("outcome", obs.outcome.describe());
        if i == 0 {
            rep.sample(d());
        }
        let out = obs.output();
        let (pkts, msgs) = match wire::messages(&out) {
            Err(e) => {
                rep.violations.push(viol("C04", "C04 bad-framing".into(), e, d()));
                return;
            }
            Ok(x) => x,
        };
        // the reply to the third exchange (greeting, auth and prepare replies come first): 2 + 2 column
        // definitions... counted by the grammar, not by position
        let dec = wire::decode_all(&obs.kinds, &msgs);
        let Some(&(m0, m1)) = dec.spans.get(3) else {
            rep.violations.push(viol("C04", "C04 reply-not-reassembled".into(), format!("the reply of {} rows does not reassemble into one response: {:?}", rows, dec.stop), d()));
            return;
        };
        let p0 = msgs[m0].first;
        let p1 = msgs[m1 - 1].first + msgs[m1 - 1].npkts;
        let mut want = pkts[p0].seq;
        for (k, p) in pkts[p0..p1].iter().enumerate() {
            if p.seq != want {
                rep.violations.push(viol("C04", "C04 reply-out-of-sync".into(), format!("packet {} of {} of the reply carries sequence id {} where a client reassembling it expects {}: it stops there and the {} rows do not arrive", k, p1 - p0, p.seq, want, rows), d()));
                return;
            }
            want = want.wrapping_add(1);
        }
        rep.counters.add("reply_packets_taken_in_order", (p1 - p0) as u64);
        if p1 - p0 >= 256 {
            rep.counters.inc("replies_longer_than_255_packets");
        }
    });
    rep.merge(r);
    if ctx.strict() {
        rep.require("replies_longer_than_255_packets", 5);
    }
    rep.merge(super::mega::run(ctx, "C04", 600, 20000));
    if ctx.strict() {
        rep.require("big_messages_compared", 5);
        rep.require("maximal_packets_seen", 5);
        rep.require("empty_trailers_seen", 1);
        rep.require("packets_checked", 1000);
    }
    let _ = Kind::Ping;
    rep
}
