//! C03 — exactly one complete, protocol-conformant response per command.
//! Trace-specification monitor: the reference response state machine consumes the server's output
//! strictly sequentially (one response per reply-expecting command), every command is followed by a
//! sentinel PING, and the decoded unit list must equal what the program semantics predict.
use super::common::*;
use crate::core::*;
use crate::shim::*;
use crate::util::*;
use crate::wire::{self, Kind, Part, Resp, RowsEnd, SERVER_MORE_RESULTS_EXISTS};
use msql_srv::{Column, ColumnFlags, ColumnType};

/// Predicted part of a response (structure only; values are judged by C06/C07/C14).
#[derive(Clone, Debug, PartialEq)]
pub enum PPart {
    Ok,
    Err,
    Rows { ncols: usize, nrows: usize, err_end: bool },
}

#[derive(Clone, Debug)]
pub struct SetSpec {
    /// None = complete_one
    pub cols: Option<usize>,
    pub rows: usize,
    /// 0 = write_row, 1 = write_col.. end_row, 2 = like 1 but the last row is not ended explicitly,
    /// 3 = the first cells by write_col, the rest of the row by write_row (random programs only)
    pub style: u8,
}

#[derive(Clone, Debug)]
pub enum Final {
    Completed,
    Error,
    NoMore,
    DropResult,
    /// implicit drop at the end of the callback
    Implicit,
    SetFinish(SetSpec),
    SetFinishErr(SetSpec),
    SetDropRow(SetSpec),
    SetImplicit(SetSpec),
}

fn cols_n(n: usize, bin: bool) -> Vec<Column> {
    (0..n).map(|i| Column { table: "t".into(), column: format!("c{}", i), coltype: if bin { ColumnType::MYSQL_TYPE_LONG } else { ColumnType::MYSQL_TYPE_VAR_STRING }, colflags: ColumnFlags::empty() }).collect()
}

fn emit_rows(ops: &mut Vec<QOp>, s: &SetSpec, salt: i32) {
    let nc = s.cols.unwrap();
    for r in 0..s.rows {
        // a NULL now and then, in a pattern that differs from row to row
        let cells: Vec<Cell> = (0..nc).map(|c| if (r * 5 + c * 3 + salt as usize) % 4 == 3 { Cell::val(V::Null) } else { Cell::val(V::I32(salt.wrapping_mul(31).wrapping_add((r * 7 + c) as i32))) }).collect();
        let last = r + 1 == s.rows;
        match s.style {
            0 => ops.push(QOp::Row(cells, if r % 2 == 0 { RowForm::Owned } else { RowForm::Borrowed })),
            3 if nc >= 2 => {
                // begun with write_col, completed by write_row with the remaining cells
                let mut cells = cells;
                let rest = cells.split_off(1 + r % (nc - 1));
                for c in cells {
                    ops.push(QOp::Col(c));
                }
                ops.push(QOp::Row(rest, RowForm::Owned));
            }
            3 => ops.push(QOp::Row(cells, RowForm::Borrowed)),
            _ => {
                for c in cells {
                    ops.push(QOp::Col(c));
                }
                // a zero-column row can only be counted by end_row
                if !(s.style == 2 && last && nc > 0) {
                    ops.push(QOp::EndRow);
                }
            }
        }
    }
}

/// Build the program and the predicted parts for (sets, final).
pub fn build_prog(sets: &[SetSpec], fin: &Final, bin: bool) -> (QProg, Vec<PPart>) {
    let mut prog = QProg { colsets: vec![], ops: vec![], on_err: OnErr::Drop };
    let mut pred = Vec::new();
    let mut salt = 1;
    let mut add_set = |prog: &mut QProg, pred: &mut Vec<PPart>, s: &SetSpec, ending: u8| {
        // ending: 0 finish_one, 1 finish, 2 finish_error, 3 drop row writer, 4 implicit
        match s.cols {
            None => {
                prog.ops.push(QOp::CompleteOne(salt as u64, salt as u64 + 1));
                pred.push(PPart::Ok);
            }
            Some(nc) => {
                prog.colsets.push(cols_n(nc, bin));
                prog.ops.push(QOp::Start(prog.colsets.len() - 1));
                emit_rows(&mut prog.ops, s, salt);
                match ending {
                    0 => prog.ops.push(QOp::FinishOne),
                    1 => prog.ops.push(QOp::Finish),
                    2 => prog.ops.push(QOp::FinishErr(1105, b"late".to_vec())),
                    3 => prog.ops.push(QOp::DropRow),
                    _ => {}
                }
                if nc == 0 {
                    if ending == 2 {
                        pred.push(PPart::Err);
                    } else {
                        pred.push(PPart::Ok);
                    }
                } else {
                    pred.push(PPart::Rows { ncols: nc, nrows: s.rows, err_end: ending == 2 });
                }
            }
        }
        salt += 1;
    };
    for s in sets {
        add_set(&mut prog, &mut pred, s, 0);
    }
    match fin {
        Final::Completed => {
            prog.ops.push(QOp::Completed(5, 6));
            pred.push(PPart::Ok);
        }
        Final::Error => {
            prog.ops.push(QOp::Error(1064, b"nope".to_vec()));
            pred.push(PPart::Err);
        }
        Final::NoMore => prog.ops.push(QOp::NoMore),
        Final::DropResult => prog.ops.push(QOp::DropResult),
        Final::Implicit => {}
        Final::SetFinish(s) => add_set(&mut prog, &mut pred, s, 1),
        Final::SetFinishErr(s) => add_set(&mut prog, &mut pred, s, 2),
        Final::SetDropRow(s) => add_set(&mut prog, &mut pred, s, 3),
        Final::SetImplicit(s) => add_set(&mut prog, &mut pred, s, 4),
    }
    (prog, pred)
}

pub fn all_sets(max_rows: usize) -> Vec<SetSpec> {
    let mut v = vec![SetSpec { cols: None, rows: 0, style: 0 }];
    for nc in 0..=2usize {
        for rows in 0..=max_rows {
            for style in 0..3u8 {
                if rows == 0 && style > 0 {
                    continue;
                }
                if style == 2 && nc == 0 {
                    continue;
                }
                v.push(SetSpec { cols: Some(nc), rows, style });
            }
        }
    }
    v
}

pub fn all_finals(sets_before: usize, max_rows: usize) -> Vec<Final> {
    let mut v = vec![Final::Completed, Final::Error];
    if sets_before > 0 {
        v.push(Final::NoMore);
        v.push(Final::DropResult);
        v.push(Final::Implicit);
    }
    for s in all_sets(max_rows) {
        if s.cols.is_none() {
            continue;
        }
        v.push(Final::SetFinish(s.clone()));
        v.push(Final::SetFinishErr(s.clone()));
        v.push(Final::SetDropRow(s.clone()));
        v.push(Final::SetImplicit(s));
    }
    v
}

fn part_shape(p: &Part) -> PPart {
    match p {
        Part::Ok(_) => PPart::Ok,
        Part::Err(_) => PPart::Err,
        Part::Rows { cols, rows, end, .. } => PPart::Rows { ncols: cols.len(), nrows: rows.len(), err_end: matches!(end, RowsEnd::Err(_)) },
    }
}

/// The MORE_RESULTS flag must be set on every terminator but the last (the decoder uses the flag
/// to find the end, so a wrong flag shows up as a wrong number of parts or as misalignment; this
/// re-checks it explicitly on the decoded parts).
fn more_flags_ok(parts: &[Part], cnt: &mut Counters) -> Result<(), String> {
    for (i, p) in parts.iter().enumerate() {
        let last = i + 1 == parts.len();
        let flag = match p {
            Part::Ok(o) => Some(o.status & SERVER_MORE_RESULTS_EXISTS != 0),
            Part::Rows { end: RowsEnd::Eof(e), .. } => Some(e.status & SERVER_MORE_RESULTS_EXISTS != 0),
            _ => None,
        };
        if let Some(f) = flag {
            if f {
                cnt.inc("more_results_set");
            } else {
                cnt.inc("more_results_clear");
            }
            if f == last {
                return Err(format!("part {} of {}: SERVER_MORE_RESULTS_EXISTS is {} on {} terminator", i, parts.len(), if f { "set" } else { "clear" }, if last { "the last" } else { "a non-final" }));
            }
        }
        if let Part::Rows { mid_eof, .. } = p {
            if mid_eof.status & SERVER_MORE_RESULTS_EXISTS != 0 {
                // harmless for clients, but counted
                cnt.inc("more_results_on_mid_eof");
            }
        }
    }
    Ok(())
}

/// Conformance of a whole conversation where every command is followed by a sentinel PING.
/// `preds[i]`: predicted parts for reply-expecting command i (None = only conformance required).
pub fn check_conformance(prop: &'static str, obs: &Obs, preds: &[Option<Vec<PPart>>], rep: &mut Report, d: &dyn Fn() -> J) -> bool {
    if harness_panic(obs, rep) {
        return false;
    }
    let fail = |sig: &str, what: String, rep: &mut Report| {
        rep.violations.push(viol(prop, format!("{} {}", prop, sig), what, d()));
    };
    if let Outcome::Panic { file, line, msg } = &obs.outcome {
        let s = panic_signature(file, *line, msg);
        fail(&s, format!("run_on panicked: {}", obs.outcome.describe()), rep);
        return false;
    }
    if obs.outcome != Outcome::Ok {
        fail("run_on-not-ok", format!("run_on returned {} although every writer call succeeded", obs.outcome.describe()), rep);
        return false;
    }
    let (_pkts, msgs, dec) = match decode_output(obs) {
        Ok(x) => x,
        Err(e) => {
            fail("bad-framing", e, rep);
            return false;
        }
    };
    if let Some(stop) = &dec.stop {
        match stop {
            wire::Stop::Short(i) => fail("missing-response", format!("exchange #{} ({:?}) has no complete response: server output ended after {} messages", i, obs.kinds[*i], msgs.len()), rep),
            wire::Stop::Bad(i, e) => fail("malformed-response", format!("exchange #{} ({:?}): {}", i, obs.kinds[*i], e), rep),
        }
        return false;
    }
    if dec.used != msgs.len() {
        fail("surplus-output", format!("{} messages left over after all {} responses were decoded (first leftover starts 0x{:02x})", msgs.len() - dec.used, dec.resps.len(), msgs[dec.used].payload.first().copied().unwrap_or(0)), rep);
        return false;
    }
    // walk responses: index 0 greeting, 1 auth, then commands
    let mut ri = 2;
    let mut pi = 0;
    for k in obs.kinds.iter().skip(2) {
        if !k.expects_reply() {
            continue;
        }
        let r = &dec.resps[ri];
        ri += 1;
        rep.counters.inc(&format!("responses_{:?}", k).to_lowercase());
        match (k, r) {
            (Kind::Ping, Resp::Simple(Part::Ok(o))) => {
                rep.counters.inc("sentinel_pings_matched");
                if o.affected != 0 || o.last_id != 0 {
                    fail("shifted-reply", format!("PING answered by OK({}, {}): a reply was shifted", o.affected, o.last_id), rep);
                    return false;
                }
                continue;
            }
            (Kind::Ping, other) => {
                fail("shifted-reply", format!("PING answered by {:?}", other), rep);
                return false;
            }
            _ => {}
        }
        let pred = preds.get(pi).cloned().flatten();
        pi += 1;
        if let Resp::Parts(parts) = r {
            if let Err(e) = more_flags_ok(parts, &mut rep.counters) {
                fail("more-results-flag", e, rep);
                return false;
            }
            for p in parts {
                match p {
                    Part::Ok(_) => rep.counters.inc("units_ok"),
                    Part::Err(_) => rep.counters.inc("units_err"),
                    Part::Rows { rows, cols, .. } => {
                        rep.counters.inc("units_resultset");
                        rep.counters.add("units_rows", rows.len() as u64);
                        // every row message is a well-formed row of its resultset: exactly one cell per
                        // advertised column, nothing left over (binary: per the advertised types)
                        let tf: Vec<(u8, u16)> = cols.iter().map(|c| (c.typ, c.flags)).collect();
                        for (ri, raw) in rows.iter().enumerate() {
                            let r = if *k == Kind::Execute { wire::decode_bin_row(raw, &tf).map(|_| ()) } else { wire::decode_text_row(raw, cols.len()).map(|_| ()) };
                            if let Err(e) = r {
                                fail("malformed-row", format!("row {} of a {}-column {} resultset is not a well-formed row: {}", ri, cols.len(), if *k == Kind::Execute { "binary" } else { "text" }, e), rep);
                                return false;
                            }
                            rep.counters.inc("rows_checked_for_well_formedness");
                        }
                    }
                }
            }
            if let Some(pred) = pred {
                let got: Vec<PPart> = parts.iter().map(part_shape).collect();
                if got != pred {
                    fail("wrong-response-shape", format!("decoded response {:?} but the program denotes {:?}", got, pred), rep);
                    return false;
                }
                rep.counters.inc("responses_compared_with_prediction");
            }
        }
    }
    true
}

fn with_sentinels(cmds: Vec<Cmd>) -> Vec<Cmd> {
    let mut out = Vec::new();
    for c in cmds {
        out.push(c);
        out.push(Cmd::ping());
    }
    out
}

fn shape_of(prog: &QProg) -> String {
    prog.ops.iter().map(|o| o.shape()).collect::<Vec<_>>().join(",")
}

pub fn run(ctx: &Ctx) -> Report {
    let mut rep = Report::default();
    rep.rule = "cases = conversations in which every command is followed by a sentinel PING; (a) exhaustive small scope of writer programs, (b) random larger programs, (c) built-ins and database switches incl. the trait's default on_init, (d) PREPARE ok/error, (e) one shape contradiction per program; a class is a writer-program shape (API call sequence with values erased) x mode; non-trivial = the response was decoded by the reference state machine and compared with the program's denotation".into();
    let max_rows = 2;
    let sets = all_sets(max_rows);
    // ---- (a) exhaustive small scope: <= 2 chained sets + final (thorough: 3), both modes
    let depth_max = if ctx.thorough { 3 } else { 2 };
    let mut programs: Vec<(Vec<SetSpec>, Final)> = Vec::new();
    if !ctx.miri {
        for depth in 0..depth_max {
            let mut idx = vec![0usize; depth];
            loop {
                let ss: Vec<SetSpec> = idx.iter().map(|&i| sets[i].clone()).collect();
                for f in all_finals(depth, max_rows) {
                    programs.push((ss.clone(), f));
                }
                // next index tuple
                let mut k = 0;
                while k < depth {
                    idx[k] += 1;
                    if idx[k] < sets.len() {
                        break;
                    }
                    idx[k] = 0;
                    k += 1;
                }
                if k == depth {
                    break;
                }
            }
        }
    } else {
        programs.push((vec![sets[1].clone()], Final::Completed));
        programs.push((vec![], Final::SetFinish(sets[5].clone())));
    }
    let per_case = 8usize;
    let ncases = (programs.len() * 2 + per_case - 1) / per_case;
    rep.notes.push(format!("exhaustive scope: {} programs x 2 modes (<= {} chained sets before the final one, <= {} rows, column counts 0..2)", programs.len(), depth_max - 1, max_rows));
    let r = par_cases(ctx, "C03", "exhaustive", ncases as u64, |_rng, i, rep| {
        // pack several programs into one conversation (cheaper; also tests that replies do not shift)
        let mut cmds = vec![Cmd::prepare(b"p")];
        let mut scripts = vec![Script::PrepOk { id: 1, params: vec![], cols: vec![] }];
        let mut preds: Vec<Option<Vec<PPart>>> = vec![None];
        for j in 0..per_case {
            let g = i as usize * per_case + j;
            if g >= programs.len() * 2 {
                break;
            }
            let bin = g % 2 == 1;
            let (ss, f) = &programs[g / 2];
            let (prog, pred) = build_prog(ss, f, bin);
            rep.counters.class(format!("{} {}", if bin { "bin" } else { "text" }, shape_of(&prog)));
            if bin {
                cmds.push(Cmd::execute(1, &[], false));
            } else {
                cmds.push(Cmd::query(b"q"));
            }
            scripts.push(Script::Q(prog));
            preds.push(Some(pred));
        }
        let case = Case::new(with_sentinels(cmds), scripts);
        let obs = run_case(&case);
        rep.evaluations += (preds.len() - 1) as u64;
        let d = || J::obj().set("programs", case.scripts.iter().skip(1).map(|s| J::s(match s { Script::Q(p) => shape_of(p), _ => String::new() })).collect::<Vec<_>>()).set("outcome", obs.outcome.describe());
        if i == 0 {
            rep.sample(d());
        }
        check_conformance("C03", &obs, &preds, rep, &d);
    });
    rep.merge(r);
    rep.exhaustive = false;

    // ---- (b) random larger programs
    let n = if ctx.miri { 3 } else { ctx.n(4000, 300_000) };
    let r = par_cases(ctx, "C03", "random", n, |rng, i, rep| {
        let bin = rng.bool();
        let nsets = rng.below(8) as usize;
        let mk = |rng: &mut Rng| {
            if rng.chance(1, 4) {
                SetSpec { cols: None, rows: 0, style: 0 }
            } else {
                let nc = *rng.pick(&[0usize, 1, 2, 3, 8]);
                SetSpec { cols: Some(nc), rows: rng.below(7) as usize, style: if nc == 0 { rng.below(2) as u8 } else { rng.below(4) as u8 } }
            }
        };
        let mut ss: Vec<SetSpec> = (0..nsets).map(|_| mk(rng)).collect();
        for s in ss.iter_mut() {
            if s.rows == 0 {
                s.style = 0;
            }
        }
        let fin = {
            let mut s = mk(rng);
            while s.cols.is_none() {
                s = mk(rng);
            }
            if s.rows == 0 {
                s.style = 0;
            }
            match rng.below(9) {
                0 => Final::Completed,
                1 => Final::Error,
                2 if nsets > 0 => Final::NoMore,
                3 if nsets > 0 => Final::DropResult,
                4 if nsets > 0 => Final::Implicit,
                5 => Final::SetFinishErr(s),
                6 => Final::SetDropRow(s),
                7 => Final::SetImplicit(s),
                _ => Final::SetFinish(s),
            }
        };
        let (prog, pred) = build_prog(&ss, &fin, bin);
        rep.counters.class(format!("{} random sets={} final={}", if bin { "bin" } else { "text" }, nsets, match &fin { Final::Completed => "completed", Final::Error => "error", Final::NoMore => "no_more", Final::DropResult => "drop_result", Final::Implicit => "implicit", Final::SetFinish(_) => "finish", Final::SetFinishErr(_) => "finish_error", Final::SetDropRow(_) => "drop_row", Final::SetImplicit(_) => "implicit_row" }));
        let mut cmds = vec![Cmd::prepare(b"p")];
        let mut scripts = vec![Script::PrepOk { id: 1, params: vec![], cols: vec![] }];
        cmds.push(if bin { Cmd::execute(1, &[], false) } else { Cmd::query(b"q") });
        scripts.push(Script::Q(prog.clone()));
        let mut case = Case::new(with_sentinels(cmds), scripts);
        if i % 4 == 0 {
            case.write_limit = *rng.pick(&[1usize, 3, 7, 100]);
        }
        let obs = run_case(&case);
        rep.evaluations += 1;
        let d = || J::obj().set("mode", if bin { "binary" } else { "text" }).set("program", shape_of(&prog)).set("write_limit", case.write_limit as u64 as i128).set("outcome", obs.outcome.describe());
        if i == 0 {
            rep.sample(d());
        }
        check_conformance("C03", &obs, &[None, Some(pred)], rep, &d);
    });
    rep.merge(r);

    // ---- (c) built-ins and database switches, (d) prepare ok/error
    let n = if ctx.miri { 2 } else { ctx.n(600, 20_000) };
    let r = par_cases(ctx, "C03", "builtins", n, |rng, i, rep| {
        let default_init = i % 3 == 0;
        let mut cmds = Vec::new();
        let mut scripts = Vec::new();
        let mut preds: Vec<Option<Vec<PPart>>> = Vec::new();
        let k = rng.range(1, 8);
        for _ in 0..k {
            match rng.below(9) {
                0 => {
                    cmds.push(Cmd::ping());
                    rep.counters.class("builtin ping".into());
                }
                1 => {
                    cmds.push(Cmd::field_list(&field_list_arg(rng)));
                    rep.counters.class("builtin field_list".into());
                    preds.push(None);
                }
                2 => {
                    cmds.push(Cmd::query(if rng.bool() { b"SELECT @@max_allowed_packet" } else { b"select @@version_comment limit 1" }));
                    rep.counters.class("builtin select @@".into());
                    preds.push(None);
                }
                3 | 4 => {
                    if rng.bool() {
                        cmds.push(Cmd::init_db(b"db1"));
                    } else {
                        // every spelling the property lists: with and without back-ticks and semicolon,
                        // blanks, newlines or more semicolons behind it - one statement, one reply
                        let t: &[u8] = *rng.pick(&[&b"USE `db1`;"[..], b"USE db1", b"use db1;", b"USE db1; ", b"use `db1`;\n", b"USE db1;;", b"USE  db1 ;  ", b"use db1\t", b"USE `db1` ; \n"]);
                        cmds.push(Cmd::query(t));
                    }
                    if default_init {
                        rep.counters.class("init via default on_init".into());
                    } else if rng.bool() {
                        scripts.push(Script::InitOk);
                        rep.counters.class("init ok".into());
                    } else {
                        scripts.push(Script::InitErr(1049, b"Unknown database".to_vec()));
                        rep.counters.class("init error".into());
                    }
                    preds.push(None);
                }
                5 => {
                    cmds.push(Cmd::prepare(b"select ?"));
                    let np = *rng.pick(&[0usize, 1, 3]);
                    let nc = *rng.pick(&[0usize, 1, 2]);
                    scripts.push(Script::PrepOk { id: rng.next() as u32, params: cols_n(np, true), cols: cols_n(nc, true) });
                    rep.counters.class(format!("prepare ok params={} cols={}", np, nc));
                    preds.push(None);
                }
                6 => {
                    cmds.push(Cmd::prepare(b"bad"));
                    scripts.push(Script::PrepErr(1064, b"syntax".to_vec()));
                    rep.counters.class("prepare error".into());
                    preds.push(None);
                }
                7 => {
                    // no-reply commands between reply-expecting ones
                    cmds.push(Cmd::close(rng.next() as u32));
                    rep.counters.class("close (no reply)".into());
                }
                _ => {
                    cmds.push(Cmd::query(b"q"));
                    scripts.push(Script::Q(QProg::completed(1, 2)));
                    preds.push(Some(vec![PPart::Ok]));
                }
            }
        }
        if rng.chance(1, 3) {
            cmds.push(Cmd::quit());
        }
        let mut case = Case::new(with_sentinels(cmds), scripts);
        // the sentinel after QUIT is never served; drop it
        if matches!(case.cmds.get(case.cmds.len().wrapping_sub(2)).map(|c| c.kind), Some(Kind::Quit)) {
            case.cmds.pop();
        }
        case.default_init = default_init;
        let obs = run_case(&case);
        rep.evaluations += 1;
        let d = || J::obj().set("commands", kinds_summary(&case.cmds)).set("default_on_init", default_init).set("outcome", obs.outcome.describe());
        if i == 0 {
            rep.sample(d());
        }
        check_conformance("C03", &obs, &preds, rep, &d);
    });
    rep.merge(r);

    // ---- (e) shape contradictions: some call at or before the row's end must return Err, and no
    //          wrong-arity row may reach the transport
    let n = if ctx.miri { 2 } else { ctx.n(600, 20_000) };
    let r = par_cases(ctx, "C03", "shape", n, |rng, i, rep| {
        let bin = rng.bool();
        let nc = rng.range(1, 5) as usize;
        let good_rows = rng.below(3) as usize;
        let mut prog = QProg { colsets: vec![cols_n(nc, bin)], ops: vec![QOp::Start(0)], on_err: OnErr::Forget };
        for r in 0..good_rows {
            prog.ops.push(QOp::Row((0..nc).map(|c| Cell::val(V::I32((r * 10 + c) as i32))).collect(), RowForm::Owned));
        }
        let kind = rng.below(4);
        let width = match kind {
            0 | 2 => nc + 1 + rng.below(2) as usize,
            _ => rng.below(nc as u64) as usize,
        };
        // an empty partial row followed by finish() is a legal (empty) ending, not a contradiction
        let force_end_row = width == 0;
        let cells: Vec<Cell> = (0..width).map(|c| Cell::val(V::I32(1000 + c as i32))).collect();
        let name = match kind {
            0 => {
                for c in cells {
                    prog.ops.push(QOp::Col(c));
                }
                prog.ops.push(QOp::EndRow);
                "extra column via write_col"
            }
            1 => {
                for c in cells {
                    prog.ops.push(QOp::Col(c));
                }
                prog.ops.push(if force_end_row || rng.bool() { QOp::EndRow } else { QOp::Finish });
                "missing column then end_row/finish"
            }
            2 => {
                prog.ops.push(QOp::Row(cells, RowForm::Owned));
                "write_row too wide"
            }
            _ => {
                prog.ops.push(QOp::Row(cells, RowForm::Borrowed));
                "write_row too narrow"
            }
        };
        prog.ops.push(QOp::Finish);
        rep.counters.class(format!("{} contradiction: {}", if bin { "bin" } else { "text" }, name));
        let mut cmds = vec![Cmd::prepare(b"p")];
        let mut scripts = vec![Script::PrepOk { id: 1, params: vec![], cols: vec![] }];
        cmds.push(if bin { Cmd::execute(1, &[], false) } else { Cmd::query(b"q") });
        scripts.push(Script::Q(prog.clone()));
        let case = Case::new(cmds, scripts);
        let obs = run_case(&case);
        rep.evaluations += 1;
        if harness_panic(&obs, rep) {
            return;
        }
        let d = || J::obj().set("mode", if bin { "binary" } else { "text" }).set("declared_columns", nc).set("contradiction", name).set("width", width).set("program", shape_of(&prog)).set("outcome", obs.outcome.describe());
        if i == 0 {
            rep.sample(d());
        }
        // (1) some writer call failed
        let cb = obs.log.cbs.iter().find(|c| matches!(c.kind, CbKind::Query(_) | CbKind::Execute { .. }));
        let refused = cb.map(|c| c.results.iter().any(|r| r.err.is_some())).unwrap_or(false);
        if let Outcome::Panic { file, line, msg } = &obs.outcome {
            rep.violations.push(viol("C03", format!("C03 {}", panic_signature(file, *line, msg)), format!("shape contradiction ({}) made run_on panic: {}", name, obs.outcome.describe()), d()));
            return;
        }
        if !refused {
            rep.violations.push(viol("C03", format!("C03 contradiction-accepted {}", name), format!("every writer call reported success for a row of {} cells in a {}-column resultset ({})", width, nc, name), d()));
        } else {
            rep.counters.inc("shape_contradictions_refused");
        }
        // (2) no wrong-arity row on the wire: every complete row message decodes with nc cells
        let out = obs.output();
        let (pkts, _) = wire::packets_prefix(&out);
        let (msgs, _) = wire::messages_prefix(&out, &pkts);
        // messages: greeting, auth ok, prepare ok, then the resultset header
        let mut seen_defs = 0;
        let mut in_rows = false;
        for m in msgs.iter().skip(3) {
            let b = &m.payload;
            if !in_rows {
                if wire::is_eof(b) {
                    in_rows = seen_defs > 0;
                } else {
                    seen_defs += 1;
                }
                continue;
            }
            if wire::is_eof(b) || wire::is_err(b) {
                break;
            }
            let ok = if bin { wire::decode_bin_row(b, &vec![(wire::T_LONG, 0); nc]).is_ok() } else { wire::decode_text_row(b, nc).is_ok() };
            if !ok {
                rep.violations.push(viol("C03", format!("C03 malformed-row-emitted {}", name), format!("a row packet of {} bytes that does not hold exactly {} cells reached the transport ({})", b.len(), nc, name), d()));
                break;
            }
            rep.counters.inc("rows_on_wire_checked");
        }
    });
    rep.merge(r);

    // ---- (b2) rows of every value kind (integers of all widths, floats, strings, blobs, dates,
    //      datetimes, durations incl. those under a second, generic values, NULLs) in columns of the
    //      matching types: each row message must split into exactly one well-formed cell per
    //      advertised column (the values themselves are C06/C07's business)
    let n = if ctx.miri { 2 } else { ctx.n(1500, 60_000) };
    let r = par_cases(ctx, "C03", "rich-rows", n, |rng, i, rep| {
        let bin = i % 3 != 0;
        let nc = rng.range(1, 8) as usize;
        let mut cols = Vec::new();
        let mut proto = Vec::new();
        for c in 0..nc {
            let (ct, fl, v) = super::values::gen_natural(rng, false);
            cols.push(Column { table: "t".into(), column: format!("c{}", c), coltype: if bin { ct } else { ColumnType::MYSQL_TYPE_VAR_STRING }, colflags: fl });
            proto.push(v);
        }
        let nr = rng.range(1, 5) as usize;
        let mut ops = vec![QOp::Start(0)];
        for _ in 0..nr {
            let cells: Vec<Cell> = (0..nc).map(|c| if rng.chance(1, 5) { Cell::val(V::Null) } else { Cell::val(super::values::gen_like(rng, &proto[c], false)) }).collect();
            if rng.bool() {
                ops.push(QOp::Row(cells, RowForm::Owned));
            } else {
                for c in cells {
                    ops.push(QOp::Col(c));
                }
                ops.push(QOp::EndRow);
            }
        }
        ops.push(QOp::Finish);
        let prog = QProg { colsets: vec![cols.clone()], ops, on_err: OnErr::Drop };
        let mut cmds = vec![Cmd::prepare(b"p")];
        let scripts = vec![Script::PrepOk { id: 1, params: vec![], cols: cols.clone() }, Script::Q(prog.clone())];
        cmds.push(if bin { Cmd::execute(1, &[], false) } else { Cmd::query(b"q") });
        let case = Case::new(with_sentinels(cmds), scripts);
        let obs = run_case(&case);
        rep.evaluations += 1;
        for c in &cols {
            rep.counters.class(format!("rich row column {:?} ({})", c.coltype, if bin { "bin" } else { "text" }));
        }
        let d = || J::obj().set("mode", if bin { "binary" } else { "text" }).set("column_types", cols.iter().map(|c| J::s(format!("{:?}", c.coltype))).collect::<Vec<_>>()).set("rows", nr).set("outcome", obs.outcome.describe());
        if i == 0 {
            rep.sample(d());
        }
        if check_conformance("C03", &obs, &[None, Some(vec![PPart::Rows { ncols: nc, nrows: nr, err_end: false }])], rep, &d) {
            rep.counters.inc("rich_row_responses_conformant");
        }
    });
    rep.merge(r);

    // ---- (e2) commands that expect no reply (long data for in-range and out-of-range parameter
    //      indexes, CLOSE of known and unknown ids) between sentinels: not one byte for them; and
    //      long data for an id that is not live as the LAST command: whatever the server does with
    //      the connection, it sends nothing for it
    let n = if ctx.miri { 2 } else { ctx.n(600, 20_000) };
    let r = par_cases(ctx, "C03", "no-reply-commands", n, |rng, i, rep| {
        let np = rng.range(1, 3) as usize;
        let mut cmds = vec![Cmd::prepare(b"p")];
        let scripts = vec![Script::PrepOk { id: 1, params: (0..np).map(|k| simple_col(&format!("p{}", k), ColumnType::MYSQL_TYPE_BLOB)).collect(), cols: vec![] }, Script::Q(QProg::completed(1, 2))];
        let steps = rng.range(1, 6);
        let mut shape = String::new();
        for _ in 0..steps {
            match rng.below(5) {
                0 => {
                    cmds.push(Cmd::long_data(1, rng.below(np as u64) as u16, &rng.bytes(5)));
                    shape.push('L');
                }
                1 => {
                    cmds.push(Cmd::long_data(1, np as u16 + rng.below(60_000) as u16, &rng.bytes(5)));
                    shape.push('O');
                }
                2 => {
                    cmds.push(Cmd::close(2 + rng.next() as u32 % 1000));
                    shape.push('c');
                }
                3 => {
                    cmds.push(Cmd::long_data(1, 0, &[]));
                    shape.push('E');
                }
                _ => {
                    cmds.push(Cmd::query(b"q"));
                    shape.push('Q');
                }
            }
            cmds.push(Cmd::ping());
        }
        let dead_last = i % 3 == 0;
        if dead_last {
            // statement 77 was never prepared
            cmds.push(Cmd::long_data(77, 0, b"for nobody"));
            shape.push('!');
        }
        // only the first 'Q' has a script; later ones get the shim's default completion
        let case = Case::new(cmds, scripts);
        let obs = run_case(&case);
        rep.evaluations += 1;
        rep.counters.class(format!("no-reply commands {}", if shape.len() > 4 { &shape[..4] } else { &shape }));
        let d = || J::obj().set("commands (L long data, O out-of-range index, E empty chunk, c close of an unknown id, Q query, ! long data for a dead id last)", shape.clone()).set("outcome", obs.outcome.describe());
        if i == 0 {
            rep.sample(d());
        }
        if harness_panic(&obs, rep) {
            return;
        }
        if !dead_last {
            let preds: Vec<Option<Vec<PPart>>> = vec![None; 8];
            if check_conformance("C03", &obs, &preds, rep, &d) {
                rep.counters.inc("no_reply_conversations_conformant");
            }
            return;
        }
        if let Outcome::Panic { file, line, msg } = &obs.outcome {
            rep.violations.push(viol("C03", format!("C03 {}", panic_signature(file, *line, msg)), format!("run_on panicked: {}", obs.outcome.describe()), d()));
            return;
        }
        match decode_output(&obs) {
            Err(e) => rep.violations.push(viol("C03", "C03 bad-framing".into(), e, d())),
            Ok((_, msgs, dec)) => {
                if let Some(wire::Stop::Bad(k, e)) = &dec.stop {
                    rep.violations.push(viol("C03", "C03 malformed-response".into(), format!("exchange #{}: {}", k, e), d()));
                } else if dec.used != msgs.len() {
                    rep.violations.push(viol("C03", "C03 surplus-output".into(), format!("{} messages behind the last reply: long data for a statement id that is not live was answered (first byte 0x{:02x})", msgs.len() - dec.used, msgs[dec.used].payload.first().copied().unwrap_or(0)), d()));
                } else {
                    rep.counters.inc("dead_id_long_data_answered_with_nothing");
                }
            }
        }
    });
    rep.merge(r);

    // ---- (f) replies of exactly T wire packets for T around the multiples of 256 (the one-byte
    //          sequence id is back at its starting value after 256 packets): still one response,
    //          nothing after it, and the next reply is the next command's
    if !ctx.miri {
        // around 2^8, 2^9 and 2^16 packets (quick), more multiples of 256 in thorough
        let mut targets: Vec<usize> = (253..=259).chain(509..=515).chain(65_535..=65_537).collect();
        if ctx.thorough {
            targets.extend((765..=771).chain(1021..=1027).chain(2045..=2051).chain(4093..=4099));
        }
        let per = if ctx.thorough { 12 } else { 3 };
        let n = (targets.len() * 2 * per) as u64;
        let r = par_cases(ctx, "C03", "packet-count", n, |rng, i, rep| {
            let bin = i % 2 == 1;
            let t = targets[(i as usize / 2) % targets.len()];
            // sets before the final one, then a final set whose row count makes the total exact
            let (ss, fin, npk) = loop {
                let nbefore = rng.below(4) as usize;
                let mut ss = Vec::new();
                let mut used = 0usize;
                for _ in 0..nbefore {
                    if rng.chance(1, 3) {
                        ss.push(SetSpec { cols: None, rows: 0, style: 0 });
                        used += 1;
                    } else {
                        let nc = *rng.pick(&[1usize, 2, 3, 8]);
                        let rows = rng.below(t as u64 / 3) as usize;
                        ss.push(SetSpec { cols: Some(nc), rows, style: if rows == 0 { 0 } else { rng.below(3) as u8 } });
                        used += nc + rows + 3;
                    }
                }
                let nc = *rng.pick(&[1usize, 1, 2, 5]);
                // final: a set (nc + rows + 3 packets), or a set followed by an OK/ERR (one more)
                let tail = rng.below(3);
                let extra = if tail == 0 { 0 } else { 1 };
                if used + nc + 3 + extra > t {
                    continue;
                }
                let rows = t - used - nc - 3 - extra;
                let last = SetSpec { cols: Some(nc), rows, style: if rows == 0 { 0 } else { rng.below(3) as u8 } };
                let fin = match tail {
                    0 => {
                        if rng.bool() {
                            Final::SetFinish(last)
                        } else {
                            Final::SetFinishErr(last)
                        }
                    }
                    1 => {
                        ss.push(last);
                        Final::Completed
                    }
                    _ => {
                        ss.push(last);
                        Final::Error
                    }
                };
                break (ss, fin, t);
            };
            let (prog, pred) = build_prog(&ss, &fin, bin);
            let predicted_packets: usize = pred.iter().map(|p| match p { PPart::Ok | PPart::Err => 1, PPart::Rows { ncols, nrows, .. } => ncols + nrows + 3 }).sum();
            assert_eq!(predicted_packets, npk, "harness: packet-count construction");
            rep.counters.class(format!("{} reply of {} packets ({} mod 256)", if bin { "bin" } else { "text" }, len_class(npk), npk % 256));
            let mut cmds = vec![Cmd::prepare(b"p")];
            let mut scripts = vec![Script::PrepOk { id: 1, params: vec![], cols: vec![] }];
            cmds.push(if bin { Cmd::execute(1, &[], false) } else { Cmd::query(b"q") });
            scripts.push(Script::Q(prog.clone()));
            // a second, tiny, distinguishable command behind it
            cmds.push(Cmd::query(b"q2"));
            scripts.push(Script::Q(QProg::completed(41, 42)));
            let case = Case::new(with_sentinels(cmds), scripts);
            let obs = run_case(&case);
            rep.evaluations += 1;
            let d = || J::obj().set("mode", if bin { "binary" } else { "text" }).set("reply_packets", npk).set("sets", ss.len()).set("outcome", obs.outcome.describe());
            if i == 0 {
                rep.sample(d());
            }
            if check_conformance("C03", &obs, &[None, Some(pred), Some(vec![PPart::Ok])], rep, &d) {
                rep.counters.inc("replies_with_exact_packet_count");
                if npk % 256 == 0 {
                    rep.counters.inc("replies_of_a_multiple_of_256_packets");
                }
            }
        });
        rep.merge(r);
        if ctx.strict() {
            rep.require("replies_of_a_multiple_of_256_packets", 2);
        }
    }

    // ---- backends that go on after a refused writer call (shared workload, see props/recover.rs):
    //      whatever the calls that reported success wrote must be one conformant response
    rep.merge(super::recover::group(ctx, "C03", super::recover::Clause::Shape, None, 1500, 30_000));

    rep.merge(super::mega::run(ctx, "C03", 1500, 60000));
    if ctx.strict() {
        for k in ["sentinel_pings_matched", "responses_compared_with_prediction", "more_results_set", "more_results_clear", "units_ok", "units_err", "units_resultset", "shape_contradictions_refused"] {
            rep.require(k, 1);
        }
    }
    rep
}

/// A random conversation with varied responses (chained sets, errors, prepares, no-reply commands),
/// each reply-expecting command followed by a sentinel PING when `sentinels`. Used by C05/C12/C19.
pub fn rich_case(rng: &mut Rng, max_cmds: usize, sentinels: bool) -> (Case, Vec<Option<Vec<PPart>>>) {
    let mut cmds = vec![Cmd::prepare(b"p0")];
    let mut scripts = vec![Script::PrepOk { id: 1, params: vec![], cols: cols_n(2, true) }];
    let mut preds: Vec<Option<Vec<PPart>>> = vec![None];
    let k = rng.range(1, max_cmds as u64);
    for _ in 0..k {
        match rng.below(10) {
            0 => cmds.push(Cmd::ping()),
            1 => {
                cmds.push(Cmd::field_list(&field_list_arg(rng)));
                preds.push(None);
            }
            2 => {
                cmds.push(Cmd::query(b"SELECT @@max_allowed_packet"));
                preds.push(None);
            }
            3 => {
                cmds.push(Cmd::init_db(b"db"));
                scripts.push(if rng.bool() { Script::InitOk } else { Script::InitErr(1049, b"no db".to_vec()) });
                preds.push(None);
            }
            4 => {
                cmds.push(Cmd::close(1000 + rng.below(5) as u32));
            }
            5 => {
                let dl = rng.range(0, 50) as usize;
                cmds.push(Cmd::long_data(1, 9, &rng.bytes(dl)));
            }
            6 => {
                cmds.push(Cmd::prepare(b"px"));
                if rng.bool() {
                    scripts.push(Script::PrepOk { id: 2 + rng.below(3) as u32, params: cols_n(rng.below(3) as usize, true), cols: cols_n(rng.below(3) as usize, true) });
                } else {
                    scripts.push(Script::PrepErr(1064, b"bad".to_vec()));
                }
                preds.push(None);
            }
            _ => {
                let bin = rng.bool();
                let nsets = rng.below(4) as usize;
                let mk = |rng: &mut Rng| {
                    if rng.chance(1, 4) {
                        SetSpec { cols: None, rows: 0, style: 0 }
                    } else {
                        let nc = *rng.pick(&[0usize, 1, 2, 3]);
                        let rows = rng.below(5) as usize;
                        SetSpec { cols: Some(nc), rows, style: if rows == 0 { 0 } else if nc == 0 { rng.below(2) as u8 } else { rng.below(3) as u8 } }
                    }
                };
                let ss: Vec<SetSpec> = (0..nsets).map(|_| mk(rng)).collect();
                let mut s = mk(rng);
                while s.cols.is_none() {
                    s = mk(rng);
                }
                // every way a backend may end its reply, the ones written by destructors included (the
                // writer handed back by finish_one / complete_one dropped or left to the end of the
                // callback, a row writer dropped or left to the end of the callback)
                let fin = match rng.below(10) {
                    0 => Final::Completed,
                    1 => Final::Error,
                    2 => Final::SetFinishErr(s),
                    3 if nsets > 0 => Final::NoMore,
                    4 if nsets > 0 => Final::DropResult,
                    5 if nsets > 0 => Final::Implicit,
                    6 => Final::SetDropRow(s),
                    7 => Final::SetImplicit(s),
                    _ => Final::SetFinish(s),
                };
                let (prog, pred) = build_prog(&ss, &fin, bin);
                cmds.push(if bin { Cmd::execute(1, &[], false) } else { Cmd::query(b"q") });
                scripts.push(Script::Q(prog));
                preds.push(Some(pred));
            }
        }
    }
    let cmds = if sentinels { with_sentinels(cmds) } else { cmds };
    (Case::new(cmds, scripts), preds)
}
