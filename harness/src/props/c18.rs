//! C18 — TLS upgrade loses no bytes and leaks no plaintext.
//! A real rustls client lives inside the transport; the transport decides how the SSLRequest packet
//! and the TLS records are cut into read() results. TLS's own transcript / record integrity checks
//! make a lost, duplicated or reordered byte fail the real handshake or a real record.
use super::common::*;
use crate::core::*;
use crate::shim::*;
use crate::tls::{self, TlsMaterial, TlsTransport, TlsWorld};
use crate::util::*;
use crate::wire::{self, Kind};
use msql_srv::MysqlIntermediary;
use std::cell::RefCell;
use std::panic::{catch_unwind, AssertUnwindSafe};
use std::rc::Rc;

pub struct TlsObs {
    pub outcome: Outcome,
    pub world: TlsWorld,
    pub log: ShimLog,
}

#[derive(Clone)]
pub struct TlsCase {
    pub tls13: bool,
    pub with_cert: bool,
    /// 0 = client cert optional, 1 = required, 2 = no client auth, 3 = shim offers no TLS,
    /// 4 = optional, trusting the root CA of an issued client certificate: the client (with_cert)
    /// then presents a chain of two certificates (its own and the intermediate CA)
    pub server_mode: u8,
    pub user: Vec<u8>,
    pub cmds: Vec<Cmd>,
    pub scripts: Vec<Script>,
    pub first_cut: usize,
    pub cycle: Vec<usize>,
    pub write_limit: usize,
    pub close_notify: bool,
    /// the client's raw byte stream ends after this many bytes (a cut connection)
    pub raw_limit: Option<usize>,
    /// 0 = the classic SSLRequest / handshake response; otherwise a seed for legal variations of
    /// both (capability masks, max-packet, charset, MariaDB-style extended capabilities in the
    /// reserved bytes, trailing auth bytes)
    pub hs_variant: u64,
    /// replaces the plaintext the client sends inside the TLS session (malformed-input workloads)
    pub app_override: Option<Vec<u8>>,
    /// (sequence id of the SSLRequest, sequence id of the handshake response inside TLS); (1, 2) for ordinary clients
    pub seqs: (u8, u8),
    /// after_authentication fails with this token
    pub auth_reject: Option<u64>,
    /// the client hands the handshake response and every command to its TLS layer separately, so
    /// that each travels in a record of its own
    pub record_per_command: bool,
    /// (index of the server's write() call, error kind 100/101/102): fails once, takes no bytes
    pub write_fault: Option<(u64, u8)>,
    /// the transport is a buffered stream: what the server writes reaches the client only when the
    /// server flushes (legal for any `Read + Write`; a BufWriter in front of a socket does this)
    pub buffer_writes: bool,
    /// the client sends its close_notify right behind its last command, without waiting for the replies
    /// (write, then shutdown of the sending side): the replies are still owed and still arrive
    pub eager_close: bool,
}

pub fn run_tls(m: &TlsMaterial, c: &TlsCase) -> Result<TlsObs, String> {
    let cfg = if c.server_mode == 4 && c.with_cert { m.client_config_chain(c.tls13)? } else { m.client_config(c.tls13, c.with_cert)? };
    let mut conn = rustls::ClientConnection::new(cfg, tls::server_name()).map_err(|e| e.to_string())?;
    // the scripted client queues its whole plaintext at once; rustls' default 64 KiB limit is a
    // property of this harness's client, not of the server under test
    conn.set_buffer_limit(None);
    let caps = 0x003f_a685 | wire::CLIENT_SSL;
    let mut sslreq = wire::ssl_request(caps, 1 << 24, 0x21);
    let mut inner = wire::handshake41(caps, 1 << 24, 0x21, &c.user, b"\0");
    if c.hs_variant != 0 {
        let mut r = Rng::for_case(c.hs_variant, "tls-hs", 0);
        let caps = match r.below(4) {
            0 => 0xFFFF_FFFFu32,
            1 => wire::CLIENT_SSL,
            2 => r.next() as u32,
            _ => caps,
        } | wire::CLIENT_SSL;
        let (mp, cs) = (r.next() as u32, r.below(256) as u8);
        sslreq = wire::ssl_request(caps, mp, cs);
        // bytes 9..32 of the payload are "reserved"; MariaDB connectors put their extended
        // capabilities into the last four of them when the server does not claim CLIENT_MYSQL
        match r.below(3) {
            0 => {}
            1 => {
                let x = (r.next() as u32 | 4).to_le_bytes();
                sslreq[28..32].copy_from_slice(&x);
            }
            _ => {
                for b in sslreq[9..32].iter_mut() {
                    *b = r.below(256) as u8;
                }
            }
        }
        let tl = r.below(40) as usize;
        let mut tail = r.bytes(tl);
        tail.insert(0, 0);
        // the response inside TLS repeats the capabilities (a client may also send other ones)
        // (nothing obliges a client to repeat CLIENT_SSL there: the connection is already encrypted)
        let mut caps2 = match r.below(3) {
            0 => caps,
            1 => r.next() as u32 | wire::CLIENT_SSL,
            _ => (if r.bool() { caps } else { r.next() as u32 }) & !wire::CLIENT_SSL,
        };
        // half of the time the tail is what a real client sends: authentication response, the default
        // schema it wants (CLIENT_CONNECT_WITH_DB), plugin name, attributes
        if r.bool() {
            caps2 |= 0x0000_0008 | wire::CLIENT_PROTOCOL_41;
            tail = wire::handshake41_tail(caps2, b"01234567890123456789", *r.pick(&[&b"inventory"[..], b"db", b"\xc3\xa9t\xc3\xa9"]), b"mysql_native_password", &[]);
        }
        inner = wire::handshake41(caps2, if r.bool() { mp } else { r.next() as u32 }, cs, &c.user, &tail);
        if r.bool() {
            let k = inner.len().min(32);
            inner[9..k].copy_from_slice(&sslreq[9..k]);
        }
    }
    let inner_handshake = inner.clone();
    let (mut app, _) = wire::frame(&inner, c.seqs.1);
    let mut chunks = Vec::new();
    for cmd in &c.cmds {
        chunks.push(app.len());
        app.extend(wire::frame(&cmd.payload, cmd.seq).0);
    }
    if let Some(o) = &c.app_override {
        app = o.clone();
    }
    // the wedge guard scales with the input: one-byte reads over a megabyte command are slow, not stuck
    let budget = 2_000_000 + 8 * app.len() as u64;
    let mut w = TlsWorld::new(conn, sslreq, app);
    w.budget_ops = budget;
    w.first_cut = c.first_cut;
    w.cycle = c.cycle.clone();
    w.write_limit = c.write_limit;
    w.close_notify = c.close_notify;
    w.ssl_seq = c.seqs.0;
    w.raw_limit = c.raw_limit;
    w.write_fault = c.write_fault;
    w.buffer_writes = c.buffer_writes;
    w.inner_handshake = inner_handshake;
    w.eager_close = c.eager_close && c.close_notify && c.app_override.is_none();
    if c.record_per_command && c.app_override.is_none() {
        w.app_chunks = chunks;
    }
    let clock = w.clock.clone();
    let world = Rc::new(RefCell::new(w));
    let (mut shim, log) = ScriptShim::new(clock, c.scripts.clone());
    shim.auth_reject = c.auth_reject;
    // a backend may build its TLS configuration anew for every connection: a fresh allocation that
    // dies with the connection (what the library remembers about one must not outlive it)
    let fresh = |a: &std::sync::Arc<rustls::ServerConfig>| Some(std::sync::Arc::new((**a).clone()));
    shim.tls = match c.server_mode {
        0 => fresh(&m.server_optional),
        1 => fresh(&m.server_required),
        2 => fresh(&m.server_noauth),
        4 => fresh(&m.server_chain_optional),
        _ => None,
    };
    let _ = take_panic();
    let t = TlsTransport(world.clone());
    let r = catch_unwind(AssertUnwindSafe(move || MysqlIntermediary::run_on(shim, t)));
    let outcome = match r {
        Ok(Ok(())) => Outcome::Ok,
        Ok(Err(ShimErr::Io(e))) => Outcome::Io { kind: e.kind(), msg: e.to_string() },
        Ok(Err(ShimErr::Token(t))) => Outcome::Token(t),
        Err(_) => {
            let (file, line, msg) = take_panic().unwrap_or(("?".into(), 0, "?".into()));
            Outcome::Panic { file, line, msg }
        }
    };
    let mut world = match Rc::try_unwrap(world) {
        Ok(c) => c.into_inner(),
        Err(_) => return Err("tls world still shared after the run".into()),
    };
    if matches!(outcome, Outcome::Io { .. } | Outcome::Token(_)) {
        world.deliver_at_close();
    }
    let log = std::mem::take(&mut *log.borrow_mut());
    Ok(TlsObs { outcome, world, log })
}

fn find(hay: &[u8], needle: &[u8]) -> bool {
    hay.windows(needle.len()).any(|w| w == needle)
}

const CANARY_USER: &[u8] = b"CANARYuser7731";
const CANARY_QUERY: &[u8] = b"CANARYquery9142";
const CANARY_VALUE: &[u8] = b"CANARYvalue5586";

/// The command script: every query text and one result value carry a canary.
fn tls_script(rng: &mut Rng, ncmd: usize) -> (Vec<Cmd>, Vec<Script>) {
    let mut cmds = Vec::new();
    let mut scripts = Vec::new();
    let col = simple_col("v", msql_srv::ColumnType::MYSQL_TYPE_VAR_STRING);
    for k in 0..ncmd {
        match rng.below(5) {
            0 => cmds.push(Cmd::ping()),
            1 => {
                cmds.push(Cmd::prepare(format!("prep {} {}", k, String::from_utf8_lossy(CANARY_QUERY)).as_bytes()));
                scripts.push(Script::PrepOk { id: 1, params: vec![], cols: vec![col.clone()] });
                cmds.push(Cmd::execute(1, &[], false));
                scripts.push(Script::Q(QProg { colsets: vec![vec![col.clone()]], ops: vec![QOp::Start(0), QOp::Row(vec![Cell::val(V::Bytes(CANARY_VALUE.to_vec()))], RowForm::Owned), QOp::Finish], on_err: OnErr::Drop }));
            }
            2 => {
                cmds.push(Cmd::query(format!("select {} {}", k, String::from_utf8_lossy(CANARY_QUERY)).as_bytes()));
                if rng.chance(1, 3) {
                    // a reply far larger than one TLS record and than rustls' 64 KiB plaintext queue
                    let nr = rng.range(80, 400) as usize;
                    let mut ops = vec![QOp::Start(0)];
                    for r in 0..nr {
                        let mut cell = CANARY_VALUE.to_vec();
                        cell.extend(std::iter::repeat(b'a' + (r % 26) as u8).take(1000));
                        ops.push(QOp::Row(vec![Cell::val(V::Bytes(cell))], RowForm::Owned));
                    }
                    ops.push(QOp::Finish);
                    scripts.push(Script::Q(QProg { colsets: vec![vec![col.clone()]], ops, on_err: OnErr::Drop }));
                } else {
                    scripts.push(Script::Q(QProg::completed(k as u64, 1)));
                }
            }
            _ => {
                cmds.push(Cmd::query(format!("rows {} {}", k, String::from_utf8_lossy(CANARY_QUERY)).as_bytes()));
                let nr = rng.below(4) as usize;
                let mut ops = vec![QOp::Start(0)];
                for _ in 0..nr {
                    ops.push(QOp::Row(vec![Cell::val(V::Bytes(CANARY_VALUE.to_vec()))], RowForm::Owned));
                }
                ops.push(QOp::Finish);
                scripts.push(Script::Q(QProg { colsets: vec![vec![col.clone()]], ops, on_err: OnErr::Drop }));
            }
        }
    }
    (cmds, scripts)
}

fn judge(m: &TlsMaterial, c: &TlsCase, o: &TlsObs, rep: &mut Report, d: &dyn Fn() -> J) {
    let fail = |sig: &str, what: String, rep: &mut Report| rep.violations.push(viol("C18", format!("C18 {}", sig), what, d()));
    if let Outcome::Panic { file, line, msg } = &o.outcome {
        if is_harness_file(file) {
            rep.inconclusive.push(format!("harness panic at {}:{}: {}", file, line, trunc(msg, 100)));
            return;
        }
        let s = panic_signature(file, *line, msg);
        fail(&s, format!("run_on panicked during a TLS connection: {}", o.outcome.describe()), rep);
        return;
    }
    let auths: Vec<&Cb> = o.log.cbs.iter().filter(|c| matches!(c.kind, CbKind::Auth { .. })).collect();
    // ---- TLS requested from a shim that offers none
    if c.server_mode == 3 {
        if !auths.is_empty() {
            fail("auth-called-despite-refusal", "after_authentication was called although the shim offers no TLS".into(), rep);
        } else if !o.outcome.is_err() {
            fail("tls-request-not-refused", format!("TLS requested from a shim that offers none: run_on returned {}", o.outcome.describe()), rep);
        } else {
            rep.counters.inc("refusals_checked");
        }
        return;
    }
    // a required client certificate that is not presented fails the TLS handshake: that is the
    // TLS layer's verdict, not this property's; only "no after_authentication" is required then
    if c.server_mode == 1 && !c.with_cert {
        if !auths.is_empty() {
            fail("auth-without-required-cert", "after_authentication was called although the required client certificate was not presented".into(), rep);
        } else if let Err(e) = tls::tls_records(&o.world.server_raw_after) {
            // whatever the server says about a failed handshake, it says it inside TLS (alert records)
            fail("plaintext-after-upgrade", format!("after a TLS handshake that failed (required client certificate missing) the server sent bytes that are not TLS records: {}", e), rep);
        } else {
            rep.counters.inc("required_cert_missing_refused");
        }
        return;
    }
    if o.world.deadlock {
        fail("deadlock", format!("the server called read() while the TLS client was waiting for server bytes (client raw bytes served: {}; {} bytes written by the server but not flushed to the transport)", o.world.served, o.world.unflushed.len()), rep);
        return;
    }
    if o.world.wedged {
        fail("wedge", format!("operation budget exhausted: {} operations ({} reads, {} writes) for {} raw client bytes ({} served), {} reads at end of stream; first read {} bytes, read sizes {:?}, write limit {}", o.world.nops, o.world.nread, o.world.nwrite, o.world.client_raw.len(), o.world.served, o.world.eof_reads, c.first_cut, c.cycle, if c.write_limit == usize::MAX { -1 } else { c.write_limit as i64 }), rep);
        return;
    }
    if let Some(e) = &o.world.client_error {
        fail("client-rejects-server-bytes", format!("the rustls client rejected the server's bytes: {}", e), rep);
        return;
    }
    if o.outcome != Outcome::Ok {
        fail("run_on-not-ok", format!("run_on returned {} for a well-formed TLS conversation (first read {} bytes, SSLRequest ends at 36)", o.outcome.describe(), c.first_cut), rep);
        return;
    }
    // ---- after_authentication: user and certificate chain
    if auths.len() != 1 {
        fail("auth-count", format!("after_authentication called {} times", auths.len()), rep);
        return;
    }
    if let CbKind::Auth { user, certs } = &auths[0].kind {
        if user.as_deref() != Some(&c.user[..]) {
            fail("user-name-differs", format!("after_authentication saw {:?}, the encrypted handshake response carried {}", user.as_ref().map(|u| show(u)), show(&c.user)), rep);
            return;
        }
        // the whole chain the client presented, in order
        let want: Option<Vec<Vec<u8>>> = if c.with_cert && c.server_mode == 4 { Some(m.client_chain_der.clone()) } else if c.with_cert && c.server_mode != 2 { Some(vec![m.client_cert_der.clone()]) } else { None };
        let got = certs.clone().filter(|v| !v.is_empty());
        if got != want {
            fail("client-certs-differ", format!("after_authentication saw {:?} certificates, the client presented {:?}", got.as_ref().map(|v| v.len()), want.as_ref().map(|v| v.len())), rep);
            return;
        }
        if want.is_some() {
            rep.counters.inc("client_cert_chains_compared");
        }
        if want.as_ref().map(|w| w.len() > 1).unwrap_or(false) {
            rep.counters.inc("client_cert_chains_of_two_compared");
        }
    }
    // ---- nothing in plaintext after the upgrade
    match tls::tls_records(&o.world.server_raw_after) {
        Err(e) => {
            fail("plaintext-after-upgrade", format!("server bytes after the greeting are not TLS records: {}", e), rep);
            return;
        }
        Ok(recs) => {
            for (t, _, _) in &recs {
                rep.counters.inc(&format!("tls_records_type_{}", t));
            }
        }
    }
    for (name, can) in [("user", CANARY_USER), ("query", CANARY_QUERY), ("value", CANARY_VALUE)] {
        if find(&o.world.server_raw_after, can) || find(&o.world.client_raw[o.world.tls_from.min(o.world.client_raw.len())..], can) {
            fail("canary-in-clear", format!("the {} canary appears in the raw bytes after the SSL request", name), rep);
            return;
        }
    }
    rep.counters.inc("canary_scans");
    // ---- commands served exactly as over plaintext
    let mut plain = Case::new(c.cmds.clone(), c.scripts.clone());
    // the plaintext twin logs in with the very handshake response the TLS client sent inside TLS
    // (minus the SSL bit): whatever that response asks for - a default schema, say - is asked of both
    plain.handshake = if o.world.inner_handshake.len() > 4 {
        let mut h = o.world.inner_handshake.clone();
        h[1] &= !0x08;
        h
    } else {
        wire::handshake41(0x003f_a685, 1 << 24, 0x21, &c.user, b"\0")
    };
    let po = run_case(&plain);
    let pout = po.output();
    let (ppk, _) = wire::packets_prefix(&pout);
    let (pm, _) = wire::messages_prefix(&pout, &ppk);
    let pdec = wire::decode_all(&po.kinds, &pm);
    let (tpk, tused) = wire::packets_prefix(&o.world.app_in);
    if tused != o.world.app_in.len() {
        fail("decrypted-output-bad-framing", format!("{} stray bytes in the decrypted server output", o.world.app_in.len() - tused), rep);
        return;
    }
    let (tm, _) = wire::messages_prefix(&o.world.app_in, &tpk);
    let tkinds: Vec<Kind> = po.kinds[1..].to_vec();
    let tdec = wire::decode_all(&tkinds, &tm);
    if tdec.stop.is_some() || pdec.stop.is_some() {
        fail("responses-undecodable", format!("responses do not decode: tls {:?} / plaintext {:?}", tdec.stop, pdec.stop), rep);
        return;
    }
    // byte for byte: behind the reply to the handshake response (whose sequence id follows the id of
    // the response, which differs between the two connections) the decrypted bytes equal the
    // plaintext run's, sequence ids included
    if let (Some(t0), Some(p1)) = (tpk.first(), ppk.get(1)) {
        let ta = &o.world.app_in[t0.off + 4 + t0.len..];
        let pa = &pout[p1.off + 4 + p1.len..];
        if ta != pa {
            fail("bytes-differ-from-plaintext", format!("behind the login reply the client decrypted {} bytes, the plaintext run produced {}; first difference at offset {:?}", ta.len(), pa.len(), first_diff(ta, pa)), rep);
            return;
        }
        rep.counters.inc("connections_byte_compared_with_plaintext");
    }
    if tdec.resps[..] != pdec.resps[1..] {
        fail("differs-from-plaintext", format!("over TLS the client decoded {} responses, over plaintext {}; they differ", tdec.resps.len(), pdec.resps.len() - 1), rep);
        return;
    }
    let tcb: Vec<&CbKind> = o.log.cbs.iter().map(|c| &c.kind).filter(|k| !matches!(k, CbKind::Auth { .. })).collect();
    let pcb: Vec<&CbKind> = po.log.cbs.iter().map(|c| &c.kind).filter(|k| !matches!(k, CbKind::Auth { .. })).collect();
    if tcb != pcb {
        fail("callbacks-differ-from-plaintext", format!("{} command callbacks over TLS, {} over plaintext (or different arguments)", tcb.len(), pcb.len()), rep);
        return;
    }
    rep.counters.inc("connections_compared_with_plaintext");
    if o.world.closed_eagerly {
        rep.counters.inc("connections_compared_whose_client_sent_close_notify_right_behind_its_last_command");
    }
    if o.world.app_in.len() > 70_000 {
        rep.counters.inc("connections_with_reply_over_64k");
    }
    rep.counters.add("commands_served_over_tls", tcb.len() as u64);
    if o.world.reads.iter().any(|&(at, n)| at < o.world.tls_from && at + n > o.world.tls_from) {
        rep.counters.inc("connections_where_sslrequest_and_clienthello_shared_a_read");
    }
    if o.world.reads.iter().any(|&(at, n)| at < 36 && at + n < 36) {
        rep.counters.inc("connections_where_sslrequest_was_split");
    }
}

pub struct TlsTcpObs {
    pub outcome: Outcome,
    /// every byte the socket delivered to the client after the greeting packet
    pub raw_after_greeting: Vec<u8>,
    pub decrypted: Vec<u8>,
    pub client_error: Option<String>,
    pub user_seen: bool,
}

/// A socket that remembers what it delivered.
struct Rec {
    s: std::net::TcpStream,
    got: Vec<u8>,
}
impl std::io::Read for Rec {
    fn read(&mut self, b: &mut [u8]) -> std::io::Result<usize> {
        let n = self.s.read(b)?;
        self.got.extend_from_slice(&b[..n]);
        Ok(n)
    }
}
impl std::io::Write for Rec {
    fn write(&mut self, b: &[u8]) -> std::io::Result<usize> {
        self.s.write(b)
    }
    fn flush(&mut self) -> std::io::Result<()> {
        self.s.flush()
    }
}

/// One TLS session against `run_on_tcp` on the loopback interface. `ending`: 0 QUIT, 1 the backend
/// returns its own error for the last query, 2 a malformed command, 3 the client closes the socket at
/// a command boundary (no close_notify), 4 it closes inside a packet.
pub fn run_tls_tcp(m: &TlsMaterial, tls13: bool, nq: usize, ending: u8) -> Result<TlsTcpObs, String> {
    use std::io::{Read as _, Write as _};
    let cfg = m.client_config(tls13, false)?;
    let listener = std::net::TcpListener::bind("127.0.0.1:0").map_err(|e| format!("bind: {}", e))?;
    let addr = listener.local_addr().map_err(|e| e.to_string())?;
    let client = std::thread::spawn(move || -> Result<(Vec<u8>, Vec<u8>, Option<String>), String> {
        let s = std::net::TcpStream::connect(addr).map_err(|e| format!("connect: {}", e))?;
        let _ = s.set_read_timeout(Some(std::time::Duration::from_secs(60)));
        let _ = s.set_write_timeout(Some(std::time::Duration::from_secs(60)));
        let mut s = s;
        // the greeting, in plaintext
        let mut h = [0u8; 4];
        s.read_exact(&mut h).map_err(|e| format!("greeting header: {}", e))?;
        let len = h[0] as usize | (h[1] as usize) << 8 | (h[2] as usize) << 16;
        let mut g = vec![0u8; len];
        s.read_exact(&mut g).map_err(|e| format!("greeting: {}", e))?;
        let caps = 0x003f_a685 | wire::CLIENT_SSL;
        s.write_all(&wire::frame(&wire::ssl_request(caps, 1 << 24, 0x21), 1).0).map_err(|e| format!("ssl request: {}", e))?;
        let mut conn = rustls::ClientConnection::new(cfg, tls::server_name()).map_err(|e| e.to_string())?;
        let mut rec = Rec { s, got: Vec::new() };
        let mut plain = Vec::new();
        let mut cerr = None;
        {
            let mut t = rustls::Stream::new(&mut conn, &mut rec);
            let mut app = wire::frame(&wire::handshake41(caps, 1 << 24, 0x21, CANARY_USER, b"\0"), 2).0;
            for k in 0..nq {
                app.extend(wire::frame(&wire::com_text(wire::COM_QUERY, format!("q{}", k).as_bytes()), 0).0);
            }
            match ending {
                0 => app.extend(wire::frame(&[wire::COM_QUIT], 0).0),
                1 => app.extend(wire::frame(&wire::com_text(wire::COM_QUERY, b"fails"), 0).0),
                2 => app.extend(wire::frame(&[0x63, 1, 2, 3], 0).0),
                3 => {}
                _ => app.extend_from_slice(&[9, 0, 0, 0, 3, b'x']),
            }
            if let Err(e) = t.write_all(&app).and_then(|_| t.flush()) {
                cerr = Some(format!("client write: {}", e));
            }
            // read until the replies that are certainly due have arrived, then (for the endings in
            // which the client goes away) close; otherwise until the server closes
            let due = 1 + nq;
            let mut buf = vec![0u8; 1 << 14];
            loop {
                if ending >= 3 {
                    let (pk, _) = wire::packets_prefix(&plain);
                    if pk.len() >= due {
                        break;
                    }
                }
                match t.read(&mut buf) {
                    Ok(0) => break,
                    Ok(n) => plain.extend_from_slice(&buf[..n]),
                    Err(e) => {
                        if e.kind() != std::io::ErrorKind::UnexpectedEof && e.kind() != std::io::ErrorKind::ConnectionReset {
                            cerr.get_or_insert(format!("client read: {}", e));
                        }
                        break;
                    }
                }
            }
        }
        if ending >= 3 {
            let _ = rec.s.shutdown(std::net::Shutdown::Write);
        }
        // whatever else the server put on the wire
        let mut buf = vec![0u8; 1 << 14];
        loop {
            match rec.read(&mut buf) {
                Ok(0) => break,
                Ok(_) => {}
                Err(_) => break,
            }
        }
        Ok((rec.got, plain, cerr))
    });
    let (stream, _) = listener.accept().map_err(|e| format!("accept: {}", e))?;
    let _ = stream.set_read_timeout(Some(std::time::Duration::from_secs(60)));
    let clock: crate::transport::Clock = Rc::new(std::cell::Cell::new(0));
    let mut scripts: Vec<Script> = (0..nq).map(|k| Script::Q(QProg::completed(k as u64, 0))).collect();
    if ending == 1 {
        scripts.push(Script::Fail(0x7c9));
    }
    let (mut shim, log) = ScriptShim::new(clock, scripts);
    shim.tls = Some(std::sync::Arc::new((*m.server_optional).clone()));
    let _ = take_panic();
    let r = catch_unwind(AssertUnwindSafe(move || msql_srv::MysqlIntermediary::run_on_tcp(shim, stream)));
    let outcome = match r {
        Ok(Ok(())) => Outcome::Ok,
        Ok(Err(ShimErr::Io(e))) => Outcome::Io { kind: e.kind(), msg: e.to_string() },
        Ok(Err(ShimErr::Token(t))) => Outcome::Token(t),
        Err(_) => {
            let (file, line, msg) = take_panic().unwrap_or(("?".into(), 0, "?".into()));
            Outcome::Panic { file, line, msg }
        }
    };
    let (raw, decrypted, client_error) = client.join().map_err(|_| "client thread died".to_string())??;
    let user_seen = log.borrow().cbs.iter().any(|c| matches!(&c.kind, CbKind::Auth { user: Some(u), .. } if u == CANARY_USER));
    Ok(TlsTcpObs { outcome, raw_after_greeting: raw, decrypted, client_error, user_seen })
}

pub fn run(ctx: &Ctx) -> Report {
    let mut rep = Report::default();
    rep.rule = "cases = real TLS connections (rustls client inside the transport): first read cut at every offset 0..(36 + |ClientHello| + 10), later read sizes {1,2,3,5,16,64,random,inf}, write limits {inf,1000,1}, TLS 1.2 and 1.3, with/without client certificate (verifier optional / required / none), 0-10 commands incl. PREPARE/EXECUTE with rows, stream ended by close_notify or QUIT; plus TLS requested from a shim that offers none; a class is a (cut class, read-size class, TLS version, client cert, write limit) tuple; non-trivial = the TLS handshake completed against the real server and the decrypted conversation was compared with the plaintext run of the same script".into();
    if ctx.miri {
        rep.inconclusive.push("C18 cannot run under Miri (native crypto)".into());
        return rep;
    }
    // ---- the property's last sentence, with scripted bytes (no TLS library needed on either side, so
    //      this group also runs against the library built WITHOUT its `tls` feature, whose refusal is
    //      code of its own): a client that asks for TLS from a shim that offers none is refused with
    //      an error, after_authentication is never called, nothing behind the request is served
    let n = ctx.n(600, 20_000);
    let r = par_cases(ctx, "C18", "requested-not-offered", n, |rng, i, rep| {
        let (case, label) = ssl_refusal_case(rng, i);
        let o = run_case(&case);
        rep.evaluations += 1;
        rep.counters.class(label.clone());
        let d = || ssl_refusal_detail(&case, &o, &label);
        if i < 2 {
            rep.sample(d());
        }
        if harness_panic(&o, rep) {
            return;
        }
        if let Outcome::Panic { file, line, msg } = &o.outcome {
            rep.violations.push(viol("C18", format!("C18 refusal {}", panic_signature(file, *line, msg)), format!("the server panicked on a TLS request it cannot serve: {}", o.outcome.describe()), d()));
            return;
        }
        if o.log.cbs.iter().any(|c| matches!(c.kind, CbKind::Auth { .. })) {
            rep.violations.push(viol("C18", "C18 auth-called-despite-refusal".into(), "after_authentication was called although the client asked for TLS and the shim offers none".into(), d()));
            return;
        }
        if let Some(c) = o.log.cbs.first() {
            rep.violations.push(viol("C18", "C18 served-despite-refusal".into(), format!("{} reached the shim although the connection had to be refused", cb_summary(c)), d()));
            return;
        }
        if !o.outcome.is_err() {
            rep.violations.push(viol("C18", "C18 tls-request-not-refused".into(), format!("a client asked for TLS from a shim that offers none and run_on returned {}", o.outcome.describe()), d()));
            return;
        }
        rep.counters.inc("scripted_refusals_checked");
    });
    rep.merge(r);
    if ctx.strict() {
        rep.require("scripted_refusals_checked", 100);
    }
    if cfg!(not(feature = "tls")) {
        rep.notes.push("built without the library's tls feature: only the refusal of a TLS request can be decided in this build; everything else of C18 is decided by the passes built with the feature".into());
        return rep;
    }
    let m = match TlsMaterial::generate() {
        Ok(m) => m,
        Err(e) => {
            rep.inconclusive.push(format!("cannot generate TLS material: {}", e));
            return rep;
        }
    };
    // size of a ClientHello (to bound the cut sweep)
    let hello_len = {
        let cfg = m.client_config(true, false).unwrap();
        let mut c = rustls::ClientConnection::new(cfg, tls::server_name()).unwrap();
        let mut v = Vec::new();
        let _ = c.write_tls(&mut v);
        v.len()
    };
    let max_cut = 36 + hello_len + 10;
    rep.notes.push(format!("ClientHello is {} bytes; first-read cut swept over 0..={}", hello_len, max_cut));
    // ---- (a) sweep of the first-read cut x version x cert
    let stride = if ctx.scale < 1.0 { (1.0 / ctx.scale).ceil() as usize } else { 1 };
    let cuts: Vec<usize> = (0..=max_cut).step_by(stride).collect();
    let variants: Vec<(bool, bool, u8)> = vec![(true, false, 0), (true, true, 0), (false, false, 0), (false, true, 1), (true, false, 2), (true, true, 1)];
    let nsweep = cuts.len() * if ctx.thorough { variants.len() } else { 3 };
    let mref = &m;
    let r = par_cases(ctx, "C18", "cut-sweep", nsweep as u64, |rng, i, rep| {
        let cut = cuts[i as usize % cuts.len()];
        let vi = i as usize / cuts.len();
        let (tls13, with_cert, mode) = if ctx.thorough { variants[vi] } else { variants[(vi + ctx.seed as usize) % variants.len()] };
        let ncmd = rng.below(4) as usize;
        let (mut cmds, scripts) = tls_script(rng, ncmd);
        let quit = rng.bool();
        if quit {
            cmds.push(Cmd::quit());
        }
        let c = TlsCase { tls13, with_cert, server_mode: mode, user: CANARY_USER.to_vec(), cmds, scripts, first_cut: cut, cycle: vec![], write_limit: usize::MAX, close_notify: true, raw_limit: None, hs_variant: 0, app_override: None, seqs: (1, 2), auth_reject: None, record_per_command: false, write_fault: None, buffer_writes: rng.bool(), eager_close: rng.chance(1, 3) };
        let o = match run_tls(mref, &c) {
            Ok(o) => o,
            Err(e) => {
                rep.inconclusive.push(format!("TLS harness error: {}", e));
                return;
            }
        };
        rep.evaluations += 1;
        let cc = if cut == 0 { "none" } else if cut < 36 { "inside SSLRequest" } else if cut == 36 { "exactly after SSLRequest" } else if cut < 36 + 5 { "inside first TLS record header" } else if cut < 36 + hello_len { "inside ClientHello" } else { "at/after ClientHello end" };
        rep.counters.class(format!("first-read cut {} tls1.{} cert={} mode={}", cc, if tls13 { 3 } else { 2 }, with_cert, mode));
        let d = || J::obj().set("first_read_bytes", cut).set("cut_class", cc).set("tls", if tls13 { "1.3" } else { "1.2" }).set("client_cert", with_cert).set("server_client_auth", ["optional", "required", "none", "no tls", "optional (issued chain)"][mode as usize]).set("commands", kinds_summary(&c.cmds)).set("first_reads", o.world.reads.iter().take(6).map(|&(a, n)| J::s(format!("{}+{}", a, n))).collect::<Vec<_>>()).set("outcome", o.outcome.describe());
        if i < 2 {
            rep.sample(d());
        }
        judge(mref, &c, &o, rep, &d);
    });
    rep.merge(r);

    // ---- (b) random chunkings of the whole TLS handshake and session
    let n = ctx.n(1500, 60_000);
    let r = par_cases(ctx, "C18", "chunkings", n, |rng, i, rep| {
        let tls13 = rng.bool();
        let with_cert = rng.bool();
        let mode = if with_cert { *rng.pick(&[0u8, 1, 2, 4, 4]) } else { *rng.pick(&[0u8, 2, 4]) };
        let (cyc_name, cycle): (&str, Vec<usize>) = match i % 8 {
            0 => ("1", vec![1]),
            1 => ("2", vec![2]),
            2 => ("3", vec![3]),
            3 => ("5", vec![5]),
            4 => ("16", vec![16]),
            5 => ("64", vec![64]),
            6 => ("random", (0..53).map(|_| rng.range(1, 300) as usize).collect()),
            _ => ("inf", vec![]),
        };
        let wl = *rng.pick(&[usize::MAX, usize::MAX, 1000, 1]);
        let ncmd = rng.below(11) as usize;
        let (mut cmds, scripts) = tls_script(rng, ncmd);
        let close_notify = rng.chance(2, 3);
        if !close_notify {
            cmds.push(Cmd::quit());
        }
        let first_cut = if rng.bool() { rng.range(1, 60) as usize } else { 0 };
        // (the anonymous user - an empty name - is a name like any other, with or without a certificate)
        let uname: Vec<u8> = match rng.below(6) {
            0 => vec![],
            1 => b"root".to_vec(),
            _ => CANARY_USER.to_vec(),
        };
        let c = TlsCase { tls13, with_cert, server_mode: mode, user: uname, cmds, scripts, first_cut, cycle, write_limit: wl, close_notify, raw_limit: None, hs_variant: if rng.bool() { rng.next() | 1 } else { 0 }, app_override: None, seqs: (1, 2), auth_reject: None, record_per_command: rng.bool(), write_fault: None, buffer_writes: rng.bool(), eager_close: rng.chance(1, 3) };
        let o = match run_tls(mref, &c) {
            Ok(o) => o,
            Err(e) => {
                rep.inconclusive.push(format!("TLS harness error: {}", e));
                return;
            }
        };
        rep.evaluations += 1;
        rep.counters.class(format!("reads={} tls1.{} cert={} mode={} wl={}", cyc_name, if tls13 { 3 } else { 2 }, with_cert, mode, if wl == usize::MAX { "inf".into() } else { wl.to_string() }));
        let d = || J::obj().set("read_sizes", cyc_name).set("first_read_bytes", first_cut).set("write_limit", if wl == usize::MAX { -1 } else { wl as i64 }).set("tls", if tls13 { "1.3" } else { "1.2" }).set("client_cert", with_cert).set("server_client_auth", ["optional", "required", "none", "no tls", "optional (issued chain)"][mode as usize]).set("commands", kinds_summary(&c.cmds)).set("ended_by", if close_notify { "close_notify" } else { "QUIT" }).set("outcome", o.outcome.describe());
        if i < 2 {
            rep.sample(d());
        }
        judge(mref, &c, &o, rep, &d);
    });
    rep.merge(r);

    // ---- (b1) one transient error (Interrupted / WouldBlock / TimedOut) on one write() of the server,
    //      commands and QUIT pipelined in one record: if run_on returns Ok, the client must have
    //      decrypted exactly what the plaintext run produced (nothing may stay queued in the TLS layer)
    let n = ctx.n(600, 10_000);
    let r = par_cases(ctx, "C18", "transient-write-errors", n, |rng, i, rep| {
        let ncmd = rng.range(1, 4) as usize;
        let (mut cmds, scripts) = tls_script(rng, ncmd);
        cmds.push(Cmd::quit());
        let mut c = TlsCase { tls13: rng.bool(), with_cert: false, server_mode: 0, user: CANARY_USER.to_vec(), cmds, scripts, first_cut: 0, cycle: vec![], write_limit: usize::MAX, close_notify: false, raw_limit: None, hs_variant: 0, app_override: None, seqs: (1, 2), auth_reject: None, record_per_command: rng.chance(1, 3), write_fault: None, buffer_writes: rng.bool(), eager_close: false };
        let dry = match run_tls(mref, &c) {
            Ok(o) => o,
            Err(e) => {
                rep.inconclusive.push(format!("TLS harness error: {}", e));
                return;
            }
        };
        let kind = 100 + (i % 3) as u8;
        c.write_fault = Some((rng.below(dry.world.nwrite.max(1)), kind));
        let o = match run_tls(mref, &c) {
            Ok(o) => o,
            Err(e) => {
                rep.inconclusive.push(format!("TLS harness error: {}", e));
                return;
            }
        };
        rep.evaluations += 1;
        let kname = ["Interrupted", "WouldBlock", "TimedOut"][(kind - 100) as usize];
        rep.counters.class(format!("transient {} on a server write over TLS -> {}", kname, o.outcome.class()));
        let d = || J::obj().set("fault", format!("{} on the server's write() #{:?} of {}", kname, c.write_fault.map(|f| f.0), dry.world.nwrite)).set("commands", kinds_summary(&c.cmds)).set("a_record_per_command", c.record_per_command).set("outcome", o.outcome.describe());
        if i < 1 {
            rep.sample(d());
        }
        if !o.world.write_fault_hit {
            rep.counters.inc("transient_write_fault_not_reached");
            return;
        }
        if o.outcome == Outcome::Ok || matches!(o.outcome, Outcome::Panic { .. }) {
            // the server carried on: everything C18 demands of an undisturbed connection holds
            judge(mref, &c, &o, rep, &d);
            rep.counters.inc("transient_write_errors_survived_and_judged");
        } else {
            rep.counters.inc("transient_write_errors_ending_the_connection");
        }
    });
    rep.merge(r);

    // ---- (b2) long mixed histories (the shared mega workload) over TLS: everything the client decrypts
    //      must equal what the same script yields over plaintext
    let n = ctx.n(300, 10_000);
    let r = par_cases(ctx, "C18", "mega-over-tls", n, |rng, i, rep| {
        let mut m = super::mega::generate(rng, 30);
        let mut tries = 0;
        while m.conv.over() && tries < 20 {
            m = super::mega::generate(rng, 30);
            tries += 1;
        }
        if m.conv.over() {
            return;
        }
        let wl = *rng.pick(&[usize::MAX, usize::MAX, 1000, 7]);
        let mut cmds = m.conv.cmds();
        let close_notify = rng.bool();
        if !close_notify {
            cmds.push(Cmd::quit());
        }
        let big_input = cmds.iter().map(|c| c.payload.len()).sum::<usize>() > 100_000;
        let mut c = TlsCase { tls13: rng.bool(), with_cert: rng.bool(), server_mode: 0, user: CANARY_USER.to_vec(), cmds, scripts: m.conv.scripts.clone(), first_cut: if rng.bool() { rng.range(1, 60) as usize } else { 0 }, cycle: if rng.bool() { vec![] } else { vec![rng.range(1, 2000) as usize] }, write_limit: wl, close_notify, raw_limit: None, hs_variant: 0, app_override: None, seqs: (1, 2), auth_reject: None, record_per_command: rng.bool(), write_fault: None, buffer_writes: rng.bool(), eager_close: rng.chance(1, 3) };
        if big_input && !c.cycle.is_empty() {
            // the real parser zero-fills its doubling buffer before every read: tiny reads over megabytes
            // cost minutes (a cost bound of the harness, as in the plaintext mega workload)
            c.cycle = vec![65_536 + c.cycle[0] * 37];
        }
        let o = match run_tls(mref, &c) {
            Ok(o) => o,
            Err(e) => {
                rep.inconclusive.push(format!("TLS harness error: {}", e));
                return;
            }
        };
        rep.evaluations += 1;
        rep.counters.inc("mega_conversations_over_tls");
        rep.counters.class(format!("mega over tls1.{} wl={}", if c.tls13 { 3 } else { 2 }, if wl == usize::MAX { "inf".into() } else { wl.to_string() }));
        let d = || J::obj().set("workload", "mega conversation over TLS").set("history", m.desc.clone()).set("write_limit", if wl == usize::MAX { -1 } else { wl as i64 }).set("tls", if c.tls13 { "1.3" } else { "1.2" }).set("outcome", o.outcome.describe());
        if i == 0 {
            rep.sample(d());
        }
        judge(mref, &c, &o, rep, &d);
    });
    rep.merge(r);

    // ---- (c) TLS requested, not offered; required certificate missing
    let n = ctx.n(200, 5000);
    let r = par_cases(ctx, "C18", "refusals", n, |rng, i, rep| {
        let mode = if i % 2 == 0 { 3 } else { 1 };
        let (cmds, scripts) = tls_script(rng, 2);
        let c = TlsCase { tls13: rng.bool(), with_cert: false, server_mode: mode, user: CANARY_USER.to_vec(), cmds, scripts, first_cut: rng.below(80) as usize, cycle: if rng.bool() { vec![] } else { vec![rng.range(1, 40) as usize] }, write_limit: usize::MAX, close_notify: true, raw_limit: None, hs_variant: 0, app_override: None, seqs: (1, 2), auth_reject: None, record_per_command: false, write_fault: None, buffer_writes: rng.bool(), eager_close: rng.chance(1, 3) };
        let o = match run_tls(mref, &c) {
            Ok(o) => o,
            Err(e) => {
                rep.inconclusive.push(format!("TLS harness error: {}", e));
                return;
            }
        };
        rep.evaluations += 1;
        rep.counters.class(format!("refusal: {}", if mode == 3 { "tls requested, none offered" } else { "required client certificate missing" }));
        let d = || J::obj().set("scenario", if mode == 3 { "TLS requested from a shim that offers none" } else { "client certificate required but not presented" }).set("outcome", o.outcome.describe());
        judge(mref, &c, &o, rep, &d);
    });
    rep.merge(r);
    // ---- the run_on_tcp entry point: a real TLS client on the loopback interface. In-memory transports
    //      cannot see what run_on_tcp itself does with the socket (it owns the TcpStream and may keep
    //      a second handle on it). Sessions end the ways sessions end: QUIT, the backend's own error,
    //      a malformed command, the client going away at a command boundary or inside a packet. Every
    //      byte that arrives on the socket after the greeting must belong to a TLS record, and what
    //      the client decrypts must be the replies to its commands.
    let n = ctx.n(40, 600);
    let r = par_cases(ctx, "C18", "tcp", n, |rng, i, rep| {
        let ending = (i % 5) as u8;
        let tls13 = rng.bool();
        let nq = rng.range(1, 4);
        match run_tls_tcp(mref, tls13, nq as usize, ending) {
            Err(e) => {
                // an extra layer: without a loopback interface it is skipped and counted
                rep.counters.inc("loopback_tls_runs_not_possible");
                if rep.notes.len() < 3 {
                    rep.notes.push(format!("loopback TLS run could not be set up: {}", e));
                }
            }
            Ok(o) => {
                rep.evaluations += 1;
                let ename = ["QUIT", "the backend returns an error", "a malformed command", "the client closes at a command boundary", "the client closes inside a packet"][ending as usize];
                rep.counters.class(format!("tls over loopback tcp (run_on_tcp), TLS {}, ended by: {}", if tls13 { "1.3" } else { "1.2" }, ename));
                let d = || J::obj().set("entry_point", "run_on_tcp over 127.0.0.1").set("tls", if tls13 { "1.3" } else { "1.2" }).set("queries", nq).set("ended_by", ename).set("outcome", o.outcome.describe()).set("raw_server_bytes_after_greeting", o.raw_after_greeting.len()).set("client_error", o.client_error.clone().unwrap_or_default());
                if i < 2 {
                    rep.sample(d());
                }
                if let Outcome::Panic { file, line, msg } = &o.outcome {
                    rep.violations.push(viol("C18", format!("C18 tcp {}", panic_signature(file, *line, msg)), format!("run_on_tcp panicked during a TLS session: {}", o.outcome.describe()), d()));
                    return;
                }
                if let Err(e) = tls::tls_records(&o.raw_after_greeting) {
                    rep.violations.push(viol("C18", "C18 tcp plaintext-after-upgrade".into(), format!("after the TLS upgrade the socket carried bytes that are not TLS records: {}", e), d()));
                    return;
                }
                rep.counters.inc("loopback_tls_streams_scanned");
                if !o.user_seen {
                    rep.violations.push(viol("C18", "C18 tcp auth-missing".into(), "after_authentication did not see the user of the encrypted handshake response".into(), d()));
                    return;
                }
                // the decrypted stream: auth OK, then one OK per query that was served
                let (pk, _) = wire::packets_prefix(&o.decrypted);
                let (msgs, _) = wire::messages_prefix(&o.decrypted, &pk);
                let oks = msgs.iter().filter(|m| wire::parse_ok(&m.payload).is_ok()).count();
                if oks < 1 + nq as usize {
                    rep.violations.push(viol("C18", "C18 tcp replies-missing".into(), format!("the client decrypted {} OK replies, the auth reply and {} queries were due before the session ended", oks, nq), d()));
                    return;
                }
                rep.counters.inc("loopback_tls_sessions_checked");
            }
        }
    });
    rep.merge(r);
    if ctx.strict() && rep.counters.get("loopback_tls_runs_not_possible") == 0 {
        rep.require("loopback_tls_sessions_checked", 20);
    }
    if ctx.strict() {
        rep.require("connections_compared_with_plaintext", 100);
        rep.require("canary_scans", 100);
        rep.require("connections_where_sslrequest_and_clienthello_shared_a_read", 10);
        rep.require("refusals_checked", 10);
        rep.require("connections_with_reply_over_64k", 10);
        rep.require("client_cert_chains_compared", 10);
        rep.require("client_cert_chains_of_two_compared", 5);
    }
    rep
}
