//! Backends that go on after a writer call reported an error.
//!
//! `write_col` / `write_row` / `end_row` return `io::Result`, and nothing in the API says a refusal
//! ends the resultset: a backend may substitute another value for the refused one, supply the cells
//! a short `write_row` lacked, or tell the client what went wrong with `finish_error`. The writer
//! calls that report success afterwards are bound by the same properties as any other: the reply is
//! one conformant response (C03) whose rows hold exactly the cells that were accepted, with their
//! values and NULLs intact (C06 text, C07 binary), an ERR that carries what `finish_error` was given
//! (C13), under consecutive sequence ids (C05).  Shared workload, one clause per property.
//!
//! What the rows must hold is derived from the recorded result of every call, not assumed: a cell is
//! part of its row iff the call that offered it returned Ok (for a refused `write_row` the cells in
//! front of the one chosen to be unacceptable - the library takes them one by one).  When a call whose
//! result the program propagates (`?`) fails, the callback returns that error and only "no panic, an
//! error return" is demanded.

use crate::core::*;
use crate::props::common::*;
use crate::props::values::{bin_matches, sem_of, text_cell_matches, Sem};
use crate::shim::*;
use crate::util::*;
use crate::wire::{self, Part, Resp, RowsEnd};
use msql_srv::{Column, ColumnFlags, ColumnType};
use mysql_common::value::Value as MV;

#[derive(Clone, Copy, Debug, PartialEq, Eq)]
pub enum Clause {
    /// one conformant response, rows of exactly the accepted cells (cell count only)
    Shape,
    /// cell values and NULLs
    Values,
    /// ERR fields of a successful finish_error
    ErrFields,
    /// sequence ids
    SeqIds,
}

pub struct Plan {
    pub bin: bool,
    pub cols: Vec<Column>,
    pub prog: QProg,
    /// for `TryRow` at ops[i]: how many leading cells precede the one chosen to be refused
    /// (all of them when the row is merely short)
    pub taken_on_err: Vec<(usize, usize)>,
    pub err: Option<(u16, Vec<u8>)>,
    pub label: String,
}

fn good_cell(rng: &mut Rng, c: &Column, bin: bool) -> Cell {
    let nullable = !c.colflags.contains(ColumnFlags::NOT_NULL_FLAG) || !bin;
    if nullable && rng.chance(1, 4) {
        return Cell { v: V::Null, form: FORMS[rng.usize(5)] };
    }
    match c.coltype {
        ColumnType::MYSQL_TYPE_LONG => Cell { v: V::I32(rng.next() as i32), form: FORMS[rng.usize(5)] },
        _ => {
            let n = rng.below(12) as usize;
            Cell { v: V::Str(String::from_utf8(rng.ascii(n)).unwrap()), form: FORMS[rng.usize(5)] }
        }
    }
}

/// A value this column must not take (binary: NULL for NOT NULL, a value of another kind) or may
/// refuse (text: a generic date that is no calendar date, a negative generic time).
fn bad_cell(rng: &mut Rng, c: &Column, bin: bool) -> Cell {
    if bin {
        if c.colflags.contains(ColumnFlags::NOT_NULL_FLAG) && rng.bool() {
            return Cell { v: V::Null, form: FORMS[rng.usize(5)] };
        }
        match c.coltype {
            ColumnType::MYSQL_TYPE_LONG => Cell::val(if rng.bool() { V::Str("not a number".into()) } else { V::F64(1.5) }),
            _ => Cell::val(if rng.bool() { V::I32(7) } else { V::F64(2.5) }),
        }
    } else if rng.bool() {
        Cell::val(V::Myc(MV::Date(2021, 2, 30, 0, 0, 0, 0)))
    } else {
        Cell::val(V::Myc(MV::Time(true, 0, 1, 2, 3, 0)))
    }
}

pub fn plan(rng: &mut Rng, mode: Option<bool>) -> Plan {
    let bin = mode.unwrap_or_else(|| rng.bool());
    let nc = rng.range(1, 5) as usize;
    let cols: Vec<Column> = (0..nc)
        .map(|c| Column {
            table: "t".into(),
            column: format!("c{}", c),
            coltype: if rng.bool() { ColumnType::MYSQL_TYPE_LONG } else { ColumnType::MYSQL_TYPE_VAR_STRING },
            colflags: if rng.bool() { ColumnFlags::NOT_NULL_FLAG } else { ColumnFlags::empty() },
        })
        .collect();
    let mut ops = vec![QOp::Start(0)];
    let mut taken = Vec::new();
    let nr = rng.range(1, 3) as usize;
    let mut label = String::new();
    // the last row may be abandoned right after a refusal (the backend reports the error instead)
    let abandon = rng.chance(1, 3);
    for r in 0..nr {
        let last = r + 1 == nr;
        let style = rng.below(4);
        let good: Vec<Cell> = cols.iter().map(|c| good_cell(rng, c, bin)).collect();
        match style {
            0 => {
                label.push_str("plain,");
                if rng.bool() {
                    ops.push(QOp::Row(good, if rng.bool() { RowForm::Owned } else { RowForm::Borrowed }));
                } else {
                    for c in good {
                        ops.push(QOp::Col(c));
                    }
                    ops.push(QOp::EndRow);
                }
            }
            1 => {
                // a refused cell at position k, once or twice, then (unless abandoned) a substitute
                let k = rng.usize(nc);
                label.push_str(&format!("cell-refused@{}{},", k, if last && abandon { "-abandoned" } else { "" }));
                for c in good.iter().take(k) {
                    ops.push(QOp::Col(c.clone()));
                }
                ops.push(QOp::TryCol(bad_cell(rng, &cols[k], bin)));
                if rng.chance(1, 4) {
                    ops.push(QOp::TryCol(bad_cell(rng, &cols[k], bin)));
                }
                if last && abandon {
                    break;
                }
                for c in good.iter().skip(k) {
                    ops.push(QOp::Col(c.clone()));
                }
                ops.push(QOp::EndRow);
            }
            2 => {
                // write_row with too few cells, then the rest one by one
                let k = rng.usize(nc);
                label.push_str(&format!("row-short@{},", k));
                taken.push((ops.len(), k));
                ops.push(QOp::TryRow(good[..k].to_vec(), if rng.bool() { RowForm::Owned } else { RowForm::Borrowed }));
                for c in good.iter().skip(k) {
                    ops.push(QOp::Col(c.clone()));
                }
                ops.push(QOp::EndRow);
            }
            _ => {
                // write_row with one unacceptable cell, then a substitute and the rest
                let k = rng.usize(nc);
                label.push_str(&format!("row-bad-cell@{}{},", k, if last && abandon { "-abandoned" } else { "" }));
                let mut cells = good.clone();
                cells[k] = bad_cell(rng, &cols[k], bin);
                taken.push((ops.len(), k));
                ops.push(QOp::TryRow(cells, if rng.bool() { RowForm::Owned } else { RowForm::Borrowed }));
                if last && abandon {
                    break;
                }
                for c in good.iter().skip(k) {
                    ops.push(QOp::Col(c.clone()));
                }
                ops.push(QOp::EndRow);
            }
        }
    }
    let mut err = None;
    match rng.below(if abandon { 4 } else { 5 }) {
        0 | 1 => {
            let code = *rng.pick(&[1064u16, 1146, 1048, 1366, 1105]);
            let ml = rng.below(40) as usize;
            let msg = rng.ascii(ml);
            err = Some((code, msg.clone()));
            ops.push(QOp::FinishErr(code, msg));
            label.push_str("finish_error");
        }
        2 => {
            ops.push(QOp::Finish);
            label.push_str("finish");
        }
        3 => {
            ops.push(QOp::DropRow);
            label.push_str("drop");
        }
        _ => {
            ops.push(QOp::FinishOne);
            ops.push(QOp::Completed(rng.below(1000), rng.below(1000)));
            label.push_str("finish_one+completed");
        }
    }
    Plan { bin, cols: cols.clone(), prog: QProg { colsets: vec![cols], ops, on_err: OnErr::Drop }, taken_on_err: taken, err, label: format!("{} {}", if bin { "bin" } else { "text" }, label) }
}

pub fn case_of(rng: &mut Rng, p: &Plan) -> Case {
    let mut cmds = vec![Cmd::prepare(b"p")];
    let mut scripts = vec![Script::PrepOk { id: 1, params: vec![], cols: vec![] }];
    cmds.push(if p.bin { Cmd::execute(1, &[], false) } else { Cmd::query(b"q") });
    scripts.push(Script::Q(p.prog.clone()));
    cmds.push(Cmd::ping());
    let mut case = Case::new(cmds, scripts);
    vary_transport(rng, &mut case);
    case
}

/// What the recorded results say the reply must contain: rows of accepted cells, whether the program
/// ran to its end with every propagated call succeeding, whether finish_error reported success.
struct Told {
    rows: Vec<Vec<Cell>>,
    aborted: bool,
    finish_error_ok: bool,
    trailing_ok: Option<(u64, u64)>,
    refusals: usize,
    dropped_mid_row: bool,
}

fn told(p: &Plan, results: &[OpRes]) -> Told {
    let mut t = Told { rows: vec![], aborted: false, finish_error_ok: false, trailing_ok: None, refusals: 0, dropped_mid_row: false };
    let mut cur: Vec<Cell> = Vec::new();
    let mut ri = 0;
    for (oi, op) in p.prog.ops.iter().enumerate() {
        let Some(r) = results.get(ri) else {
            t.aborted = true;
            break;
        };
        ri += 1;
        let ok = r.err.is_none();
        if !ok {
            t.refusals += 1;
        }
        match op {
            QOp::Start(_) => {
                if !ok {
                    t.aborted = true;
                    break;
                }
            }
            QOp::Col(c) => {
                if ok {
                    cur.push(c.clone());
                } else {
                    t.aborted = true;
                    break;
                }
            }
            QOp::TryCol(c) => {
                if ok {
                    cur.push(c.clone());
                }
            }
            QOp::EndRow => {
                if ok {
                    t.rows.push(std::mem::take(&mut cur));
                } else {
                    t.aborted = true;
                    break;
                }
            }
            QOp::Row(cells, _) => {
                if ok {
                    cur.extend(cells.iter().cloned());
                    t.rows.push(std::mem::take(&mut cur));
                } else {
                    t.aborted = true;
                    break;
                }
            }
            QOp::TryRow(cells, _) => {
                if ok {
                    cur.extend(cells.iter().cloned());
                    t.rows.push(std::mem::take(&mut cur));
                } else {
                    let k = p.taken_on_err.iter().find(|(i, _)| *i == oi).map(|(_, k)| *k).unwrap_or(0);
                    cur.extend(cells.iter().take(k).cloned());
                }
            }
            QOp::Finish | QOp::FinishOne | QOp::DropRow | QOp::FinishErr(..) => {
                if ok {
                    // a complete row that was not ended yet is ended here; an incomplete one cannot be
                    // sent: a call that reports success then must have discarded it (a dropped writer
                    // has no way to report anything: the error may surface as run_on's result instead)
                    if cur.len() == p.cols.len() {
                        t.rows.push(std::mem::take(&mut cur));
                    } else if !cur.is_empty() {
                        cur.clear();
                        if matches!(op, QOp::DropRow) {
                            t.dropped_mid_row = true;
                        }
                    }
                    if matches!(op, QOp::FinishErr(..)) {
                        t.finish_error_ok = true;
                    }
                } else {
                    t.aborted = true;
                    break;
                }
            }
            QOp::Completed(a, b) => {
                if ok {
                    t.trailing_ok = Some((*a, *b));
                } else {
                    t.aborted = true;
                    break;
                }
            }
            _ => {}
        }
    }
    t
}

/// Run one recovery conversation and judge it under one property's clause.
pub fn run_one(prop: &'static str, clause: Clause, mode: Option<bool>, rng: &mut Rng, i: u64, rep: &mut Report) {
    let p = plan(rng, mode);
    let mut case = case_of(rng, &p);
    if clause == Clause::SeqIds {
        // ids are judged against the plaintext exchange layout (the TLS handshake has its own group in C05)
        case.over_tls = false;
    }
    let obs = run_case(&case);
    rep.evaluations += 1;
    if harness_panic(&obs, rep) {
        return;
    }
    rep.counters.class(format!("recover: {}", p.label));
    let d = || J::obj().set("program", p.prog.ops.iter().map(|o| J::s(o.shape())).collect::<Vec<_>>()).set("plan", p.label.clone()).set("columns", p.cols.iter().map(|c| J::s(format!("{:?}{}", c.coltype, if c.colflags.contains(ColumnFlags::NOT_NULL_FLAG) { " NOT NULL" } else { "" }))).collect::<Vec<_>>()).set("outcome", obs.outcome.describe());
    if i == 0 {
        rep.sample(d());
    }
    if let Outcome::Panic { file, line, msg } = &obs.outcome {
        rep.violations.push(viol(prop, format!("{} recover {}", prop, panic_signature(file, *line, msg)), format!("a backend that went on after a refused writer call made run_on panic: {}", obs.outcome.describe()), d()));
        return;
    }
    let Some(cb) = obs.log.cbs.iter().find(|c| matches!(c.kind, CbKind::Query(_) | CbKind::Execute { .. })) else {
        rep.counters.inc("recover_callback_not_reached");
        return;
    };
    let t = told(&p, &cb.results);
    rep.counters.add("recover_refusals_seen", t.refusals as u64);
    if t.aborted {
        // a propagated call failed: the callback returned that error, the connection has to end with one
        rep.counters.inc("recover_program_gave_up");
        if clause == Clause::Shape && matches!(obs.outcome, Outcome::Ok) {
            rep.violations.push(viol(prop, format!("{} recover error-return-masked", prop), "the backend returned the error a writer call gave it, run_on returned Ok".into(), d()));
        }
        return;
    }
    if t.dropped_mid_row && obs.outcome.is_err() {
        // the writer was dropped in the middle of a row: its destructor cannot return the error, so
        // the connection ending with one is the report
        rep.counters.inc("recover_dropped_mid_row_reported_by_run_on");
        return;
    }
    rep.counters.inc("recover_programs_completed");
    // every call the program relied on reported success: the reply has to be right
    let (pkts, msgs, dec) = match decode_output(&obs) {
        Ok(x) => x,
        Err(e) => {
            if clause == Clause::Shape {
                rep.violations.push(viol(prop, format!("{} recover bad-framing", prop), e, d()));
            }
            return;
        }
    };
    let resp = dec.resps.get(3);
    let shape_err: Option<String> = (|| {
        if !matches!(obs.outcome, Outcome::Ok) {
            return Some(format!("run_on did not return Ok: {}", obs.outcome.describe()));
        }
        if let Some(s) = &dec.stop {
            return Some(format!("the output does not decode as one response per command: {:?}", s));
        }
        let Some(Resp::Parts(parts)) = resp else { return Some("no response to the command".into()) };
        let Some(Part::Rows { cols: defs, rows, end, .. }) = parts.first() else { return Some(format!("the response does not begin with a resultset: {:?}", parts.first())) };
        if defs.len() != p.cols.len() {
            return Some(format!("{} column definitions, {} declared", defs.len(), p.cols.len()));
        }
        if rows.len() != t.rows.len() {
            return Some(format!("the client sees {} rows, the calls that reported success wrote {}", rows.len(), t.rows.len()));
        }
        match (end, t.finish_error_ok) {
            (RowsEnd::Err(_), true) | (RowsEnd::Eof(_), false) => {}
            (e, _) => return Some(format!("the resultset ends with {:?}", e)),
        }
        let want_parts = 1 + t.trailing_ok.is_some() as usize;
        if parts.len() != want_parts {
            return Some(format!("the response has {} parts, the program wrote {}", parts.len(), want_parts));
        }
        match dec.resps.get(4) {
            Some(Resp::Simple(Part::Ok(_))) => {}
            other => return Some(format!("the PING behind the command was answered with {:?}", other)),
        }
        None
    })();
    match clause {
        Clause::Shape => {
            if let Some(e) = shape_err {
                rep.violations.push(viol(prop, format!("{} recover malformed-response", prop), format!("every writer call the backend relied on reported success, but: {}", e), d()));
                return;
            }
            let Some(Resp::Parts(parts)) = resp else { return };
            let Some(Part::Rows { cols: defs, rows, .. }) = parts.first() else { return };
            let tf: Vec<(u8, u16)> = defs.iter().map(|c| (c.typ, c.flags)).collect();
            for raw in rows {
                let ok = if p.bin { wire::decode_bin_row(raw, &tf).is_ok() } else { wire::decode_text_row(raw, tf.len()).is_ok() };
                if !ok {
                    rep.violations.push(viol(prop, format!("{} recover malformed-row", prop), format!("a row of {} bytes does not split into one cell per column: {}", raw.len(), show(raw)), d()));
                    return;
                }
                rep.counters.inc("recover_rows_checked");
            }
        }
        Clause::Values => {
            if shape_err.is_some() {
                return; // C03's clause
            }
            let Some(Resp::Parts(parts)) = resp else { return };
            let Some(Part::Rows { cols: defs, rows, .. }) = parts.first() else { return };
            let tf: Vec<(u8, u16)> = defs.iter().map(|c| (c.typ, c.flags)).collect();
            for (ri, (raw, want)) in rows.iter().zip(t.rows.iter()).enumerate() {
                if want.len() != tf.len() {
                    rep.violations.push(viol(prop, format!("{} recover row-width", prop), format!("row {}: the calls that reported success wrote {} cells into a {}-column row and the row was ended successfully", ri, want.len(), tf.len()), d()));
                    return;
                }
                if p.bin {
                    let Ok(vals) = wire::decode_bin_row(raw, &tf) else { return };
                    for (ci, (g, w)) in vals.iter().zip(want.iter()).enumerate() {
                        rep.counters.inc("recover_cells_compared");
                        let s = sem_of(&w.v);
                        if !bin_matches(g, &s, tf[ci].0) {
                            rep.violations.push(viol(prop, format!("{} recover cell-differs", prop), format!("row {} column {}: the client decodes {:?}, the accepted cell was {:?}", ri, ci, g, s), d()));
                            return;
                        }
                    }
                } else {
                    let Ok(vals) = wire::decode_text_row(raw, tf.len()) else { return };
                    for (ci, (g, w)) in vals.iter().zip(want.iter()).enumerate() {
                        rep.counters.inc("recover_cells_compared");
                        let s = sem_of(&w.v);
                        // a generic value the text encoder accepted after all is compared as what it denotes
                        if matches!(w.v, V::Myc(_)) && s != Sem::Null {
                            continue;
                        }
                        if !text_cell_matches(g, &s) {
                            rep.violations.push(viol(prop, format!("{} recover cell-differs", prop), format!("row {} column {}: the client reads {:?}, the accepted cell was {:?}", ri, ci, g.as_ref().map(|b| show(b)), s), d()));
                            return;
                        }
                    }
                }
            }
        }
        Clause::ErrFields => {
            if !t.finish_error_ok {
                return;
            }
            let Some((code, msg)) = &p.err else { return };
            let found = match resp {
                Some(Resp::Parts(parts)) => match parts.last() {
                    Some(Part::Rows { end: RowsEnd::Err(e), .. }) => Some(e.clone()),
                    Some(Part::Err(e)) => Some(e.clone()),
                    _ => None,
                },
                _ => None,
            };
            rep.counters.inc("recover_finish_errors_checked");
            match found {
                Some(e) if e.code == *code && e.msg == *msg => {}
                other => {
                    rep.violations.push(viol(prop, format!("{} recover err-differs", prop), format!("finish_error({}, {:?}) reported success after a refused value; the client got {:?}", code, show(msg), other), d()));
                }
            }
        }
        Clause::SeqIds => {
            if dec.stop.is_some() {
                return;
            }
            rep.counters.inc("recover_replies_id_checked");
            if let Some(v) = seq_violations(&obs, &pkts, &msgs, &dec).into_iter().next() {
                rep.violations.push(viol(prop, format!("{} recover wrong-sequence-id", prop), v, d()));
            }
        }
    }
}

pub fn group(ctx: &Ctx, prop: &'static str, clause: Clause, mode: Option<bool>, quick: u64, thorough: u64) -> Report {
    let n = if ctx.miri { 3 } else { ctx.n(quick, thorough) };
    let mut r = par_cases(ctx, prop, "recover", n, |rng, i, rep| run_one(prop, clause, mode, rng, i, rep));
    if ctx.strict() {
        r.require("recover_programs_completed", 50);
        r.require("recover_refusals_seen", 50);
    }
    r
}
