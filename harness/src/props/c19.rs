//! C19 — connection end and transport faults are reported, never masked.
//! Fault enumeration: every conversation of a corpus is first run fault-free to learn its input
//! length B and its number of transport operations N; then end-of-stream after every k in 0..=B, a
//! one-off error at every operation index, a persistent error from every operation index, and a
//! shim error at every callback are injected, one per run.
use super::c03::rich_case;
use super::common::*;
use crate::core::*;
use crate::shim::*;
use crate::transport::{Fault, OpKind, Sched};
use crate::util::*;
use crate::wire::{self, Kind, PVal, Param, MAXP};
use msql_srv::{Column, ColumnFlags, ColumnType};

fn cols(n: usize, bin: bool) -> Vec<Column> {
    (0..n).map(|i| Column { table: "t".into(), column: format!("c{}", i), coltype: if bin { ColumnType::MYSQL_TYPE_LONG } else { ColumnType::MYSQL_TYPE_VAR_STRING }, colflags: ColumnFlags::empty() }).collect()
}
fn rows_prog(nc: usize, nr: usize, bin: bool, by_col: bool, ending: QOp) -> QProg {
    let mut ops = vec![QOp::Start(0)];
    for r in 0..nr {
        let cells: Vec<Cell> = (0..nc).map(|c| Cell::val(V::I32((r * 10 + c) as i32))).collect();
        if by_col {
            for c in cells {
                ops.push(QOp::Col(c));
            }
            ops.push(QOp::EndRow);
        } else {
            ops.push(QOp::Row(cells, RowForm::Owned));
        }
    }
    ops.push(ending);
    QProg { colsets: vec![cols(nc, bin)], ops, on_err: OnErr::Drop }
}

/// The corpus: (name, case). Every program finishes explicitly (finish / no_more_results / completed
/// / error), i.e. the way the crate documents for backends that want I/O errors reported.
pub fn corpus(seed: u64) -> Vec<(&'static str, Case)> {
    let mut v: Vec<(&'static str, Case)> = Vec::new();
    let prep = |np: usize, nc: usize| Script::PrepOk { id: 1, params: param_cols(np), cols: cols(nc, true) };
    v.push(("handshake only", Case::new(vec![], vec![])));
    v.push(("ping", Case::new(vec![Cmd::ping()], vec![])));
    v.push(("ping ping quit", Case::new(vec![Cmd::ping(), Cmd::ping(), Cmd::quit()], vec![])));
    v.push(("quit in the middle", Case::new(vec![Cmd::ping(), Cmd::quit(), Cmd::query(b"never"), Cmd::ping()], vec![Script::Q(QProg::completed(0, 0))])));
    v.push(("query completed", Case::new(vec![Cmd::query(b"q1")], vec![Script::Q(QProg::completed(3, 4))])));
    v.push(("query error", Case::new(vec![Cmd::query(b"q1"), Cmd::ping()], vec![Script::Q(QProg { colsets: vec![], ops: vec![QOp::Error(1064, b"bad".to_vec())], on_err: OnErr::Drop })])));
    v.push(("text rows write_row finish", Case::new(vec![Cmd::query(b"q"), Cmd::ping()], vec![Script::Q(rows_prog(2, 3, false, false, QOp::Finish))])));
    v.push(("text rows write_col finish", Case::new(vec![Cmd::query(b"q"), Cmd::ping()], vec![Script::Q(rows_prog(3, 2, false, true, QOp::Finish))])));
    v.push(("text rows finish_error", Case::new(vec![Cmd::query(b"q"), Cmd::ping()], vec![Script::Q(rows_prog(2, 2, false, false, QOp::FinishErr(1105, b"late".to_vec())))])));
    v.push(("text no rows", Case::new(vec![Cmd::query(b"q")], vec![Script::Q(rows_prog(1, 0, false, false, QOp::Finish))])));
    v.push(("zero-column set", Case::new(vec![Cmd::query(b"q"), Cmd::ping()], vec![Script::Q(rows_prog(0, 3, false, false, QOp::Finish))])));
    {
        // chained: set, completion, set; explicit no_more_results
        let mut p = rows_prog(2, 2, false, false, QOp::FinishOne);
        p.ops.push(QOp::CompleteOne(7, 8));
        p.ops.push(QOp::Start(0));
        p.ops.push(QOp::Row(vec![Cell::val(V::I32(1)), Cell::val(V::I32(2))], RowForm::Owned));
        p.ops.push(QOp::FinishOne);
        p.ops.push(QOp::NoMore);
        v.push(("chained sets", Case::new(vec![Cmd::query(b"q"), Cmd::ping()], vec![Script::Q(p)])));
    }
    {
        let mut p = rows_prog(1, 1, false, false, QOp::FinishOne);
        p.ops.push(QOp::Error(1064, b"after a set".to_vec()));
        v.push(("set then error", Case::new(vec![Cmd::query(b"q")], vec![Script::Q(p)])));
    }
    v.push(("prepare ok", Case::new(vec![Cmd::prepare(b"select ?"), Cmd::ping()], vec![prep(2, 2)])));
    v.push(("prepare error", Case::new(vec![Cmd::prepare(b"bad")], vec![Script::PrepErr(1064, b"no".to_vec())])));
    v.push((
        "prepare execute rows close",
        Case::new(
            vec![
                Cmd::prepare(b"select ?"),
                Cmd::execute(1, &[Param { typ: wire::T_LONG, unsigned: false, value: Some(PVal::Int(5)), long: false }, Param { typ: wire::T_VAR_STRING, unsigned: false, value: Some(PVal::Bytes(b"abc".to_vec())), long: false }], true),
                Cmd::close(1),
                Cmd::ping(),
            ],
            vec![prep(2, 2), Script::Q(rows_prog(2, 3, true, false, QOp::Finish))],
        ),
    ));
    v.push((
        "binary rows write_col",
        Case::new(vec![Cmd::prepare(b"s"), Cmd::execute(1, &[], false), Cmd::ping()], vec![prep(0, 3), Script::Q(rows_prog(3, 2, true, true, QOp::Finish))]),
    ));
    v.push((
        "long data then execute",
        Case::new(
            vec![
                Cmd::prepare(b"s"),
                Cmd::long_data(1, 0, b"chunk-1-"),
                Cmd::long_data(1, 0, b"chunk-2"),
                Cmd::execute(1, &[Param { typ: wire::T_BLOB, unsigned: false, value: None, long: true }], true),
            ],
            vec![prep(1, 0), Script::Q(QProg::completed(1, 0))],
        ),
    ));
    v.push(("init db ok", Case::new(vec![Cmd::init_db(b"db"), Cmd::ping()], vec![Script::InitOk])));
    v.push(("use err", Case::new(vec![Cmd::query(b"USE db"), Cmd::ping()], vec![Script::InitErr(1049, b"no".to_vec())])));
    v.push(("field list", Case::new(vec![Cmd::field_list(b"t\0"), Cmd::ping()], vec![])));
    v.push(("select @@", Case::new(vec![Cmd::query(b"SELECT @@max_allowed_packet"), Cmd::query(b"select @@x")], vec![])));
    {
        // the row writer is dropped without finish(): the last row and the terminator are written by
        // the destructor; more commands are already pipelined behind it and the client ends with QUIT
        let p = |nr: usize, bin: bool, ending: Option<QOp>| {
            let mut q = rows_prog(2, nr, bin, true, QOp::DropRow);
            q.ops.pop();
            // last row deliberately left without end_row()
            if matches!(q.ops.last(), Some(QOp::EndRow)) {
                q.ops.pop();
            }
            if let Some(e) = ending {
                q.ops.push(e);
            }
            q
        };
        v.push(("unfinished row writer dropped, pipelined, quit", Case::new(vec![Cmd::query(b"q1"), Cmd::query(b"q2"), Cmd::query(b"q3"), Cmd::quit()], vec![Script::Q(p(2, false, None)), Script::Q(p(1, false, Some(QOp::DropRow))), Script::Q(p(3, false, None))])));
        v.push(("unfinished binary row writer dropped, then ping, quit", Case::new(vec![Cmd::prepare(b"s"), Cmd::execute(1, &[], false), Cmd::ping(), Cmd::quit()], vec![prep(0, 2), Script::Q(p(2, true, None))])));
        // finish_error while a complete row is pending (written with write_col, not ended): the row
        // goes out first, then the ERR
        v.push(("finish_error with a pending complete row, ping", Case::new(vec![Cmd::query(b"q1"), Cmd::ping(), Cmd::query(b"q2")], vec![Script::Q(p(2, false, Some(QOp::FinishErr(1105, b"gave up".to_vec())))), Script::Q(p(1, false, Some(QOp::FinishErr(1105, b"again".to_vec()))))])));
        v.push(("binary finish_error with a pending complete row, ping", Case::new(vec![Cmd::prepare(b"s"), Cmd::execute(1, &[], false), Cmd::ping()], vec![prep(0, 2), Script::Q(p(2, true, Some(QOp::FinishErr(1105, b"gave up".to_vec()))))])));
        let mut c = rows_prog(1, 1, false, false, QOp::FinishOne);
        c.ops.push(QOp::CompleteOne(1, 2));
        c.ops.push(QOp::DropResult);
        v.push(("result writer dropped after chained sets, pipelined, quit", Case::new(vec![Cmd::query(b"q1"), Cmd::query(b"q2"), Cmd::quit()], vec![Script::Q(c.clone()), Script::Q(c)])));
    }
    {
        // a 100 KiB row, short transport writes
        let mut big = Vec::new();
        stream_fill(&mut big, seed, 1, 100 * 1024, false);
        let p = QProg { colsets: vec![cols(2, false)], ops: vec![QOp::Start(0), QOp::Col(Cell::val(V::Bytes(big))), QOp::Col(Cell::val(V::I32(1))), QOp::EndRow, QOp::Finish], on_err: OnErr::Drop };
        let mut c = Case::new(vec![Cmd::query(b"big"), Cmd::ping()], vec![Script::Q(p)]);
        c.write_limit = 16 * 1024;
        v.push(("100 KiB row, short writes", c));
    }
    {
        // a resultset of more than a thousand rows (whatever is done "every N rows" happens here)
        let c = Case::new(vec![Cmd::query(b"long"), Cmd::ping()], vec![Script::Q(rows_prog(1, 1100, false, false, QOp::Finish))]);
        v.push(("1100 rows", c));
        // replies whose packet count lies at a multiple of 256 (the sequence id is back where the reply
        // began) and just beside it, left to the destructor, with more commands pipelined behind
        v.push(("251 rows (255 packets), writer dropped, pipelined, quit", Case::new(vec![Cmd::query(b"q1"), Cmd::query(b"q2"), Cmd::quit()], vec![Script::Q(rows_prog(1, 251, false, false, QOp::DropRow)), Script::Q(rows_prog(1, 2, false, false, QOp::Finish))])));
        v.push(("252 rows (256 packets), writer dropped, pipelined, quit", Case::new(vec![Cmd::query(b"q1"), Cmd::query(b"q2"), Cmd::quit()], vec![Script::Q(rows_prog(1, 252, false, false, QOp::DropRow)), Script::Q(rows_prog(1, 2, false, false, QOp::Finish))])));
        v.push(("252 rows (256 packets), finished, ping", Case::new(vec![Cmd::query(b"q1"), Cmd::ping()], vec![Script::Q(rows_prog(1, 252, false, false, QOp::Finish))])));
    }
    {
        // many packets in one response
        let mut c = Case::new(vec![Cmd::query(b"many")], vec![Script::Q(rows_prog(4, 40, false, false, QOp::Finish))]);
        c.write_limit = 7;
        v.push(("40 rows, 7-byte writes", c));
    }
    {
        let mut c = Case::new(vec![Cmd::query(b"q1"), Cmd::query(b"q2"), Cmd::query(b"q3")], vec![Script::Q(QProg::completed(1, 0)), Script::Q(rows_prog(1, 1, false, false, QOp::Finish)), Script::Q(QProg::completed(3, 0))]);
        c.sched = Sched::fixed(3);
        v.push(("three queries, 3-byte reads", c));
    }
    {
        let mut c = Case::new(vec![Cmd::query(b"q1"), Cmd::ping(), Cmd::query(b"q2")], vec![Script::Q(QProg::completed(1, 0)), Script::Q(QProg::completed(2, 0))]);
        c.arrival = Arrival::Pipelined(1);
        v.push(("lock-step client", c));
    }
    {
        let mut c = Case::new(vec![Cmd::ping()], vec![]);
        c.handshake = wire::handshake320(0x0005, 1 << 20, b"old", b"");
        v.push(("3.20 handshake", c));
    }
    {
        let mut c = Case::new(vec![Cmd::ping(), Cmd::query(b"x")], vec![]);
        c.auth_reject = Some(99);
        v.push(("rejected login", c));
    }
    v
}

fn classify_k(kinds: &[Kind], ends: &[(usize, u8)], k: usize) -> (bool, &'static str) {
    // Ok exactly when the stream ends at a command boundary after the handshake, or after QUIT
    let mut quit_end = None;
    for (j, e) in ends.iter().enumerate() {
        if j >= 1 && kinds[j + 1] == Kind::Quit {
            quit_end = Some(e.0);
            break;
        }
    }
    if let Some(q) = quit_end {
        if k >= q {
            return (true, "after QUIT");
        }
    }
    if ends.iter().any(|e| e.0 == k) {
        return (true, "on a command boundary");
    }
    if k < ends[0].0 {
        (false, "before the handshake completes")
    } else {
        (false, "inside a packet")
    }
}

fn check_fault_run(name: &str, obs: &Obs, what: &str, rep: &mut Report, d: &dyn Fn() -> J) {
    // a transport error was injected: run_on must return Err; never Ok, never a panic; no callback
    // may start after the fault event
    if harness_panic(obs, rep) {
        return;
    }
    let Some(fev) = obs.world.fault_ev else {
        rep.counters.inc("fault_not_reached");
        return;
    };
    let opk = match obs.world.fault_op {
        Some(OpKind::Read) => "read",
        Some(OpKind::Write) => "write",
        Some(OpKind::Flush) => "flush",
        None => "?",
    };
    rep.counters.inc(&format!("faults_injected_on_{}", opk));
    match &obs.outcome {
        Outcome::Io { .. } | Outcome::Token(_) => rep.counters.inc("outcome_err"),
        Outcome::Ok => {
            rep.counters.inc("outcome_ok");
            rep.violations.push(viol("C19", format!("C19 fault-masked {} on {}", what, opk), format!("[{}] a transport error on {} was injected ({}), yet run_on returned Ok(())", name, opk, what), d()));
            return;
        }
        Outcome::Panic { file, line, msg } => {
            rep.counters.inc("outcome_panic");
            rep.violations.push(viol("C19", format!("C19 {} under {} {} fault", panic_signature(file, *line, msg), what, opk), format!("[{}] a transport error on {} ({}) made run_on panic: {}", name, opk, what, obs.outcome.describe()), d()));
            return;
        }
    }
    if obs.log.cbs.iter().any(|c| c.ev_start > fev) {
        let c = obs.log.cbs.iter().find(|c| c.ev_start > fev).unwrap();
        rep.violations.push(viol("C19", format!("C19 callback-after-fault {}", c.kind.name()), format!("[{}] {} was started after the transport reported an error on {}", name, cb_summary(c), opk), d()));
        return;
    }
    rep.counters.inc("callbacks_after_fault_checks");
}

pub fn run(ctx: &Ctx) -> Report {
    let mut rep = Report::default();
    rep.rule = "cases = (conversation of the corpus, fault kind, index): end-of-stream after every input byte count k in 0..=B, one-off transport error at every operation index, persistent error from every operation index, shim error at every callback; exhaustive over k for the corpus; a class is a (conversation, fault kind, faulted operation kind, outcome) tuple; non-trivial = a fault was actually injected (or the cut actually shortened the stream) and run_on's result, panics and later callbacks were judged".into();
    let corp = corpus(ctx.seed);
    let corp = if ctx.miri { corp.into_iter().take(6).collect::<Vec<_>>() } else { corp };
    rep.notes.push(format!("corpus of {} conversations; fault indexes enumerated exhaustively for each", corp.len()));
    // learn B and N
    let mut plans: Vec<(usize, usize, u64, usize)> = Vec::new(); // (corpus idx, B, N, callbacks)
    for (ci, (name, case)) in corp.iter().enumerate() {
        let obs = run_case(case);
        let expect_ok = case.auth_reject.is_none();
        if (obs.outcome == Outcome::Ok) != expect_ok {
            rep.violations.push(viol("C19", format!("C19 fault-free-run {}", name), format!("[{}] fault-free run returned {}", name, obs.outcome.describe()), J::obj().set("conversation", *name)));
        }
        plans.push((ci, obs.world.input.len(), obs.world.nops, obs.log.cbs.len()));
    }
    // flatten into work items
    #[derive(Clone, Copy)]
    enum W {
        Eof(usize, usize),
        Once(usize, u64),
        Persist(usize, u64),
        ShimErr(usize, usize),
        /// a transport that would fail from the first operation AFTER the last one the fault-free run
        /// performs (the peer is gone by then), through either entry point: an error that never has
        /// occasion to happen changes nothing
        Beyond(usize, u64, bool),
    }
    let mut items = Vec::new();
    for &(ci, b, n, ncb) in &plans {
        let stride = if ctx.miri { 7 } else { 1 };
        for k in (0..=b).step_by(stride) {
            items.push(W::Eof(ci, k));
        }
        for k in (0..n).step_by(stride) {
            items.push(W::Once(ci, k));
            items.push(W::Persist(ci, k));
        }
        for c in 0..ncb {
            items.push(W::ShimErr(ci, c));
        }
        items.push(W::Beyond(ci, n, false));
        items.push(W::Beyond(ci, n, true));
    }
    let per = 64usize;
    let ncases = (items.len() + per - 1) / per;
    let corp_ref = &corp;
    let items_ref = &items;
    let r = par_cases(ctx, "C19", "enum", ncases as u64, |_rng, i, rep| {
        for (w_i, w) in items_ref.iter().enumerate().skip(i as usize * per).take(per) {
            match *w {
                W::Eof(ci, k) => {
                    let (name, base) = &corp_ref[ci];
                    let mut case = base.clone();
                    case.fault = Fault { eof_after: Some(k), ..Default::default() };
                    let obs = run_case(&case);
                    rep.evaluations += 1;
                    if harness_panic(&obs, rep) {
                        continue;
                    }
                    let (mut want_ok, where_) = classify_k(&obs.kinds, &obs.ends, k);
                    if case.auth_reject.is_some() && k >= obs.ends[0].0 {
                        want_ok = false; // the shim's rejection is the result
                    }
                    rep.counters.inc("eof_cuts");
                    rep.counters.class(format!("{}: eof {}", name, where_));
                    let d = || J::obj().set("conversation", *name).set("fault", format!("end of stream after {} of {} input bytes ({})", k, obs.world.input.len(), where_)).set("outcome", obs.outcome.describe());
                    if w_i == 3 {
                        rep.sample(d());
                    }
                    match &obs.outcome {
                        Outcome::Panic { file, line, msg } => rep.violations.push(viol("C19", format!("C19 {} under eof", panic_signature(file, *line, msg)), format!("[{}] stream cut after {} bytes made run_on panic: {}", name, k, obs.outcome.describe()), d())),
                        Outcome::Ok if !want_ok => rep.violations.push(viol("C19", format!("C19 eof-masked {}", where_), format!("[{}] the stream ended after {} bytes, {}, yet run_on returned Ok(())", name, k, where_), d())),
                        Outcome::Io { .. } | Outcome::Token(_) if want_ok => rep.violations.push(viol("C19", format!("C19 clean-close-reported-as-error {}", where_), format!("[{}] the client closed {} (after {} bytes) but run_on returned {}", name, where_, k, obs.outcome.describe()), d())),
                        _ => {
                            rep.counters.inc(if want_ok { "eof_ok_expected_and_seen" } else { "eof_err_expected_and_seen" });
                        }
                    }
                    // only commands completely contained in the prefix may have reached the shim
                    let complete = obs.ends.iter().skip(1).enumerate().filter(|(_, e)| e.0 <= k).count();
                    let cbs = obs.log.cbs.iter().filter(|c| !matches!(c.kind, CbKind::Auth { .. })).count();
                    if cbs > complete {
                        rep.violations.push(viol("C19", "C19 callback-for-incomplete-command".into(), format!("[{}] {} command callbacks although only {} commands were completely received before the stream ended", name, cbs, complete), d()));
                    }
                }
                W::Once(ci, k) | W::Persist(ci, k) => {
                    let persistent = matches!(w, W::Persist(..));
                    let (name, base) = &corp_ref[ci];
                    let mut case = base.clone();
                    case.fault = Fault { eof_after: None, err_at: Some(k), persistent, err_kind: [0u8, 1, 2, 101, 102][(k % 5) as usize] };
                    let obs = run_case(&case);
                    rep.evaluations += 1;
                    let what = if persistent { "persistent" } else { "one-off" };
                    let d = || J::obj().set("conversation", *name).set("fault", format!("{} io::Error at transport operation #{} ({:?})", what, k, obs.world.fault_op)).set("outcome", obs.outcome.describe());
                    if w_i % 1000 == 7 {
                        rep.sample(d());
                    }
                    rep.counters.class(format!("{}: {} fault on {:?} -> {}", name, what, obs.world.fault_op, obs.outcome.class()));
                    check_fault_run(name, &obs, what, rep, &d);
                }
                W::Beyond(ci, n, stream) => {
                    let (name, base) = &corp_ref[ci];
                    let mut clean = base.clone();
                    clean.via_run_on_stream = stream;
                    let obs0 = run_case(&clean);
                    let mut case = clean.clone();
                    // from the operation behind the flush that delivered the last byte, if the server did
                    // not read after it (it ended the connection by its own decision); else from the
                    // operation behind the last one
                    let total = obs0.world.visible.len();
                    let delivered = obs0.world.flush_log.iter().find(|f| f.1 >= total && obs0.world.pending.is_empty()).map(|f| f.0);
                    let from = match delivered {
                        Some(k) if obs0.world.last_read_idx.map_or(true, |r| r < k) => k + 1,
                        _ => obs0.world.nops.max(n),
                    };
                    case.fault = Fault { eof_after: None, err_at: Some(from), persistent: true, err_kind: (ci % 3) as u8 };
                    let obs = run_case(&case);
                    rep.evaluations += 1;
                    if harness_panic(&obs, rep) || harness_panic(&obs0, rep) {
                        continue;
                    }
                    let entry = if stream { "run_on_stream" } else { "run_on" };
                    rep.counters.class(format!("{}: transport dead after the last operation, {}", name, entry));
                    let d = || J::obj().set("conversation", *name).set("entry_point", entry).set("fault", format!("every transport operation from #{} on fails; the undisturbed run performs {}", from, obs0.world.nops)).set("undisturbed_outcome", obs0.outcome.describe()).set("outcome", obs.outcome.describe()).set("faulted_operation", format!("{:?}", obs.world.fault_op));
                    if obs.outcome != obs0.outcome {
                        let sig = if let Outcome::Panic { file, line, msg } = &obs.outcome { format!("C19 {} beyond the end", panic_signature(file, *line, msg)) } else { "C19 late-fault-changes-the-result".into() };
                        rep.violations.push(viol("C19", sig, format!("[{}, {}] with a transport that fails only after the conversation's last operation, the result is {} instead of {} (the extra operation was a {:?})", name, entry, obs.outcome.describe(), obs0.outcome.describe(), obs.world.fault_op), d()));
                        continue;
                    }
                    if obs.output() != obs0.output() || obs.log.cbs.len() != obs0.log.cbs.len() {
                        rep.violations.push(viol("C19", "C19 late-fault-changes-the-conversation".into(), format!("[{}, {}] a transport that fails only after the last operation changed what was sent or which callbacks ran", name, entry), d()));
                        continue;
                    }
                    rep.counters.inc("faults_beyond_the_end_checked");
                }
                W::ShimErr(ci, c) => {
                    let (name, base) = &corp_ref[ci];
                    // callback #c (0 = after_authentication) returns its own error
                    let mut case = base.clone();
                    let token = 50_000 + c as u64;
                    if c == 0 {
                        if case.auth_reject.is_some() {
                            continue;
                        }
                        case.auth_reject = Some(token);
                    } else {
                        // find which script feeds callback #c: count scripted callbacks before it
                        let obs0 = run_case(base);
                        let Some(cb) = obs0.log.cbs.get(c) else { continue };
                        match cb.script {
                            Some(si) => case.scripts[si] = Script::Fail(token),
                            None => continue, // on_close cannot fail; unscripted
                        }
                    }
                    let obs = run_case(&case);
                    rep.evaluations += 1;
                    if harness_panic(&obs, rep) {
                        continue;
                    }
                    rep.counters.inc("shim_errors_injected");
                    rep.counters.class(format!("{}: shim error at callback {}", name, c));
                    let d = || J::obj().set("conversation", *name).set("fault", format!("callback #{} returns the shim's own error", c)).set("outcome", obs.outcome.describe());
                    if obs.outcome != Outcome::Token(token) {
                        let sig = if let Outcome::Panic { file, line, msg } = &obs.outcome { format!("C19 shim-error {}", panic_signature(file, *line, msg)) } else { "C19 shim-error-not-returned".into() };
                        rep.violations.push(viol("C19", sig, format!("[{}] callback #{} returned the shim's error, run_on returned {}", name, c, obs.outcome.describe()), d()));
                        continue;
                    }
                    if obs.log.cbs.len() > c + 1 {
                        rep.violations.push(viol("C19", "C19 callback-after-shim-error".into(), format!("[{}] {} was invoked after callback #{} had failed", name, cb_summary(&obs.log.cbs[c + 1]), c), d()));
                    }
                }
            }
        }
    });
    rep.merge(r);
    rep.exhaustive = !ctx.miri;

    // ---- thorough: random conversations with random faults; a cut between fragments of a 16 MiB command
    if !ctx.miri {
        let n = if ctx.thorough { ctx.n(0, 200_000) } else { 300 };
        let r = par_cases(ctx, "C19", "random", n, |rng, i, rep| {
            let (mut case, _) = rich_case(rng, 8, false);
            let obs0 = run_case(&case);
            let n = obs0.world.nops.max(1);
            let persistent = rng.bool();
            case.fault = Fault { eof_after: None, err_at: Some(rng.below(n)), persistent, err_kind: [0u8, 1, 2, 101, 102][rng.usize(5)] };
            if rng.chance(1, 4) {
                case.write_limit = *rng.pick(&[1usize, 9, 100]);
            }
            let obs = run_case(&case);
            rep.evaluations += 1;
            let what = if persistent { "persistent" } else { "one-off" };
            let d = || J::obj().set("conversation", kinds_summary(&case.cmds)).set("fault", format!("{} io::Error at transport operation #{:?}", what, case.fault.err_at)).set("outcome", obs.outcome.describe());
            if i == 0 {
                rep.sample(d());
            }
            check_fault_run("random", &obs, what, rep, &d);
        });
        rep.merge(r);
        // quick: the stream ends exactly between two fragments; thorough: around and inside the second one
        let ks: Vec<i64> = if ctx.thorough { vec![-1, 0, 1, 4, 5, 100] } else { vec![0, 4] };
        let r = par_cases(ctx, "C19", "fragment-cut", ks.len() as u64, |_rng, i, rep| {
            let mut text = Vec::new();
            // the second fragment carries 501 payload bytes, so every offset below lies inside the command
            stream_fill(&mut text, ctx.seed, 9, MAXP + 500, true);
            let mut case = Case::new(vec![Cmd::query(&text)], vec![Script::Q(QProg::completed(1, 1))]);
            let (input, ends) = case.input();
            // offset of the second fragment's header
            let frag2 = ends[0].0 + 4 + MAXP;
            let k = (frag2 as i64 + ks[i as usize]) as usize;
            case.fault = Fault { eof_after: Some(k), ..Default::default() };
            case.sched = Sched { cuts: vec![], cycle: vec![1 << 20] };
            case.log_reads = false;
            let obs = run_case(&case);
            rep.evaluations += 1;
            rep.counters.inc("eof_cuts");
            rep.counters.class("16 MiB command: eof between / inside fragments".into());
            let d = || J::obj().set("fault", format!("end of stream {} bytes relative to the second fragment's header of a {}-byte command (input {} bytes)", ks[i as usize], MAXP + 501, input.len())).set("outcome", obs.outcome.describe());
            if !obs.outcome.is_err() {
                rep.violations.push(viol("C19", "C19 eof-masked between fragments".into(), format!("stream cut between the fragments of a multi-packet command, run_on returned {}", obs.outcome.describe()), d()));
            } else if !obs.log.cbs.iter().all(|c| matches!(c.kind, CbKind::Auth { .. })) {
                rep.violations.push(viol("C19", "C19 callback-for-incomplete-command".into(), "a callback ran for a command whose fragments were never completely received".into(), d()));
            } else {
                rep.counters.inc("eof_err_expected_and_seen");
            }
        });
        rep.merge(r);
    }
    // ---- the shim returns its own error in the MIDDLE of a response (after a header, after rows, inside
    //      a row, between chained sets), as `?` does: the writers it still holds are dropped, which may
    //      write. run_on must return exactly that error, and nothing pipelined behind is served.
    {
        let n = if ctx.miri { 3 } else { ctx.n(1500, 40_000) };
        let r = par_cases(ctx, "C19", "shim-error-mid-response", n, |rng, i, rep| {
            let bin = rng.bool();
            let nc = rng.range(1, 4) as usize;
            let columns = cols(nc, bin);
            let token = 9000 + rng.below(1000);
            let mut ops = Vec::new();
            let pre = rng.below(3);
            for k in 0..pre {
                if rng.bool() {
                    ops.push(QOp::CompleteOne(k, k + 1));
                } else {
                    ops.push(QOp::Start(0));
                    ops.push(QOp::Row((0..nc).map(|c| Cell::val(V::I32(c as i32))).collect(), RowForm::Owned));
                    ops.push(QOp::FinishOne);
                }
            }
            let place = rng.below(5);
            let pname = match place {
                0 => "before anything was written",
                1 => {
                    ops.push(QOp::Start(0));
                    "after the resultset header"
                }
                2 => {
                    ops.push(QOp::Start(0));
                    for r in 0..rng.range(1, 5) {
                        ops.push(QOp::Row((0..nc).map(|c| Cell::val(V::I32((r * 10) as i32 + c as i32))).collect(), RowForm::Borrowed));
                    }
                    "after complete rows"
                }
                3 => {
                    ops.push(QOp::Start(0));
                    ops.push(QOp::Row((0..nc).map(|c| Cell::val(V::I32(c as i32))).collect(), RowForm::Owned));
                    for c in 0..rng.range(1, nc as u64) as usize {
                        ops.push(QOp::Col(Cell::val(V::I32(100 + c as i32))));
                    }
                    "inside a row"
                }
                _ => {
                    ops.push(QOp::Start(0));
                    ops.push(QOp::FinishOne);
                    "between chained sets"
                }
            };
            ops.push(QOp::Bail(token));
            let prog = QProg { colsets: vec![columns.clone()], ops, on_err: OnErr::Drop };
            let mut cmds = vec![Cmd::prepare(b"p"), Cmd::ping()];
            let mut scripts = vec![Script::PrepOk { id: 1, params: vec![], cols: columns.clone() }];
            cmds.push(if bin { Cmd::execute(1, &[], false) } else { Cmd::query(b"q") });
            scripts.push(Script::Q(prog));
            // pipelined behind it
            cmds.push(Cmd::query(b"never"));
            scripts.push(Script::Q(QProg::completed(0, 0)));
            cmds.push(Cmd::ping());
            let mut case = Case::new(cmds, scripts);
            vary_transport(rng, &mut case);
            let obs = run_case(&case);
            rep.evaluations += 1;
            if harness_panic(&obs, rep) {
                return;
            }
            rep.counters.inc("shim_errors_injected");
            rep.counters.class(format!("shim error {} ({} sets before, {})", pname, pre, if bin { "binary" } else { "text" }));
            let d = || J::obj().set("fault", format!("the callback returns the shim's error {}", pname)).set("mode", if bin { "binary" } else { "text" }).set("completed_sets_before", pre).set("outcome", obs.outcome.describe());
            if i < 1 {
                rep.sample(d());
            }
            if obs.outcome != Outcome::Token(token) {
                let sig = if let Outcome::Panic { file, line, msg } = &obs.outcome { format!("C19 shim-error-mid-response {}", panic_signature(file, *line, msg)) } else { format!("C19 shim-error-not-returned {}", pname) };
                rep.violations.push(viol("C19", sig, format!("the callback returned the shim's error {} ({}), run_on returned {}", token, pname, obs.outcome.describe()), d()));
                return;
            }
            let served = obs.log.cbs.iter().filter(|c| matches!(c.kind, CbKind::Query(_) | CbKind::Execute { .. })).count();
            if served != 1 {
                rep.violations.push(viol("C19", "C19 callback-after-shim-error".into(), format!("{} query/execute callbacks although the first one failed", served), d()));
                return;
            }
            rep.counters.inc("shim_errors_mid_response_returned_unchanged");
        });
        rep.merge(r);
    }

    // ---- a TLS connection whose byte stream ends (no close_notify): inside the SSLRequest, inside a
    //      record of the TLS handshake, inside a record that carries the handshake response or a
    //      command. A stream that ends inside a TLS record ended inside a packet (or before the
    //      handshake completed): run_on must return an error, and no command carried by the cut
    //      record or a later one may reach the shim. Cuts on a record boundary are not judged.
    if !ctx.miri {
        if let Ok(tm) = crate::tls::TlsMaterial::generate() {
            let n = ctx.n(400, 3000);
            let r = par_cases(ctx, "C19", "tls-cut", n, |rng, i, rep| {
                let ncmd = rng.range(1, 5) as usize;
                let mut cmds = Vec::new();
                let mut scripts = Vec::new();
                for k in 0..ncmd {
                    let mut t = format!("q{} ", k).into_bytes();
                    let extra = if rng.chance(1, 6) { rng.range(1000, 15_000) as usize } else { rng.below(40) as usize };
                    stream_fill(&mut t, ctx.seed ^ i, k as u64, extra, true);
                    cmds.push(Cmd::query(&t));
                    scripts.push(Script::Q(QProg::completed(k as u64, 0)));
                }
                let per_cmd = i % 4 != 3;
                let mut c = super::c18::TlsCase { tls13: rng.bool(), with_cert: rng.chance(1, 4), server_mode: 0, user: b"cutuser".to_vec(), cmds, scripts, first_cut: 0, cycle: if rng.bool() { vec![] } else { vec![rng.range(1, 700) as usize] }, write_limit: usize::MAX, close_notify: false, raw_limit: None, hs_variant: 0, app_override: None, seqs: (1, 2), auth_reject: None, record_per_command: per_cmd, write_fault: None, buffer_writes: rng.bool(), eager_close: false };
                let dry = match super::c18::run_tls(&tm, &c) {
                    Ok(o) => o,
                    Err(e) => {
                        rep.inconclusive.push(format!("TLS harness error: {}", e));
                        return;
                    }
                };
                let total = dry.world.client_raw.len();
                let from = dry.world.tls_from;
                let dry_recs = crate::tls::tls_records(&dry.world.client_raw[from.min(total)..]).unwrap_or_default();
                if total < from + 10 || dry.log.cbs.len() != ncmd + 1 || dry_recs.len() < 2 + if per_cmd { ncmd } else { 0 } {
                    rep.inconclusive.push(format!("TLS dry run did not complete ({} raw bytes, {} records, {} callbacks, {})", total, dry_recs.len(), dry.log.cbs.len(), dry.outcome.describe()));
                    return;
                }
                // records are counted, not measured: signature sizes make lengths vary from run to run
                // (with one write for everything, the plaintext must fit one record for the count to be known)
                let plain_len: usize = 4 + 32 + c.user.len() + 2 + c.cmds.iter().map(|m| 4 + m.payload.len()).sum::<usize>();
                let layout_known = per_cmd || plain_len < 16_000;
                let hs_records = dry_recs.len() - if per_cmd { ncmd } else { 0 } - 1; // those before the handshake response
                let tail: usize = dry_recs[hs_records..].iter().map(|r| 5 + r.2).sum();
                let l = match i % 3 {
                    0 => rng.range(1, from as u64 - 1) as usize,
                    1 => rng.range(from as u64 + 1, total as u64 - 1) as usize,
                    // somewhere in the records that carry the handshake response and the commands
                    _ => total - 1 - rng.below(tail as u64 - 1) as usize,
                };
                c.raw_limit = Some(l);
                let o = match super::c18::run_tls(&tm, &c) {
                    Ok(o) => o,
                    Err(e) => {
                        rep.inconclusive.push(format!("TLS harness error: {}", e));
                        return;
                    }
                };
                rep.evaluations += 1;
                let raw = &o.world.client_raw;
                if raw.len() < l {
                    // this run's stream came out shorter than the cut point: nothing was cut
                    rep.counters.inc("tls_cut_not_reached");
                    return;
                }
                // where did the cut fall in THIS run's stream
                let mut complete = 0usize;
                let mut at = o.world.tls_from.min(raw.len());
                let mut partial: Option<(u8, usize, usize)> = None; // (type, declared, present)
                if raw.len() > o.world.tls_from {
                    loop {
                        if at == raw.len() {
                            break;
                        }
                        if at + 5 > raw.len() {
                            partial = Some((raw[at], 0, raw.len() - at));
                            break;
                        }
                        let len = (raw[at + 3] as usize) << 8 | raw[at + 4] as usize;
                        if at + 5 + len > raw.len() {
                            partial = Some((raw[at], len, raw.len() - at));
                            break;
                        }
                        complete += 1;
                        at += 5 + len;
                    }
                }
                let in_sslreq = l < from;
                let place = if in_sslreq { "inside the SSLRequest packet".to_string() } else if partial.is_none() { "at a TLS record boundary".to_string() } else if !layout_known { "inside a record (several records for one client write)".to_string() } else if complete < hs_records { "inside a record of the TLS handshake".to_string() } else if complete == hs_records { "inside the record of the handshake response".to_string() } else { "inside the record of a command".to_string() };
                rep.counters.class(format!("tls stream cut {} ({}) -> {}", place, if per_cmd { "a record per command" } else { "one write" }, o.outcome.class()));
                rep.counters.inc("eof_cuts");
                rep.counters.inc("tls_stream_cuts");
                let d = || J::obj().set("transport", "TLS").set("fault", format!("client stream of about {} bytes ends after {}: {} ({} complete records before it, {} of them TLS-handshake records; cut record: {:?})", total, l, place, complete, hs_records, partial)).set("commands", ncmd).set("a_record_per_command", per_cmd).set("outcome", o.outcome.describe());
                if i < 1 {
                    rep.sample(d());
                }
                if let Outcome::Panic { file, line, msg } = &o.outcome {
                    if is_harness_file(file) {
                        rep.inconclusive.push(format!("harness panic at {}:{}", file, line));
                        return;
                    }
                    rep.violations.push(viol("C19", format!("C19 {} under tls stream cut", panic_signature(file, *line, msg)), format!("a TLS stream cut {} made run_on panic: {}", place, o.outcome.describe()), d()));
                    return;
                }
                if !in_sslreq && partial.is_none() {
                    rep.counters.inc("tls_cuts_on_a_boundary_not_judged");
                    return;
                }
                if !o.outcome.is_err() {
                    rep.violations.push(viol("C19", format!("C19 tls-eof-masked {}", place), format!("the TLS client's stream ended {} (after {} bytes, no close_notify), run_on returned {}", place, l, o.outcome.describe()), d()));
                    return;
                }
                // commands carried by the cut record or later ones never arrived
                let served = o.log.cbs.iter().filter(|c| !matches!(c.kind, CbKind::Auth { .. })).count();
                let auths = o.log.cbs.len() - served;
                let delivered_cmds = if per_cmd { complete.saturating_sub(hs_records + 1) } else { 0 };
                if layout_known {
                    if served > delivered_cmds || (complete <= hs_records && auths > 0) {
                        rep.violations.push(viol("C19", "C19 tls-callback-for-undelivered-bytes".into(), format!("{} command callbacks and {} after_authentication calls, but only {} command records (and {} handshake response) arrived complete", served, auths, delivered_cmds, if complete > hs_records { "the" } else { "no" }), d()));
                        return;
                    }
                    rep.counters.inc("tls_cuts_callback_bound_checked");
                }
                rep.counters.inc("eof_err_expected_and_seen");
                rep.counters.inc("tls_cuts_err_expected_and_seen");
            });
            rep.merge(r);
            // the TLS handshake completes, and the client goes away before (or in the middle of) its
            // handshake response, politely (close_notify) or not: the connection ended before the
            // MySQL handshake completed, so run_on returns an error and no callback runs
            let variants = 24u64;
            let r = par_cases(ctx, "C19", "tls-close-before-response", variants, |rng, i, rep| {
                let caps = 0x003f_a685 | wire::CLIENT_SSL;
                let full = wire::raw_packet(&wire::handshake41(caps, 1 << 24, 0x21, b"early-leaver", b"\0"), 2);
                let app: Vec<u8> = match i % 4 {
                    0 => vec![],
                    1 => full[..3].to_vec(),
                    2 => full[..4 + rng.below(20) as usize].to_vec(),
                    _ => full[..full.len() - 1].to_vec(),
                };
                let close_notify = i % 8 < 4;
                let c = super::c18::TlsCase { tls13: i % 3 != 0, with_cert: false, server_mode: 0, user: b"early-leaver".to_vec(), cmds: vec![], scripts: vec![], first_cut: 0, cycle: if rng.bool() { vec![] } else { vec![rng.range(1, 100) as usize] }, write_limit: usize::MAX, close_notify, raw_limit: None, hs_variant: 0, app_override: Some(app.clone()), seqs: (1, 2), auth_reject: None, record_per_command: false, write_fault: None, buffer_writes: rng.bool(), eager_close: false };
                let o = match super::c18::run_tls(&tm, &c) {
                    Ok(o) => o,
                    Err(e) => {
                        rep.inconclusive.push(format!("TLS harness error: {}", e));
                        return;
                    }
                };
                rep.evaluations += 1;
                rep.counters.inc("eof_cuts");
                rep.counters.class(format!("tls: client leaves after {} of {} bytes of its handshake response, {} -> {}", app.len(), full.len(), if close_notify { "close_notify" } else { "no close_notify" }, o.outcome.class()));
                let d = || J::obj().set("transport", "TLS").set("fault", format!("after the TLS handshake the client sends {} of the {} bytes of its handshake response and closes ({})", app.len(), full.len(), if close_notify { "with close_notify" } else { "without close_notify" })).set("outcome", o.outcome.describe());
                if let Outcome::Panic { file, line, msg } = &o.outcome {
                    if !is_harness_file(file) {
                        rep.violations.push(viol("C19", format!("C19 {} under tls early close", panic_signature(file, *line, msg)), format!("run_on panicked: {}", o.outcome.describe()), d()));
                    }
                    return;
                }
                if !o.outcome.is_err() {
                    rep.violations.push(viol("C19", "C19 tls-eof-masked before the handshake response".into(), format!("the client left before completing its handshake response, run_on returned {}", o.outcome.describe()), d()));
                    return;
                }
                if let Some(cb) = o.log.cbs.first() {
                    rep.violations.push(viol("C19", "C19 tls-callback-for-undelivered-bytes".into(), format!("{} ran although the handshake response never arrived completely", cb_summary(cb)), d()));
                    return;
                }
                rep.counters.inc("eof_err_expected_and_seen");
                rep.counters.inc("tls_early_close_err_expected_and_seen");
            });
            rep.merge(r);
            if ctx.strict() {
                rep.require("tls_early_close_err_expected_and_seen", 10);
                rep.require("tls_cuts_err_expected_and_seen", 50);
                rep.require("tls_cuts_callback_bound_checked", 50);
            }
        } else if cfg!(feature = "tls") {
            rep.inconclusive.push("cannot generate TLS material".into());
        }
    }
    rep.merge(super::mega::run(ctx, "C19", 1500, 60000));
    if ctx.strict() {
        rep.require("eof_cuts", 1000);
        rep.require("eof_ok_expected_and_seen", 30);
        rep.require("eof_err_expected_and_seen", 1000);
        rep.require("faults_injected_on_read", 100);
        rep.require("faults_injected_on_write", 100);
        rep.require("faults_injected_on_flush", 50);
        rep.require("shim_errors_injected", 20);
        rep.require("callbacks_after_fault_checks", 100);
    }
    rep
}
