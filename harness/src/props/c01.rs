//! C01 — inbound packets are reassembled exactly under every transport chunking.
//! History monitor with unique (position-dependent) payload contents: the ordered list of callbacks
//! (and long-data values) must equal the ordered list of commands the client framed.
use super::common::*;
use crate::core::*;
use crate::shim::*;
use crate::transport::Sched;
use crate::util::*;
use crate::wire::{self, Kind, Param, MAXP};
use msql_srv::ColumnType;

#[derive(Clone, Debug)]
enum Sent {
    Query(Vec<u8>),
    Prepare(Vec<u8>),
    Init(Vec<u8>),
    /// long data chunks for statement 1 / parameter 0, observed at the next execute
    Exec(Vec<u8>),
}

fn pick_len(rng: &mut Rng) -> usize {
    match rng.below(10) {
        0 => 1,
        1 => rng.range(2, 10) as usize,
        2 => (4096 - 20 + rng.below(41) as i64) as usize,
        3 => (8192 - 20 + rng.below(41) as i64) as usize,
        4 => (65536 - 20 + rng.below(41) as i64) as usize,
        5 => rng.range(11, 300) as usize,
        6 => rng.range(300, 70_000) as usize,
        _ => rng.range(1, 2000) as usize,
    }
}

/// Build a conversation of n commands with text/data lengths `lens` (payload = header + that).
/// Text of a query/prepare/init command with a payload of `len` bytes: position-dependent unique
/// printable bytes; a payload of exactly one byte is the command byte alone (empty text), and now
/// and then the text is blank (whitespace only), which a server must not treat differently.
fn text_for(seed: u64, i: u64, len: usize, sel: &mut Rng) -> Vec<u8> {
    let mut body = Vec::new();
    let tl = len.saturating_sub(1);
    if tl <= 8 && sel.chance(1, 3) {
        body = (0..tl).map(|k| [b' ', b'\t', b'\n', b'\r', 0x0c][(seed as usize + i as usize + k) % 5]).collect();
    } else if tl >= 24 && sel.chance(1, 5) {
        // texts shaped like what connectors and ORMs really send: a leading comment or hint, leading
        // blanks, a trailing separator, trailing blanks or a trailing comment - all of it is part
        // of the text and has to arrive
        let pre: &[u8] = *sel.pick(&[&b"/**/"[..], b"/* c */ ", b"/*+ H(1) */ ", b"/*!40101 x */", b"-- x\n", b"# x\n", b"  ", b"\n\t", b"(", b"/* a *//* b */ "]);
        let suf: &[u8] = *sel.pick(&[&b""[..], b";", b"; ", b" ;", b"\n", b";;", b" -- t", b"/* t */", b"\0", b" \t\r\n"]);
        body.extend_from_slice(pre);
        stream_fill(&mut body, seed, i, tl - pre.len() - suf.len(), true);
        body.extend_from_slice(suf);
    } else {
        stream_fill(&mut body, seed, i, tl, true);
    }
    body
}

fn build(seed: u64, lens: &[usize], kinds_sel: &mut Rng) -> (Vec<Cmd>, Vec<Script>, Vec<Sent>) {
    let mut cmds = Vec::new();
    let mut scripts = Vec::new();
    let mut sent = Vec::new();
    // statement 1 with one parameter, so long data can be observed
    let pcol = simple_col("p", ColumnType::MYSQL_TYPE_BLOB);
    let mut prepared = false;
    for (i, &len) in lens.iter().enumerate() {
        let k = kinds_sel.below(5);
        let mut body = Vec::new();
        match k {
            0 | 1 => {
                // the COM_QUERY payload is 1 + len bytes; len counts payload bytes, so text = len-1
                body = text_for(seed, i as u64, len, kinds_sel);
                cmds.push(Cmd::query(&body));
                scripts.push(Script::Q(QProg::completed(i as u64, 0)));
                sent.push(Sent::Query(body));
            }
            2 => {
                body = text_for(seed, i as u64, len, kinds_sel);
                cmds.push(Cmd::prepare(&body));
                scripts.push(Script::PrepOk { id: 1, params: vec![pcol.clone()], cols: vec![] });
                prepared = true;
                sent.push(Sent::Prepare(body));
            }
            3 => {
                body = text_for(seed, i as u64, len, kinds_sel);
                cmds.push(Cmd::init_db(&body));
                scripts.push(Script::InitOk);
                sent.push(Sent::Init(body));
            }
            _ => {
                if !prepared {
                    cmds.push(Cmd::prepare(b"prep"));
                    scripts.push(Script::PrepOk { id: 1, params: vec![pcol.clone()], cols: vec![] });
                    sent.push(Sent::Prepare(b"prep".to_vec()));
                    prepared = true;
                }
                // long-data payload = 7 header bytes + data
                let dl = len.saturating_sub(7);
                stream_fill(&mut body, seed, i as u64, dl, false);
                cmds.push(Cmd::long_data(1, 0, &body));
                cmds.push(Cmd::execute(1, &[Param { typ: wire::T_BLOB, unsigned: false, value: None, long: true }], true));
                scripts.push(Script::Q(QProg::completed(0, 0)));
                sent.push(Sent::Exec(body));
            }
        }
    }
    (cmds, scripts, sent)
}

fn check(obs: &Obs, sent: &[Sent], rep: &mut Report, desc: &dyn Fn() -> J) {
    check_with(obs, sent, rep, desc, false)
}

/// `prefix_ok`: a transient transport error was injected; if run_on gave up with an error, what
/// reached the shim before must still be a verbatim prefix of what the client framed.
fn check_with(obs: &Obs, sent: &[Sent], rep: &mut Report, desc: &dyn Fn() -> J, prefix_ok: bool) {
    check_full(obs, sent, rep, desc, prefix_ok, false)
}

/// `refused_tail`: behind the commands of `sent` the client framed a statement that is not UTF-8 and
/// one more command: everything in `sent` is delivered, nothing else is, and run_on reports an error.
fn check_full(obs: &Obs, sent: &[Sent], rep: &mut Report, desc: &dyn Fn() -> J, prefix_ok: bool, refused_tail: bool) {
    if harness_panic(obs, rep) {
        return;
    }
    let got: Vec<&Cb> = obs.log.cbs.iter().filter(|c| !matches!(c.kind, CbKind::Auth { .. })).collect();
    let mut bad: Option<(String, String)> = None;
    let gave_up = prefix_ok && obs.outcome.is_err();
    if refused_tail {
        if !obs.outcome.is_err() {
            bad = Some(("non-utf8-statement-accepted".into(), format!("a statement whose text is not UTF-8 cannot reach a &str callback unaltered; run_on returned {}", obs.outcome.describe())));
        }
    } else if !matches!(obs.outcome, Outcome::Ok) && !gave_up {
        bad = Some(("run_on-not-ok".into(), format!("run_on returned {} for a well-formed stream", obs.outcome.describe())));
    }
    if bad.is_none() {
        for (i, s) in sent.iter().enumerate() {
            let Some(cb) = got.get(i) else {
                if gave_up {
                    break;
                }
                bad = Some(("missing-callback".into(), format!("command #{} never reached the shim ({} of {} callbacks seen)", i, got.len(), sent.len())));
                break;
            };
            let (want_kind, want): (&str, &[u8]) = match s {
                Sent::Query(b) => ("on_query", b),
                Sent::Prepare(b) => ("on_prepare", b),
                Sent::Init(b) => ("on_init", b),
                Sent::Exec(b) => ("on_execute", b),
            };
            let have: Option<&[u8]> = match (&cb.kind, s) {
                (CbKind::Query(b), Sent::Query(_)) => Some(b),
                (CbKind::Prepare(b), Sent::Prepare(_)) => Some(b),
                (CbKind::Init(b), Sent::Init(_)) => Some(b),
                (CbKind::Execute { params, .. }, Sent::Exec(_)) => match params.first().map(|p| &p.inner) {
                    Some(Inner::Bytes(b)) if params.len() == 1 => Some(b),
                    _ => None,
                },
                _ => None,
            };
            match have {
                None => {
                    bad = Some(("wrong-callback".into(), format!("command #{} expected {} but shim saw {}", i, want_kind, cb_summary(cb))));
                    break;
                }
                Some(h) => {
                    if let Some(off) = first_diff(h, want) {
                        bad = Some((
                            "payload-differs".into(),
                            format!(
                                "command #{} ({}): delivered {} bytes (h={:016x}), client framed {} bytes (h={:016x}); first difference at offset {}",
                                i,
                                want_kind,
                                h.len(),
                                hash128(h).0,
                                want.len(),
                                hash128(want).0,
                                off
                            ),
                        ));
                        break;
                    }
                    rep.counters.inc("commands_compared");
                }
            }
        }
        if bad.is_none() && got.len() > sent.len() {
            bad = Some(("extra-callback".into(), format!("{} callbacks for {} commands; extra: {}", got.len(), sent.len(), cb_summary(got[sent.len()]))));
        }
    }
    if let Some((sig, what)) = bad {
        rep.violations.push(viol("C01", format!("C01 {}", sig), what, desc()));
    }
}

pub fn run(ctx: &Ctx) -> Report {
    let mut rep = Report::default();
    rep.rule = "cases = (command sequence with position-dependent unique payloads, read schedule); a class is a (largest-payload-length class, schedule kind) pair plus the read-end classes observed (header offset 1/2/3, boundary, payload, several commands per read); every case is non-trivial (>=1 command compared byte-for-byte)".into();
    let n = if ctx.miri { 30 } else { ctx.n(3000, 60_000) };
    let r = par_cases(ctx, "C01", "small", n, |rng, i, rep| {
        let ncmd = if ctx.miri { 2 } else { rng.range(1, 12) as usize };
        let lens: Vec<usize> = (0..ncmd).map(|_| if ctx.miri { rng.range(1, 40) as usize } else { pick_len(rng) }).collect();
        let (cmds, scripts, sent) = build(ctx.seed ^ i, &lens, rng);
        let mut case = Case::new(cmds, scripts);
        // a twelfth of the cases end with a statement whose text is not UTF-8 (latin1 text, a
        // character cut short at the very end, binary data in a literal): it cannot be delivered
        // byte for byte as the &str the callbacks take, so it is not delivered at all - the
        // connection ends with an error, and neither it nor the command behind it reaches the shim
        let refused_tail = !ctx.miri && i % 12 == 7;
        if refused_tail {
            let mut t = Vec::new();
            stream_fill(&mut t, ctx.seed ^ i, 777, rng.range(0, 40) as usize, true);
            let bad: &[u8] = *rng.pick(&[&b"caf\xe9"[..], b"\xc3", b"\xe2\x82", b"\xf0\x9f\xa6", b"\xff\xff\xff\x01\x00\xfe", b"'\x80'", b"\xed\xa0\x80", b"\xc0\xaf"]);
            match rng.below(3) {
                0 => t.extend_from_slice(bad),
                1 => {
                    let at = rng.usize(t.len() + 1);
                    let tail = t.split_off(at);
                    t.extend_from_slice(bad);
                    t.extend_from_slice(&tail);
                }
                _ => {
                    // only the last bytes are at fault, after a run of plain ASCII of any length mod 8
                    let pad = rng.below(17) as usize;
                    t.extend(std::iter::repeat(b'x').take(pad));
                    t.extend_from_slice(bad);
                }
            }
            if std::str::from_utf8(&t).is_err() {
                case.cmds.push(if rng.bool() { Cmd::query(&t) } else { Cmd::prepare(&t) });
                case.cmds.push(Cmd::query(b"behind the refused statement"));
                case.scripts.push(Script::Q(QProg::completed(1, 1)));
                case.scripts.push(Script::Q(QProg::completed(2, 2)));
                rep.counters.inc("cases_ending_with_a_non_utf8_statement");
            }
        } else if rng.chance(1, 4) {
            case.cmds.push(Cmd::quit());
        }
        let refused_tail = refused_tail && case.cmds.len() > sent.len() + 1;
        let (input, _) = case.input();
        let sk = SCHED_KINDS[(i % 7) as usize];
        // 1-byte reads over long inputs are quadratic in the real parser; cap them
        let sk = if matches!(sk, SchedKind::OneByte | SchedKind::Fixed) && input.len() > 20_000 { SchedKind::Random } else { sk };
        case.sched = make_sched(rng, sk, &input);
        // a fifth of the cases: one transient Interrupted / WouldBlock / TimedOut on a random operation
        let transient = !ctx.miri && i % 5 == 3 && !refused_tail;
        if transient {
            let dry = run_case(&case);
            case.fault.err_at = Some(rng.below(dry.world.nops.max(1)));
            case.fault.persistent = false;
            case.fault.err_kind = 100 + (i / 5 % 3) as u8;
            rep.counters.inc("cases_with_a_transient_transport_error");
        }
        let obs = run_case(&case);
        rep.evaluations += 1;
        let maxlen = lens.iter().copied().max().unwrap_or(0);
        rep.counters.class(format!("len={} sched={:?}", len_class(maxlen), sk));
        for c in classify_reads(&obs, &mut rep.counters) {
            rep.counters.class(format!("read:{}", c));
        }
        rep.counters.add("commands_sent", sent.len() as u64);
        let d = || {
            J::obj()
                .set("commands", kinds_summary(&case.cmds))
                .set("payload_lens", lens.iter().map(|&l| J::from(l)).collect::<Vec<_>>())
                .set("sched", case.sched.describe())
                .set("outcome", obs.outcome.describe())
        };
        if i < 3 {
            rep.sample(d());
        }
        check_full(&obs, &sent, rep, &d, transient, refused_tail);
    });
    rep.merge(r);

    // ---- long pipelines of mixed small and medium commands under coarse reads: the unparsed
    //      remainder in the server's buffer takes thousands of different values
    if !ctx.miri {
        let n = ctx.n(300, 20_000);
        let r = par_cases(ctx, "C01", "pipeline", n, |rng, i, rep| {
            let ncmd = rng.range(200, 2000) as usize;
            let lens: Vec<usize> = (0..ncmd)
                .map(|_| match rng.below(20) {
                    0 => rng.range(100, 5000) as usize,
                    1 => rng.range(2040, 2060) as usize,
                    2 => rng.range(4085, 4110) as usize,
                    _ => rng.range(1, 40) as usize,
                })
                .collect();
            let mut lens = lens;
            if i % 5 == 0 {
                let at = rng.usize(lens.len());
                lens[at] = rng.range(600_000, 3_000_000) as usize;
                rep.counters.inc("pipelines_with_a_megabyte_command");
            }
            let (cmds, scripts, sent) = build(ctx.seed ^ (i << 20), &lens, rng);
            let mut case = Case::new(cmds, scripts);
            case.log_reads = false;
            let kind = i % 4;
            case.sched = match kind {
                0 => Sched::all(),
                1 => Sched { cuts: vec![], cycle: vec![rng.range(1000, 9000) as usize] },
                2 => Sched { cuts: vec![], cycle: (0..31).map(|_| rng.range(1, 9000) as usize).collect() },
                _ => Sched { cuts: vec![], cycle: vec![4096, 4097, 1, 8192, 3] },
            };
            if i % 5 == 0 {
                // with a megabyte command in the pipeline, reads of a few KiB would cost gigabytes of
                // buffer zero-filling in the real parser: keep the irregularity, raise the scale
                case.sched.cycle = case.sched.cycle.iter().map(|&c| if c >= 1000 { c * 37 } else { c * 9000 + 70_000 }).collect();
                if case.sched.cycle.is_empty() {
                    case.sched.cycle = vec![1 << 20];
                }
            }
            let obs = run_case(&case);
            rep.evaluations += 1;
            rep.counters.class(format!("pipeline of 200-2000 commands, sched kind {}", kind));
            rep.counters.add("commands_sent", sent.len() as u64);
            rep.counters.inc("long_pipelines");
            let d = || J::obj().set("commands", sent.len()).set("sched", case.sched.describe()).set("outcome", obs.outcome.describe());
            if i == 0 {
                rep.sample(d());
            }
            check(&obs, &sent, rep, &d);
        });
        rep.merge(r);
    }

    // ---- large payloads (multi-packet commands) ----
    if !ctx.miri {
        // 2*(2^24-1)+1 needs three fragments: the smallest case in which a middle fragment exists
        let mut big: Vec<usize> = vec![MAXP - 1, MAXP, MAXP + 1, 2 * MAXP + 1];
        if ctx.thorough {
            big.extend_from_slice(&[MAXP - 2, 2 * MAXP - 1, 2 * MAXP, 2 * MAXP + 5000, MAXP + 70_000, 3 * MAXP]);
        }
        // variant 0: cuts around every header incl. the boundary itself; 1: long data instead of a
        // query; 2: cuts around but never ON a boundary, so a read spans the end of the big command
        // and the start of the next one; 3: coarse reads only
        let cases: Vec<(usize, u64)> = if ctx.thorough { big.iter().flat_map(|&l| (0..4u64).map(move |v| (l, v))).collect() } else { big.iter().enumerate().map(|(k, &l)| (l, [0u64, 2, 3, 1][k % 4])).collect() };
        let r = par_cases(ctx, "C01", "large", cases.len() as u64, |rng, i, rep| {
            let (plen, variant) = cases[i as usize];
            // payload length plen: command byte + text
            let kind_query = variant != 1;
            let mut cmds = Vec::new();
            let mut scripts = Vec::new();
            let mut sent = Vec::new();
            // a small command before and after, so attribution to neighbours is visible
            let mut a = Vec::new();
            stream_fill(&mut a, ctx.seed, 1000 + i, 20, true);
            cmds.push(Cmd::query(&a));
            scripts.push(Script::Q(QProg::completed(1, 0)));
            sent.push(Sent::Query(a));
            let mut body = Vec::new();
            if kind_query {
                stream_fill(&mut body, ctx.seed, 2000 + i, plen - 1, true);
                cmds.push(Cmd::query(&body));
                scripts.push(Script::Q(QProg::completed(2, 0)));
                sent.push(Sent::Query(body));
            } else {
                let pcol = simple_col("p", ColumnType::MYSQL_TYPE_BLOB);
                cmds.push(Cmd::prepare(b"prep"));
                scripts.push(Script::PrepOk { id: 1, params: vec![pcol], cols: vec![] });
                sent.push(Sent::Prepare(b"prep".to_vec()));
                stream_fill(&mut body, ctx.seed, 2000 + i, plen - 7, false);
                cmds.push(Cmd::long_data(1, 0, &body));
                cmds.push(Cmd::execute(1, &[Param { typ: wire::T_BLOB, unsigned: false, value: None, long: true }], true));
                scripts.push(Script::Q(QProg::completed(0, 0)));
                sent.push(Sent::Exec(body));
            }
            let mut c = Vec::new();
            stream_fill(&mut c, ctx.seed, 3000 + i, 33, true);
            cmds.push(Cmd::query(&c));
            scripts.push(Script::Q(QProg::completed(3, 0)));
            sent.push(Sent::Query(c));
            let mut case = Case::new(cmds, scripts);
            case.log_reads = true;
            let (input, _) = case.input();
            // coarse reads, but cuts within +-5 bytes of every packet boundary of the big command
            let mut cuts = Vec::new();
            for (off, len) in layout(&input) {
                if len >= 60_000 || off > 1_000_000 {
                    let picks: Vec<i64> = match variant {
                        2 => vec![-3, 2, 5],
                        3 => vec![],
                        _ => vec![-1, 0, 1, 3, 4],
                    };
                    for d in picks {
                        let c = off as i64 + d;
                        if c > 0 {
                            cuts.push(c as usize);
                        }
                    }
                }
            }
            cuts.sort_unstable();
            cuts.dedup();
            case.sched = Sched { cuts, cycle: vec![if variant == 0 { 1 << 20 } else { (1 << 20) + rng.range(1, 4096) as usize * 257 }] };
            let obs = run_case(&case);
            rep.evaluations += 1;
            rep.counters.class(format!("len={} sched=coarse+boundary-cuts kind={}", len_class(plen), if kind_query { "query" } else { "long_data" }));
            rep.counters.inc("multi_packet_commands");
            for c in classify_reads(&obs, &mut rep.counters) {
                rep.counters.class(format!("read:{}", c));
            }
            rep.counters.add("commands_sent", sent.len() as u64);
            let d = || J::obj().set("big_payload_len", plen).set("kind", if kind_query { "query" } else { "long_data" }).set("sched", case.sched.describe()).set("outcome", obs.outcome.describe());
            if i == 0 {
                rep.sample(d());
            }
            check(&obs, &sent, rep, &d);
        });
        rep.merge(r);
        rep.require("multi_packet_commands", 3);
    }
    // ---- a large single-packet command (64 KiB .. 1 MiB) right behind a command that arrived in
    //      pieces: one read delivers the tail of the earlier command together with the whole large one
    //      and nothing else, so the large command sits in the middle of the server's buffer and ends
    //      where the buffered bytes end (the earlier command is at least twice as long, so that the
    //      doubling buffer has room for such a read)
    if !ctx.miri {
        let n = ctx.n(60, 1500);
        let r = par_cases(ctx, "C01", "large-behind-a-split-command", n, |rng, i, rep| {
            let big = *rng.pick(&[65_536usize, 65_537, 70_000, 100_000, 200_000, 524_288]) + rng.below(3) as usize;
            let prev = 2 * big + rng.range(10, 50_000) as usize;
            let tail = *rng.pick(&[1usize, 2, 4, 5, 10, 1000, 4096]);
            let lens = vec![rng.range(1, 40) as usize, prev, big, rng.range(1, 40) as usize, rng.range(1, 300) as usize];
            let (cmds, scripts, sent) = build(ctx.seed ^ (i << 24) ^ 0x5151, &lens, rng);
            let mut case = Case::new(cmds, scripts);
            case.log_reads = false;
            let (input, _) = case.input();
            // packets in order; a long-data command contributes two packets (the data, then its execute)
            let lay = layout(&input);
            let bigs: Vec<usize> = lay.iter().enumerate().filter(|(_, (_, l))| *l >= 65_000).map(|(k, _)| k).collect();
            if bigs.len() < 2 {
                return;
            }
            let (poff, plen) = lay[bigs[0]];
            let prev_end = poff + 4 + plen;
            // the big command: every packet up to and including the second large one's command (for
            // long data: its execute follows and is left to a later read)
            let (boff, blen) = lay[bigs[1]];
            let big_end = boff + 4 + blen;
            let adjacent = boff == prev_end || lay[bigs[0] + 1..bigs[1]].iter().all(|(_, l)| *l < 64);
            if !adjacent {
                return;
            }
            case.sched = Sched { cuts: vec![prev_end - tail.min(plen), big_end], cycle: vec![] };
            let obs = run_case(&case);
            rep.evaluations += 1;
            rep.counters.inc("large_commands_read_together_with_the_tail_of_their_predecessor");
            rep.counters.class(format!("large command {} behind a split command, tail {}", len_class(big), tail));
            rep.counters.add("commands_sent", sent.len() as u64);
            let d = || J::obj().set("earlier_command_bytes", prev).set("large_command_bytes", big).set("tail_of_the_earlier_command_in_the_same_read", tail).set("sched", case.sched.describe()).set("outcome", obs.outcome.describe());
            if i == 0 {
                rep.sample(d());
            }
            check(&obs, &sent, rep, &d);
        });
        rep.merge(r);
        if ctx.strict() {
            rep.require("large_commands_read_together_with_the_tail_of_their_predecessor", 10);
        }
    }
    rep.merge(super::mega::run(ctx, "C01", 600, 20000));
    for k in ["end_in_header_1", "end_in_header_2", "end_in_header_3", "end_on_boundary", "end_in_payload", "reads_delivering_several_commands", "commands_compared"] {
        if ctx.strict() {
            rep.require(k, 1);
        }
    }
    rep
}
