//! C02 — each client command reaches exactly the right shim callback, verbatim.
//! Model-vs-log monitor: the whole ordered callback list must equal the reference model's list.
use super::common::*;
use crate::core::*;
use crate::model::{Exp, ExpCb, MCmd};
use crate::shim::*;
use crate::util::*;
use crate::wire::{self, PVal, Param};

pub const NEAR_MISS: [&str; 44] = [
    // (punctuation that a careless case fold maps onto the built-in prefixes: '`' onto '@', NUL onto ' ')
    "SELECT `@timestamp`, message FROM logs", "SELECT @`my var`", "select ``.c FROM t AS ``", "SELECT `@", "select @`", "USE\0db", "use\0`db`", "SELECT\0@@x",
    "SELECT 1\0", "a\0b", "\0", "USE db\0", "SELECT @@max_allowed_packet\0", "x\0\0",
    "/* app=orm */ SELECT @@max_allowed_packet", "/* x */USE db", "/*!40101 SET NAMES utf8 */", "/**/", "/* x */ select 1", "-- c\nSELECT @@x", "# c\nUSE db", "(SELECT @@x)", ";USE db", "/*!40101 SET NAMES utf8 */;", "/* unterminated SELECT @@x", "/* a */ /* b */ USE `db`;",
    "SELECT @x", "SELECT @", "SELECT  @@x", "select@@x", "SELECT@@x", " SELECT @@x", "Select 1", "USER()", "USEfoo", "used", "use", "us", "USE", "u", "SELECT",
    "select @", "usefoo", "SELECT @ @x",
];
const BUILTIN_SUFFIX: [&str; 8] = ["max_allowed_packet", "version_comment limit 1", "", "x", "max_allowed_packet ", "sql_mode", "MAX_ALLOWED_PACKET", "autocommit, @@foo"];

fn ident(rng: &mut Rng) -> String {
    let pool: Vec<char> = "abcdefghijklmnopqrstuvwxyzABCDEFGHIJKLMNOPQRSTUVWXYZ0123456789_$éßж数据库".chars().collect();
    let n = rng.range(1, 12) as usize;
    (0..n).map(|_| *rng.pick(&pool)).collect()
}

fn rand_text(rng: &mut Rng) -> Vec<u8> {
    let n = rng.range(1, 60) as usize;
    let pool: Vec<char> = "\0abcxyz SELECT@`;'\"\\\t\n()*=,.0123456789éßж数∑𝄞".chars().collect();
    let mut s: String = (0..n).map(|_| *rng.pick(&pool)).collect();
    // keep clear of the built-in prefixes: those have their own generator
    while s.starts_with("SELECT @@") || s.starts_with("select @@") || s.starts_with("USE ") || s.starts_with("use ") {
        s.insert(0, 'x');
    }
    s.into_bytes()
}

/// Empty or blank statement text (the lower end of the payload-length range): delivered like any
/// other text.
pub fn blank_text(rng: &mut Rng) -> Vec<u8> {
    let n = if rng.chance(1, 3) { 0 } else { rng.range(1, 6) as usize };
    (0..n).map(|_| *rng.pick(&[b' ', b'\t', b'\r', b'\n', 0x0c, b' '])).collect()
}

fn use_stmt(rng: &mut Rng) -> (Vec<u8>, String) {
    let name = ident(rng);
    let mut s = String::from(if rng.bool() { "USE" } else { "use" });
    for _ in 0..rng.range(1, 3) {
        s.push(' ');
    }
    if rng.bool() {
        s.push('`');
        s.push_str(&name);
        s.push('`');
    } else {
        s.push_str(&name);
    }
    if rng.bool() {
        s.push(';');
    }
    match rng.below(5) {
        0 => s.push(' '),
        1 => s.push('\n'),
        2 => s.push_str("  "),
        3 => s.push('\t'),
        _ => {}
    }
    (s.into_bytes(), name)
}

fn invalid_utf8(rng: &mut Rng) -> Vec<u8> {
    let a = rng.range(0, 10) as usize;
    let mut v = rng.ascii(a);
    let bad: [&[u8]; 5] = [&[0xFFu8], &[0xC3, 0x28], &[0xE2, 0x82], &[0x80], &[0xF0, 0x9F, 0x92]];
    v.extend_from_slice(bad[rng.usize(5)]);
    let b = rng.range(0, 5) as usize;
    v.extend(rng.ascii(b));
    v
}

pub fn gen_conv(rng: &mut Rng, rep: &mut Report) -> Conv {
    let mut cv = Conv::default();
    let n = rng.range(1, 40) as usize;
    let mut live: Vec<(u32, u16)> = Vec::new();
    for _ in 0..n {
        if cv.over() {
            break;
        }
        let choice = rng.below(100);
        let e = match choice {
            0..=2 => {
                let t = blank_text(rng);
                match rng.below(4) {
                    0 => {
                        rep.counters.class("Prepare/empty-or-blank -> on_prepare".into());
                        cv.push(MCmd::Prepare(t), Some(Script::PrepErr(1065, b"Query was empty".to_vec())))
                    }
                    1 => {
                        rep.counters.class("InitDb/empty-or-blank -> on_init".into());
                        cv.push(MCmd::Init(t), None)
                    }
                    _ => {
                        rep.counters.class("Query/empty-or-blank -> on_query".into());
                        rep.counters.inc("expect_on_query_blank");
                        cv.push(MCmd::Query(t), None)
                    }
                }
            }
            3..=14 => {
                let t = rand_text(rng);
                rep.counters.class("Query/random-text -> on_query".into());
                cv.push(MCmd::Query(t), None)
            }
            15..=24 => {
                let t = rng.pick(&NEAR_MISS).as_bytes().to_vec();
                rep.counters.class("Query/near-miss -> on_query".into());
                cv.push(MCmd::Query(t), None)
            }
            25..=32 => {
                let t = format!("{}{}", if rng.bool() { "SELECT @@" } else { "select @@" }, rng.pick(&BUILTIN_SUFFIX));
                rep.counters.class("Query/SELECT @@ -> builtin".into());
                cv.push(MCmd::Query(t.into_bytes()), None)
            }
            33..=42 => {
                let (t, _name) = use_stmt(rng);
                rep.counters.class("Query/USE -> on_init".into());
                cv.push(MCmd::Query(t), if rng.bool() { Some(Script::InitOk) } else { Some(Script::InitErr(1049, b"no".to_vec())) })
            }
            43..=48 => {
                rep.counters.class("InitDb -> on_init".into());
                cv.push(MCmd::Init(ident(rng).into_bytes()), None)
            }
            49..=58 => {
                // any 32-bit id, the edges of the range as often as the middle
                let id = if rng.chance(1, 3) { *rng.pick(&[0u32, 1, u32::MAX, u32::MAX - 1, 0x8000_0000, 0x7FFF_FFFF, 0x00FF_FFFF, 0x0100_0000]) } else { rng.next() as u32 };
                let np = rng.below(3) as u16;
                rep.counters.class("Prepare -> on_prepare".into());
                let ok = rng.chance(4, 5);
                let s = if ok { Script::PrepOk { id, params: param_cols(np as usize), cols: vec![] } } else { Script::PrepErr(1064, b"bad".to_vec()) };
                // what the library answers itself it answers for COM_QUERY: the same texts sent for
                // PREPARE are statements like any other and reach on_prepare verbatim
                let ptext = match rng.below(6) {
                    0 => {
                        let mut t = if rng.bool() { b"SELECT @@".to_vec() } else { b"select @@".to_vec() };
                        t.extend_from_slice(*rng.pick(&[&b"max_allowed_packet"[..], b"version_comment", b"x", b""]));
                        t
                    }
                    1 => use_stmt(rng).0,
                    _ => rand_text(rng),
                };
                let e = cv.push(MCmd::Prepare(ptext), Some(s));
                if ok && matches!(e, Exp::Cb(_)) {
                    live.retain(|(i, _)| *i != id);
                    live.push((id, np));
                }
                e
            }
            59..=68 if !live.is_empty() => {
                let (id, np) = *rng.pick(&live);
                let params: Vec<Param> = (0..np).map(|_| Param { typ: wire::T_LONG, unsigned: false, value: Some(PVal::Int(rng.next() as i32 as i128)), long: false }).collect();
                rep.counters.class("Execute -> on_execute".into());
                cv.push(MCmd::Execute { id, params, send_types: true }, None)
            }
            69..=73 if !live.is_empty() => {
                let (id, _) = *rng.pick(&live);
                // parameter index beyond the declared count: stored, never delivered
                rep.counters.class("LongData -> silent".into());
                let dl = rng.range(0, 30) as usize;
                cv.push(MCmd::LongData { id, param: 1000 + rng.below(60000) as u16, data: rng.bytes(dl) }, None)
            }
            74..=81 => {
                let id = if !live.is_empty() && rng.chance(2, 3) {
                    let i = rng.usize(live.len());
                    live.remove(i).0
                } else {
                    rng.next() as u32
                };
                rep.counters.class("Close -> on_close".into());
                cv.push(MCmd::Close(id), None)
            }
            82..=86 => {
                rep.counters.class("FieldList -> builtin".into());
                let al = rng.range(0, 12) as usize;
                cv.push(MCmd::FieldList(if rng.bool() { rng.ascii(al) } else { field_list_arg(rng) }), None)
            }
            87..=93 => {
                rep.counters.class("Ping -> builtin".into());
                cv.push(MCmd::Ping, None)
            }
            94..=95 => {
                rep.counters.class("Quit -> end".into());
                cv.push(MCmd::Quit, None)
            }
            96..=97 => {
                let t = invalid_utf8(rng);
                let k = rng.below(4);
                rep.counters.class(format!("invalid-utf8/{} -> connection error", ["query", "prepare", "init_db", "use"][k as usize]));
                match k {
                    0 => cv.push(MCmd::Query(t), None),
                    1 => cv.push(MCmd::Prepare(t), None),
                    2 => cv.push(MCmd::Init(t), None),
                    _ => {
                        let mut u = b"USE ".to_vec();
                        u.extend(t);
                        cv.push(MCmd::Query(u), None)
                    }
                }
            }
            _ => {
                rep.counters.class("Ping -> builtin".into());
                cv.push(MCmd::Ping, None)
            }
        };
        match e {
            Exp::Cb(ExpCb::Query(_)) => rep.counters.inc("expect_on_query"),
            Exp::Cb(ExpCb::Prepare(_)) => rep.counters.inc("expect_on_prepare"),
            Exp::Cb(ExpCb::Init(_)) => rep.counters.inc("expect_on_init"),
            Exp::Cb(ExpCb::Execute { .. }) => rep.counters.inc("expect_on_execute"),
            Exp::Cb(ExpCb::Close(_)) => rep.counters.inc("expect_on_close"),
            Exp::Builtin => rep.counters.inc("expect_builtin_answer"),
            Exp::Silent => rep.counters.inc("expect_silent"),
            Exp::Quit => rep.counters.inc("expect_quit"),
            Exp::ConnErr(_) => rep.counters.inc("expect_invalid_utf8_rejection"),
        }
    }
    cv
}

pub fn run(ctx: &Ctx) -> Report {
    let mut rep = Report::default();
    rep.rule = "cases = random command sequences (1-40 commands over the nine kinds, texts from random/empty-or-blank/near-miss/built-in/USE-spelling/invalid-UTF-8 pools, random 32-bit statement ids); a class is a (command kind, text class) -> expected-routing pair; a case is non-trivial when at least one callback or built-in answer was compared against the reference model".into();
    let n = if ctx.miri { 8 } else { ctx.n(20_000, 1_000_000) };
    let r = par_cases(ctx, "C02", "seq", n, |rng, i, rep| {
        let cv = gen_conv(rng, rep);
        // commands sent after the modelled end of the connection: they must not be served
        let mut case = cv.case();
        if cv.over() {
            case.cmds.push(Cmd::query(b"after the end"));
            case.scripts.push(Script::Q(QProg::completed(0, 0)));
            case.cmds.push(Cmd::close(7));
        }
        if i % 3 == 1 {
            let (input, _) = case.input();
            case.sched = make_sched(rng, SCHED_KINDS[(i / 3 % 7) as usize], &input);
        }
        let obs = run_case(&case);
        rep.evaluations += 1;
        if harness_panic(&obs, rep) {
            return;
        }
        rep.counters.add("callbacks_observed", obs.log.cbs.len() as u64);
        let d = || J::obj().set("commands", cv.summary()).set("outcome", obs.outcome.describe()).set("first_commands", cv.m.iter().take(6).map(|m| J::s(format!("{:?}", m).chars().take(120).collect::<String>())).collect::<Vec<_>>());
        if i < 3 {
            rep.sample(d());
        }
        // panics on well-formed input are reported here too (they end the connection without Err)
        for (sig, what) in routing_violations(&obs, &cv) {
            let sig = if let Outcome::Panic { file, line, msg } = &obs.outcome { format!("C02 {} via {}", sig, panic_signature(file, *line, msg)) } else { format!("C02 {}", sig) };
            rep.violations.push(viol("C02", sig, what, d()));
        }
    });
    rep.merge(r);

    // ---- the transport reports Interrupted / WouldBlock / TimedOut on one operation (a signal, a
    //      socket timeout) and works again afterwards. Whether the server gives up or carries on is
    //      not C02's business; what it does hand to the shim must still be the client's bytes: the
    //      callbacks are a prefix of the model's list if run_on ends with an error, the whole list
    //      if it returns Ok.
    if !ctx.miri {
        let n = ctx.n(6000, 50_000);
        let r = par_cases(ctx, "C02", "transient-errors", n, |rng, i, rep| {
            let cv = gen_conv(rng, rep);
            let mut case = cv.case();
            let (input, _) = case.input();
            // reads that end inside commands, so that a partly buffered command meets the error
            case.sched = make_sched(rng, [SchedKind::Random, SchedKind::OneByte, SchedKind::HeaderCuts, SchedKind::Fixed][(i % 4) as usize], &input);
            let dry = run_case(&case);
            if harness_panic(&dry, rep) {
                return;
            }
            let nops = dry.world.nops.max(1);
            let kind = 100 + (i / 4 % 3) as u8;
            case.fault.err_at = Some(rng.below(nops));
            case.fault.persistent = false;
            case.fault.err_kind = kind;
            let obs = run_case(&case);
            rep.evaluations += 1;
            if harness_panic(&obs, rep) {
                return;
            }
            let kname = ["Interrupted", "WouldBlock", "TimedOut"][(kind - 100) as usize];
            rep.counters.class(format!("transient {} on {:?} -> {}", kname, obs.world.fault_op, obs.outcome.class()));
            let d = || J::obj().set("commands", cv.summary()).set("fault", format!("{} at transport operation #{} ({:?}) of {}", kname, case.fault.err_at.unwrap(), obs.world.fault_op, nops)).set("sched", case.sched.describe()).set("outcome", obs.outcome.describe());
            if i < 2 {
                rep.sample(d());
            }
            if let Outcome::Panic { file, line, msg } = &obs.outcome {
                rep.violations.push(viol("C02", format!("C02 {}", panic_signature(file, *line, msg)), format!("a transient {} made run_on panic: {}", kname, obs.outcome.describe()), d()));
                return;
            }
            if obs.world.fault_op.is_none() {
                rep.counters.inc("transient_fault_not_reached");
            }
            let viols = if obs.outcome == Outcome::Ok { routing_violations(&obs, &cv) } else { routing_prefix_violations(&obs, &cv) };
            for (sig, what) in viols {
                rep.violations.push(viol("C02", format!("C02 transient-error:{}", sig), format!("after a transient {} on {:?}: {}", kname, obs.world.fault_op, what), d()));
            }
            if obs.outcome == Outcome::Ok {
                rep.counters.inc("transient_errors_survived");
            } else {
                rep.counters.inc("transient_errors_ending_the_connection");
            }
            rep.counters.add("callbacks_observed", obs.log.cbs.len() as u64);
        });
        rep.merge(r);
    }
    rep.merge(super::mega::run(ctx, "C02", 1500, 60000));
    if ctx.strict() {
        for k in ["expect_on_query", "expect_on_query_blank", "expect_on_prepare", "expect_on_init", "expect_on_execute", "expect_on_close", "expect_builtin_answer", "expect_quit", "expect_invalid_utf8_rejection"] {
            rep.require(k, 1);
        }
    }
    rep
}
