//! C12 — the server never waits for input while it owes a flushed reply.
//! The assertion is evaluated at every read() of the transport (the only place where "waiting" is
//! observable): nothing written may be unflushed, and every reply-expecting exchange whose last
//! byte earlier reads have handed over must already have a complete response among the flushed
//! bytes. In lock-step / k-deep pipelined arrival a read while the client awaits a reply is a
//! deadlock event. No clocks are involved.
use super::c03::rich_case;
use super::common::*;
use crate::core::*;
use crate::shim::*;
use crate::transport::Sched;
use crate::util::*;
use crate::wire::{self, Kind};

/// byte offsets in the flushed output at which the k-th response becomes complete
fn response_ends(obs: &Obs) -> Vec<usize> {
    let out = &obs.world.visible;
    let (pkts, _) = wire::packets_prefix(out);
    let (msgs, _) = wire::messages_prefix(out, &pkts);
    let d = wire::decode_all(&obs.kinds, &msgs);
    d.spans
        .iter()
        .map(|&(_, b)| {
            let m = &msgs[b - 1];
            let p = pkts[m.first + m.npkts - 1];
            p.off + 4 + p.len
        })
        .collect()
}

fn check(obs: &Obs, rep: &mut Report, d: &dyn Fn() -> J) {
    if harness_panic(obs, rep) {
        return;
    }
    let rends = response_ends(obs);
    // replies owed once the first j exchanges (handshake = exchange 1 in kinds) are handed over
    let mut owed_after = vec![1usize]; // greeting is owed before any input
    let mut acc = 1;
    for (j, _) in obs.ends.iter().enumerate() {
        if obs.kinds[j + 1].expects_reply() {
            acc += 1;
        }
        owed_after.push(acc);
    }
    for r in &obs.world.read_log {
        rep.counters.inc("reads_checked");
        if r.pending != 0 {
            rep.violations.push(viol("C12", "C12 read-with-unflushed-output".into(), format!("read() at input offset {} while {} written bytes were not flushed", r.pos, r.pending), d()));
            return;
        }
        let handed = obs.ends.iter().filter(|e| e.0 <= r.pos).count();
        // a connection-ending exchange (QUIT / rejected auth) needs no further reads; ignore beyond
        let owed = owed_after[handed];
        let have = rends.iter().filter(|&&e| e <= r.visible).count();
        if have < owed {
            // which exchange is unanswered
            rep.violations.push(viol(
                "C12",
                "C12 read-while-owing-reply".into(),
                format!("read() at input offset {} ({} exchanges fully received, {} replies owed incl. greeting) but only {} complete responses had been flushed ({} flushed bytes)", r.pos, handed, owed, have, r.visible),
                d(),
            ));
            return;
        }
        if matches!(r.n, 4096 | 8192 | 16384 | 32768) {
            rep.counters.inc("reads_filling_the_offered_buffer");
        }
        if handed > 0 && obs.ends[handed - 1].0 == r.pos {
            rep.counters.inc("reads_at_command_boundary");
        }
    }
    if let Some(dl) = &obs.world.deadlock {
        rep.violations.push(viol("C12", "C12 deadlock".into(), format!("server called read() at input offset {} while the client was still waiting for a reply ({} flushed, {} unflushed bytes)", dl.pos, dl.visible, dl.pending), d()));
    }
}

pub fn run(ctx: &Ctx) -> Report {
    let mut rep = Report::default();
    rep.rule = "cases = rich conversations (chained resultsets, errors, prepares, no-reply commands between reply-expecting ones, auth accept/reject) under an arrival mode (scripted with every C01 read schedule, lock-step, k-deep pipelining); a class is an (arrival mode, schedule kind) pair; non-trivial = at least one read() was checked against the owed-replies assertion".into();
    let n = if ctx.miri { 6 } else { ctx.n(6000, 300_000) };
    let r = par_cases(ctx, "C12", "arrival", n, |rng, i, rep| {
        let (mut case, _) = rich_case(rng, if ctx.miri { 3 } else { 12 }, false);
        // long commands, so that the input crosses the server's read-buffer sizes (4096, 8192, ...)
        // at every alignment: a read that exactly fills the buffer must not be mistaken for "more to come"
        if !ctx.miri && rng.chance(1, 3) {
            let (hs_len, _) = case.input();
            let mut total = hs_len.len();
            for _ in 0..rng.range(1, 3) {
                let target = *rng.pick(&[4096usize, 8192, 16384, 4096, 8192]);
                let want = match rng.below(4) {
                    0 => target.saturating_sub(total + 5),          // this command ends exactly on the buffer size
                    1 => target.saturating_sub(total + 5) + rng.range(1, 9) as usize,
                    2 => target.saturating_sub(total + 5).saturating_sub(rng.range(1, 9) as usize),
                    _ => rng.range(1, 20_000) as usize,
                }
                .max(1);
                let mut text = Vec::new();
                stream_fill(&mut text, rng.next(), 0, want, true);
                case.cmds.push(Cmd::query(&text));
                case.scripts.push(Script::Q(QProg::completed(1, 1)));
                total += want + 5;
                rep.counters.inc("long_commands_added");
            }
        }
        if rng.chance(1, 10) {
            case.cmds.push(Cmd::quit());
        }
        if rng.chance(1, 12) {
            case.auth_reject = Some(77);
        }
        let (input, _) = case.input();
        let mode = i % 6;
        let cls;
        match mode {
            0 => {
                case.arrival = Arrival::Pipelined(1);
                cls = "lock-step".to_string();
            }
            1 => {
                let k = *rng.pick(&[2usize, 3, 5]);
                case.arrival = Arrival::Pipelined(k);
                cls = format!("pipelined depth {}", k);
            }
            _ => {
                let sk = SCHED_KINDS[(i / 6 % 7) as usize];
                case.sched = make_sched(rng, sk, &input);
                cls = format!("scripted {:?}", sk);
            }
        }
        if mode <= 1 && rng.bool() {
            let sk = *rng.pick(&[SchedKind::OneByte, SchedKind::Random, SchedKind::HeaderCuts]);
            case.sched = make_sched(rng, sk, &input);
        }
        if rng.chance(1, 5) {
            case.write_limit = *rng.pick(&[1usize, 5, 64]);
        }
        let obs = run_case(&case);
        rep.evaluations += 1;
        rep.counters.class(cls.clone());
        if mode <= 1 {
            rep.counters.inc("deadlock_checks_armed");
        }
        let several = obs.world.read_log.iter().filter(|r| obs.ends.iter().filter(|e| e.0 > r.pos && e.0 <= r.pos + r.n).count() > 1).count();
        rep.counters.add("reads_delivering_several_commands", several as u64);
        let d = || J::obj().set("arrival", cls.clone()).set("commands", kinds_summary(&case.cmds)).set("sched", case.sched.describe()).set("auth_reject", case.auth_reject.is_some()).set("outcome", obs.outcome.describe());
        if i < 2 {
            rep.sample(d());
        }
        check(&obs, rep, &d);
    });
    rep.merge(r);
    // ---- replies of exactly N packets for every N around the places where an 8-bit packet counter
    //      wraps (256, 512): whether a reply is flushed must not depend on its length
    if !ctx.miri {
        let counts: Vec<usize> = (250..=262).chain(506..=518).chain(if ctx.thorough { 762..=774 } else { 0..=0 }).filter(|&c| c > 5).collect();
        let r = par_cases(ctx, "C12", "reply-packet-count", counts.len() as u64 * 2, |_rng, i, rep| {
            let packets = counts[i as usize / 2];
            let lock_step = i % 2 == 0;
            // one-column resultset: count + 1 definition + EOF + rows + EOF = rows + 4 packets
            let rows = packets - 4;
            let cols = vec![simple_col("a", msql_srv::ColumnType::MYSQL_TYPE_LONG)];
            let mut ops = vec![QOp::Start(0)];
            for r in 0..rows {
                ops.push(QOp::Row(vec![Cell::val(V::I32(r as i32))], RowForm::Owned));
            }
            ops.push(QOp::Finish);
            let mut case = Case::new(vec![Cmd::query(b"q"), Cmd::ping(), Cmd::query(b"q2"), Cmd::ping()], vec![Script::Q(QProg { colsets: vec![cols.clone()], ops: ops.clone(), on_err: OnErr::Drop }), Script::Q(QProg { colsets: vec![cols], ops, on_err: OnErr::Drop })]);
            if lock_step {
                case.arrival = Arrival::Pipelined(1);
            }
            let obs = run_case(&case);
            rep.evaluations += 1;
            rep.counters.inc("replies_of_chosen_packet_count");
            rep.counters.class(format!("reply of {} packets, {}", packets, if lock_step { "lock-step" } else { "scripted" }));
            if lock_step {
                rep.counters.inc("deadlock_checks_armed");
            }
            let d = || J::obj().set("reply_packets", packets).set("arrival", if lock_step { "lock-step" } else { "scripted" }).set("outcome", obs.outcome.describe());
            if i == 0 {
                rep.sample(d());
            }
            check(&obs, rep, &d);
        });
        rep.merge(r);
    }
    // ---- commands of 16 MiB and more (several wire packets) in lock-step: the client sends the next
    //      command only after the reply, so a server that does not answer once the last fragment
    //      is in, or that waits for "more", is caught reading while it owes a reply
    if !ctx.miri {
        let mut lens: Vec<(usize, u8)> = vec![(wire::MAXP + 999, 0), (wire::MAXP, 0), (wire::MAXP + 10, 1)];
        if ctx.thorough {
            lens.extend_from_slice(&[(wire::MAXP - 1, 0), (wire::MAXP + 1, 0), (2 * wire::MAXP + 5000, 0), (2 * wire::MAXP, 1), (wire::MAXP + 70_000, 1), (wire::MAXP + 5000, 0), (wire::MAXP + 3000, 0)]);
        }
        let nsched = if ctx.thorough { 4 } else { 2 };
        let r = par_cases(ctx, "C12", "multi-packet-command", (lens.len() * nsched) as u64, |rng, i, rep| {
            let (plen, kind) = lens[i as usize / nsched];
            let mut body = Vec::new();
            let (cmds, scripts) = if kind == 0 {
                stream_fill(&mut body, ctx.seed, 500 + i, plen - 1, true);
                (vec![Cmd::ping(), Cmd::query(&body), Cmd::ping(), Cmd::query(b"after"), Cmd::ping()], vec![Script::Q(QProg::completed(1, 0)), Script::Q(QProg::completed(2, 0))])
            } else {
                stream_fill(&mut body, ctx.seed, 500 + i, plen - 7, false);
                let pcol = simple_col("p", msql_srv::ColumnType::MYSQL_TYPE_BLOB);
                (
                    vec![Cmd::prepare(b"p"), Cmd::long_data(1, 0, &body), Cmd::execute(1, &[wire::Param { typ: wire::T_BLOB, unsigned: false, value: None, long: true }], true), Cmd::ping()],
                    vec![Script::PrepOk { id: 1, params: vec![pcol], cols: vec![] }, Script::Q(QProg::completed(3, 0))],
                )
            };
            let mut case = Case::new(cmds, scripts);
            case.arrival = Arrival::Pipelined(1);
            case.log_reads = true;
            // reads: one big gulp, MiB-sized pieces, or pieces that end a little after the fragment boundary
            case.sched = match i as usize % nsched {
                0 => Sched { cuts: vec![], cycle: vec![1 << 26] },
                1 => Sched { cuts: vec![], cycle: vec![(1 << 20) + rng.range(1, 5000) as usize] },
                2 => Sched { cuts: vec![], cycle: vec![wire::MAXP + 4 + 40 + rng.range(1, 900) as usize, 1000] },
                _ => Sched { cuts: vec![], cycle: vec![(3 << 20) + 17, 4096, 1 << 22] },
            };
            let obs = run_case(&case);
            rep.evaluations += 1;
            rep.counters.inc("deadlock_checks_armed");
            rep.counters.inc("multi_packet_commands_in_lock_step");
            rep.counters.class(format!("{} of {} bytes in lock-step, read pattern {}", if kind == 0 { "query" } else { "long data + execute" }, len_class(plen), i as usize % nsched));
            let d = || J::obj().set("command", if kind == 0 { "COM_QUERY" } else { "COM_STMT_SEND_LONG_DATA then EXECUTE" }).set("payload_bytes", plen).set("arrival", "lock-step").set("sched", case.sched.describe()).set("outcome", obs.outcome.describe());
            if i == 0 {
                rep.sample(d());
            }
            check(&obs, rep, &d);
            // and it was really served
            let want = if kind == 0 { 2 } else { 2 };
            let got = obs.log.cbs.iter().filter(|c| matches!(c.kind, CbKind::Query(_) | CbKind::Execute { .. } | CbKind::Prepare(_))).count();
            if got != want && obs.outcome == Outcome::Ok {
                rep.violations.push(viol("C12", "C12 multi-packet-command-not-served".into(), format!("{} callbacks for a conversation with {} reply-expecting shim commands", got, want), d()));
            }
        });
        rep.merge(r);
    }
    // ---- statement texts of every shape (C02's near-miss pool: comments terminated and not, version
    //      comments, the built-in prefixes in disguise, NUL bytes) in lock-step with a command behind
    //      them: each is answered (by the backend or by the library) before the server waits again -
    //      and a server that spins on a text instead of answering is caught by the stuck-case watchdog
    let n = if ctx.miri { 2 } else { super::c02::NEAR_MISS.len() as u64 * 2 };
    let r = par_cases(ctx, "C12", "statement-texts", n, |rng, i, rep| {
        let text = super::c02::NEAR_MISS[(i / 2) as usize % super::c02::NEAR_MISS.len()].as_bytes().to_vec();
        let mut cmds = Vec::new();
        let mut scripts = Vec::new();
        // whichever callback the text reaches, it answers
        cmds.push(Cmd::query(&text));
        scripts.push(Script::Q(QProg::completed(1, 0)));
        cmds.push(Cmd::ping());
        if rng.bool() {
            cmds.push(Cmd::query(b"behind"));
            scripts.push(Script::Q(QProg::completed(2, 0)));
        }
        let mut case = Case::new(cmds, scripts);
        case.conv = false;
        if i % 2 == 0 {
            case.arrival = Arrival::Pipelined(1);
        }
        let obs = run_case(&case);
        rep.evaluations += 1;
        rep.counters.class(format!("statement text #{} {}", i / 2, if i % 2 == 0 { "lock-step" } else { "pipelined" }));
        let d = || J::obj().set("text", show(&text)).set("arrival", format!("{:?}", case.arrival)).set("outcome", obs.outcome.describe());
        // the shim's scripts are consumed per callback: a USE text takes on_init (default script: ok)
        check(&obs, rep, &d);
    });
    rep.merge(r);
    // ---- zero-length packets between commands (keep-alives of some proxies; not a command of the
    //      protocol): the unchanged library gives up on the connection, a lenient one skips them. Either
    //      way a command that arrived in the same read behind such a packet is answered before the
    //      server waits again
    let n = if ctx.miri { 2 } else { ctx.n(400, 6000) };
    let r = par_cases(ctx, "C12", "zero-length-packets", n, |rng, i, rep| {
        let mut cmds = Vec::new();
        let mut scripts = Vec::new();
        let some = |cmds: &mut Vec<Cmd>, scripts: &mut Vec<Script>, rng: &mut Rng, k: u64| match rng.below(3) {
            0 => cmds.push(Cmd::ping()),
            1 => {
                cmds.push(Cmd::query(format!("q{}", k).as_bytes()));
                scripts.push(Script::Q(QProg::completed(k, 0)));
            }
            _ => {
                cmds.push(Cmd::init_db(b"db"));
                scripts.push(Script::InitOk);
            }
        };
        for k in 0..rng.below(3) {
            some(&mut cmds, &mut scripts, rng, k);
        }
        for _ in 0..rng.range(1, 2) {
            // (declared as a command without reply: that is what a skipped packet amounts to)
            cmds.push(Cmd::new(Kind::Close, vec![]).seq(rng.below(4) as u8));
        }
        for k in 0..rng.range(1, 3) {
            some(&mut cmds, &mut scripts, rng, 10 + k);
        }
        let mut case = Case::new(cmds, scripts);
        case.arrival = Arrival::Pipelined(1);
        if i % 3 == 2 {
            let (input, _) = case.input();
            let sk = *rng.pick(&[SchedKind::Boundaries, SchedKind::Random]);
            case.sched = make_sched(rng, sk, &input);
        }
        let obs = run_case(&case);
        rep.evaluations += 1;
        rep.counters.class(format!("zero-length packet between commands, lock-step, sched {}", i % 3));
        let d = || J::obj().set("commands", kinds_summary(&case.cmds)).set("note", "C in the command list is the zero-length packet").set("outcome", obs.outcome.describe());
        if i < 2 {
            rep.sample(d());
        }
        check(&obs, rep, &d);
    });
    rep.merge(r);
    // ---- a client of another character set: the text of a QUERY / `USE` / PREPARE / INIT_DB is not UTF-8
    //      (latin1 `caf\xe9`), sent in lock-step. The unchanged library gives up on the connection; a
    //      library that answers instead has to flush that answer before it waits for the next command
    let n = if ctx.miri { 2 } else { ctx.n(400, 6000) };
    let r = par_cases(ctx, "C12", "text-in-another-character-set", n, |rng, i, rep| {
        let mut cmds = Vec::new();
        let mut scripts = Vec::new();
        for k in 0..rng.below(3) {
            cmds.push(Cmd::query(format!("q{}", k).as_bytes()));
            scripts.push(Script::Q(QProg::completed(k, 0)));
        }
        let bad: &[u8] = match rng.below(4) {
            0 => b"SELECT 'caf\xe9'",
            1 => b"\xff\xfe",
            2 => b"name_\xe9t\xe9",
            _ => b"x\xc3",
        };
        let (kind, cmd) = match i % 4 {
            0 => ("COM_QUERY", Cmd::query(bad)),
            1 => ("USE as a query", Cmd::query(&[b"USE `".as_slice(), bad, b"`"].concat())),
            2 => ("COM_STMT_PREPARE", Cmd::prepare(bad)),
            _ => ("COM_INIT_DB", Cmd::init_db(bad)),
        };
        cmds.push(cmd);
        scripts.push(Script::Q(QProg::completed(9, 9)));
        if rng.bool() {
            cmds.push(Cmd::ping());
        }
        let mut case = Case::new(cmds, scripts);
        case.arrival = Arrival::Pipelined(1);
        if rng.bool() {
            let (input, _) = case.input();
            let sk = *rng.pick(&[SchedKind::OneByte, SchedKind::HeaderCuts, SchedKind::Random]);
            case.sched = make_sched(rng, sk, &input);
        }
        let obs = run_case(&case);
        rep.evaluations += 1;
        rep.counters.class(format!("text that is not UTF-8 in {}, lock-step", kind));
        let d = || J::obj().set("commands", kinds_summary(&case.cmds)).set("command_with_the_text", kind).set("text", show(bad)).set("outcome", obs.outcome.describe());
        if i < 2 {
            rep.sample(d());
        }
        check(&obs, rep, &d);
    });
    rep.merge(r);
    // ---- a client that asks for TLS from a shim that offers none, and then waits: whatever the server
    //      has to say to that (the unchanged library says nothing and ends the connection) is flushed
    //      before the server reads again. In the build without the library's tls feature the refusal
    //      is code of its own.
    let n = if ctx.miri { 2 } else { ctx.n(400, 4000) };
    let r = par_cases(ctx, "C12", "tls-requested-not-offered", n, |rng, i, rep| {
        let (case, label) = ssl_refusal_case(rng, i);
        let obs = run_case(&case);
        rep.evaluations += 1;
        rep.counters.class(label.clone());
        let d = || ssl_refusal_detail(&case, &obs, &label);
        if harness_panic(&obs, rep) {
            return;
        }
        // only the unambiguous half of the clause is judged here: whatever the server has written
        // (the refusal's reason, if it gives one) is flushed before it reads again. What a refused
        // client is still owed for commands it sent behind the refused request is not for C12 to say.
        for r in &obs.world.read_log {
            rep.counters.inc("reads_checked");
            if r.pending != 0 {
                rep.violations.push(viol("C12", "C12 read-with-unflushed-output".into(), format!("read() at input offset {} while {} written bytes were not flushed", r.pos, r.pending), d()));
                return;
            }
        }
        rep.counters.inc("tls_refusals_checked");
    });
    rep.merge(r);
    // ---- commands pipelined behind commands that have no reply, on connections whose read buffer has
    //      grown: an earlier command of 70 KB .. 1 MB, statements prepared and closed (the last open one
    //      too), long data, and the next command always in the same read as the CLOSE / long data in
    //      front of it - everything that has arrived is answered before the server waits again
    let n = if ctx.miri { 1 } else { ctx.n(300, 8000) };
    let r = par_cases(ctx, "C12", "behind-no-reply-commands", n, |rng, i, rep| {
        let mut cmds = Vec::new();
        let mut scripts = Vec::new();
        if rng.chance(3, 4) {
            let mut t = Vec::new();
            let l = *rng.pick(&[70_000usize, 100_000, 300_000, 1_000_000]);
            stream_fill(&mut t, rng.next(), 3, l, true);
            cmds.push(Cmd::query(&t));
            scripts.push(Script::Q(QProg::completed(1, 0)));
        }
        let nst = rng.range(1, 3) as u32;
        for id in 1..=nst {
            cmds.push(Cmd::prepare(b"p"));
            scripts.push(Script::PrepOk { id, params: vec![simple_col("p", msql_srv::ColumnType::MYSQL_TYPE_BLOB)], cols: vec![] });
        }
        if rng.bool() {
            cmds.push(Cmd::long_data(1, 0, b"chunk"));
        }
        // close them all, the last one included, each CLOSE directly followed by a command that has a reply
        for id in 1..=nst {
            cmds.push(Cmd::close(id));
            match rng.below(3) {
                0 => cmds.push(Cmd::ping()),
                1 => {
                    cmds.push(Cmd::query(b"behind the close"));
                    scripts.push(Script::Q(QProg::completed(2, 2)));
                }
                _ => {
                    cmds.push(Cmd::init_db(b"db"));
                    scripts.push(Script::InitOk);
                }
            }
        }
        cmds.push(Cmd::ping());
        let mut case = Case::new(cmds, scripts);
        let (input, ends) = case.input();
        case.sched = match i % 4 {
            0 => Sched::all(),
            1 => Sched { cuts: vec![], cycle: vec![1 << 20] },
            // reads end exactly in front of every CLOSE, so each CLOSE and its successor share a read
            2 => Sched { cuts: ends.iter().zip(case.cmds.iter().map(|c| c.kind).chain(std::iter::once(Kind::Ping))).filter(|(_, k)| *k == Kind::Close).map(|(e, _)| e.0).collect(), cycle: vec![] },
            _ => make_sched(rng, SchedKind::Random, &input[..input.len().min(1)]),
        };
        if input.len() > 100_000 && i % 4 == 3 {
            case.sched = Sched { cuts: vec![], cycle: vec![rng.range(65_536, 1 << 20) as usize] };
        }
        let obs = run_case(&case);
        rep.evaluations += 1;
        rep.counters.class(format!("behind no-reply commands: {} statements, sched {}", nst, i % 4));
        let d = || J::obj().set("commands", kinds_summary(&case.cmds)).set("input_bytes", input.len()).set("sched", case.sched.describe()).set("outcome", obs.outcome.describe());
        if i == 0 {
            rep.sample(d());
        }
        check(&obs, rep, &d);
        if obs.outcome != Outcome::Ok && !matches!(obs.outcome, Outcome::Panic { .. }) {
            rep.violations.push(viol("C12", "C12 pipelined-conversation-not-served".into(), format!("a well-formed pipelined conversation ended with {}", obs.outcome.describe()), d()));
        }
    });
    rep.merge(r);
    rep.merge(super::mega::run(ctx, "C12", 1500, 60000));
    if ctx.strict() {
        rep.require("multi_packet_commands_in_lock_step", 3);
        rep.require("reads_checked", 1000);
        rep.require("deadlock_checks_armed", 10);
        rep.require("reads_delivering_several_commands", 10);
        rep.require("reads_at_command_boundary", 10);
        rep.require("long_commands_added", 100);
        rep.require("reads_filling_the_offered_buffer", 10);
    }
    let _ = Kind::Ping;
    rep
}
